#!/usr/bin/env python3
"""Regenerates MANIFEST.json from the table below (run after adding/removing a check)."""
import json, os
V = os.path.dirname(os.path.dirname(os.path.abspath(__file__)))
NA = {
    "C01": "observational equivalence of arbitrary programs needs an operational semantics of Python and a simulation proof over ~95 rewrites; no contract over the available theories expresses it (the side conditions it rests on are decided under C10, C15-C17)",
    "C02": "same as C01 per rule; the rules whose correctness is arithmetic/propositional are decided under C15-C17",
    "C11": "quantifies over CPython's tokenizer (which characters lie inside string literals); the layout stages are regex/difflib text transforms with no guard a contract could use, and re.sub chains over unbounded strings are undecided in z3/cvc5",
    "C18": "postcondition is about importlib resolution over an arbitrary on-disk package layout; a contract would have to assume the import system wholesale",
}
CHECKS = {
    "C03": dict(level="other", technique="deductive contracts (pyvc) on _apply_rewrites, _replace_nodes, fix_import_spacing, fix, chain (valid-or-unchanged / valid-to-valid), format_file write guard as ghost-event obligations, structural rule-classification obligations; bounded validity check of every rule and entry point on the corpus",
                text="The validity rollback of every scheduled pass, of _replace_nodes and of fix_import_spacing, the preservation of validity by fix/chain and the write guard of format_file are proved for all texts; rules that edit text directly and format_code as a whole have no final guard and are bounded (every rule, option sets, sub/subn, format_file on a temp tree over the corpus).",
                note="trusted: z3, pyvc executor (lenient mode), ast.parse as validity; direct-editing rules bounded only", ref="5/C03"),
    "C04": dict(level="other", technique="deductive contracts (pyvc): literal_value raises only ValueError + call-site guards, early returns of format_code, index-in-bounds obligations of the offset code, _loop_may_be_left, progress obligation of self-recursive rules; bounded totality runs of format_code on adversarial families",
                text="Exception containment of constant evaluation, bounds of every offset subscript, the early-return paths and the progress condition of the self-recursive rules are proved; totality of the whole formatter (no exception, bounded time) is a bounded run over adversarial constants, every statement kind at end-of-file, invalid and indented inputs and option sets.",
                note="trusted: z3, pyvc executor, assumed parser position contract; termination of self-recursive rules and interpreter limits outside the model", ref="5/C04"),
    "C05": dict(level="other", technique="deductive frame conditions decided by a flow-sensitive inter-procedural ownership typing over the real AST (no write through a cache-reachable reference, no identity comparison across caches); bounded history runs of every rule and format_code",
                text="Every write site of the package is proved to have a receiver created in the function (or passed in fresh by every caller), and identity-based tests never mix objects of different caches - for all inputs and histories; the meta-argument from these frame conditions to history independence is stated, and the end-to-end claim is bounded (double runs, cache eviction, fresh process, shuffled histories on the corpus).",
                note="trusted: the ownership rules (stated, not mechanised), footprint models of copy/ast helpers/containers; cached functions assumed pure except cwd / import tracing", ref="5/C05"),
    "C06": dict(level="other", technique="deductive contract (pyvc, sorted() model) that the final sort of _schedule_rewrites orders by the total content key, conflict-loop contract (sorted transaction order), table/dataflow/frame obligations on format_files and format_file from the real AST (z3); bounded fresh-process runs under several PYTHONHASHSEED values and format_files under worker counts x shuffled file lists",
                text="Application order of scheduled rewrites is proved to be a function of content only; dispatch, result pairing, per-file arguments and the worker's file footprint in format_files are proved order- and schedule-independent; that no rule's yield order leaks set-iteration order into the output is bounded (hash seeds x corpus and targeted inputs, every public rule; worker counts 1..16 x shuffles on generated trees).",
                note="trusted: z3, pyvc executor, Pool.starmap ordering (documented), tie meta-argument; set-iteration order inside rules bounded only", ref="5/C06"),
    "C07": dict(level="other", technique="deductive reaching-definition / table obligations on the safe-mode preserve set and its flow (real AST of format_code, _multi_run_fixes), guarded-effect obligations (pyvc, lenient) on the deleting and renaming rules, has_side_effect branches; bounded surface comparison of format_code(safe=True)",
                text="What the safe set contains, that it alone reaches every rule with a preserve argument, and that delete_unused_functions_and_classes / align_variable_names_with_convention delete or rename only unpreserved names are proved for all modules and preserve sets; the other deleting/renaming rules and the whole pipeline are bounded (surface of corpus and generated modules before/after).",
                note="trusted: z3, pyvc executor (lenient), AST extractors; names made of underscores exempt by the tool's convention; unguarded rules bounded only", ref="5/C07"),
    "C08": dict(level="other", technique="deductive guarded-effect obligations for all preserve sets and preserve-forwarding dataflow obligations; bounded library/client pairs through format_code(preserve=) and the command line",
                text="The name-level guards of the deleting and renaming rules and the unchanged flow of the preserve set to them are proved for every preserve set; the collection of names used by preserved files, the per-file preserve computation of format_files and the unguarded rules are bounded (generated clients run before and after formatting the library).",
                note="trusted: z3, pyvc executor (lenient); format_files' preserve computation and _used_names_in_file bounded only", ref="5/C08"),
    "C10": dict(level="other", technique="deductive contracts (pyvc: ast->VC, z3/cvc5) on Range.overlaps, the conflict step/loop/final sort of _schedule_rewrites, _apply_rewrites, fix, chain; bounded marker-token drive of the real fix/chain for the textual splice",
                text="Scheduler kernel proved for all rewrite lists of any length (all-or-nothing, never-overlap, dropped-only-if, precedence order, descending application order, valid-or-unchanged); the difflib-based splice and the end-to-end reading on output text are bounded (enumerated conflict configurations).",
                note="trusted: z3/cvc5, the pyvc executor's model of Python (DESIGN 1.2), sorted()/set-comprehension models, ast.parse as validity; _do_rewrite only bounded", ref="5/C10"),
    "C12": dict(level="other", technique="deductive contract (pyvc, loop invariants, float('inf') as extended integer) on the length pre-check of _match_list; table obligations on the count ranges of _iter_template_permutations and the dispatch of match_template (z3); slack lemma in Lean 4 + Mathlib (thorough tier); bounded regular-expression oracle over enumerated templates x lists, named-wildcard cases, corpus self-search",
                text="The pre-check of _match_list rejects only lists no count vector can fit, the per-element count ranges are the declarative ones with a cap that provably cuts no solution (Lean lemma), and the dispatch order / by-identity singletons are fixed - for all templates and lists; the element-wise recursion, wildcard unification and search completeness are bounded (all quantifier templates of length <= 4 x all lists of length <= 5 against re.fullmatch, named cases, corpus self-search).",
                note="trusted: z3, pyvc executor, Lean 4 kernel + Mathlib, CPython re as oracle of the bounded part; table obligations bind to exact expression text", ref="5/C12"),
    "C13": dict(level="other", technique="deductive contracts (pyvc) on _get_line_start_charnos, _get_charno, Match.*, _get_position, get_charnos, finditer/findall/search/match/fullmatch given a stated parser-position contract; bounded span oracle (ast.get_source_segment) for that assumption",
                text="Offsets, spans, line/column and API coherence are proved for all sources, nodes and match sequences, given the stated contract of CPython's node positions; that contract itself (byte columns, line separators) is confronted with the real parser only on the corpus and generated variants (bounded).",
                note="trusted: z3, pyvc executor, assumed contracts of io.StringIO.readlines/str.splitlines, re.findall for two literal patterns, utf-8 codec bounds; induction schema for the ls-monotone lemma", ref="5/C13"),
    "C14": dict(level="other", technique="deductive contracts (pyvc) on subn's count normalisation and rewrite generator (yield contracts), the range hull of find_replace, the string-continuation-line loop of _do_rewrite (dict store model), the no-rewrite identity chain fix.wrapper/_apply_rewrites/_substitute_original_strings, the ignore guards of _do_rewrite; bounded AST-level verifying oracle over generated substitutions",
                text="Count bound, prefix property of the applied items, the replaced range, the exemption of string content lines from re-indentation, byte-identity when nothing is yielded and the ignore guards are proved for all inputs; that the result tree is the source tree with the applied matches replaced (instantiation, parenthesisation, splice) is bounded (generated frames x expressions x replacements x counts, corpus self-substitution).",
                note="trusted: z3, pyvc executor; _substitute_original_fstrings identity assumed; textual splice bounded only", ref="5/C14"),
    "C20": dict(level="other", technique="deductive guard obligations (pyvc) on the skip_file return, has_ignore_comment, _do_rewrite (lenient, both target kinds), scheduler step, alter_code veto, remove_nodes filter; bounded line-annotation drive of format_code",
                text="Every text-editing path under contract is proved to consult the ignore detector before changing text, and the detector is proved equal to its line-scan spec; that no other path edits text is bounded (corpus lines annotated one at a time through the whole pipeline; skip_file through library, file and stdin entry points).",
                note="trusted: z3, pyvc executor; regexes uninterpreted; rules that splice text outside the contracted paths are bounded only", ref="5/C20"),
    "C15": dict(level="other", technique="deductive contracts (pyvc) on literal_value (raises only ValueError), the and/or/not/comparison-chain slices of _literal_value, operator/allow-list/call-site/compare-folding table obligations; bounded comparison with CPython eval and executed consumer programs",
                text="Exception containment, and/or/not/chain evaluation order and values, the operator table, the purity allow-list and the try/except enclosure of every call site are proved; agreement of values with CPython and the consumer rules are bounded (enumerated expressions, eval as oracle, before/after programs executed).",
                note="trusted: z3, pyvc executor; CPython eval is the oracle of the bounded part; methods of constant receivers assumed pure", ref="5/C15"),
    "C16": dict(level="other", technique="deductive per-branch induction obligations extracted from the real has_side_effect and is_blocking (z3), loop-invariant proof of _loop_may_be_left (pyvc); bounded execution of enumerated statement shapes under all valuations with a trace hook",
                text="Structural soundness of has_side_effect (every evaluated field inspected) and of every return path of is_blocking is proved by induction on the AST from stated control-flow axioms; local conditions, safe-callable inference and the deleting rules are bounded (shapes of nesting <= 2 executed).",
                note="trusted: z3, extractors, control-flow axioms and evaluated-fields table (spec); assumes context managers do not suppress exceptions (known finding F-16h), no python -O", ref="5/C16"),
    "C17": dict(level="other", technique="deductive table/case-analysis obligations extracted from the real AST (bound analysis, operator tables, _negate_condition induction, constrained-range fold step) discharged by z3; bounded truth tables for sympy-based rules",
                text="Every (guard, action) of the pairwise bound analysis, every negation-table entry, every path of _negate_condition and one fold step of simplify_constrained_range are proved for all thresholds/integers; sympy-based simplification and sum closed forms are only bounded (truth tables in a box).",
                note="trusted: z3, extractors, reals for numeric literals; sympy unverified (bounded only); composition argument of the bound analysis stated not mechanised", ref="5/C17"),
}
m = {
    "version": 1, "setup_cmd": "./setup.sh",
    "hooks": {"guard": "PYREFACT_VERIF", "enable": "none needed: contracts are sidecar files under /verif/contracts, VCs are generated from /repo's source text on every run, run-time wrappers are installed by the check process only",
              "baseline_off_cmd": "cd /repo && /venv/bin/python -m pytest -ra -q -p no:cacheprovider --timeout=900 --continue-on-collection-errors",
              "source_commits": [], "add_only": True},
    "engines": [
        {"name": "pyvc-smt", "path": "pyvc/", "serves_properties": sorted(CHECKS), "kind_free_text": "verification-condition generator over the real Python source (ast -> symbolic execution -> z3, cvc5 on unknown), sidecar contracts in contracts/"},
        {"name": "pyvc-frame", "path": "pyvc/frame.py", "serves_properties": ["C05"], "kind_free_text": "ownership / frame checker: abstract interpretation of every function of the package with fresh / shared / parameter provenance"},
        {"name": "standins", "path": "standins/", "serves_properties": sorted(CHECKS), "kind_free_text": "bounded run-time contract checks of the real functions over enumerated spaces (labelled bounded, never counted as proved)"},
    ],
    "checks": [], "not_applicable": [],
    "notes": "exit codes of ./check: 0 held / 1 violation (VIOLATION lines) / 2 undecided and no stand-in could decide / 3 checker error. known_findings.json lists genuine defects (open ones are printed as KNOWN-FINDING).",
}
for pid, c in sorted(CHECKS.items()):
    m["checks"].append({"property_id": pid, "quick_cmd": f"./check {pid} --tier quick", "thorough_cmd": f"./check {pid} --tier thorough",
                        "evidence_file": f"evidence/{pid}.json", "replay_cmd_template": f"./check {pid} --replay {{path}}", "engine": "pyvc-smt",
                        "level_claimed": {"category": c["level"], "text": c["text"], "design_ref": c["ref"]}, "level_note": c["note"], "technique": c["technique"]})
import re
props = [json.loads(l)["id"] for l in open(os.path.join(V, "properties.jsonl"))]
PENDING = "check under construction in this round: not claimed until it is green on the unchanged tree (see DESIGN.md section 4)"
for pid in props:
    if pid in CHECKS:
        continue
    m["not_applicable"].append({"property_id": pid, "reason": NA.get(pid, PENDING)})
json.dump(m, open(os.path.join(V, "MANIFEST.json"), "w"), indent=1)
print("checks:", sorted(CHECKS), "n/a:", [x["property_id"] for x in m["not_applicable"]])
