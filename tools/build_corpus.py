#!/usr/bin/env python3
"""Vendors the input corpus once: the *before* strings of every (before, after) pair in /repo/tests/unit/*.py and
tests/integration/*.py (deduplicated, valid Python only), plus the tracing test files.  Output: corpus/snippets.json"""
import ast, json, pathlib, textwrap
out = []
files = sorted(pathlib.Path('/repo/tests/unit').glob('test_*.py')) + sorted(pathlib.Path('/repo/tests/integration').glob('*.py'))
for f in files:
    try:
        mod = ast.parse(f.read_text())
    except SyntaxError:
        continue
    for n in ast.walk(mod):
        if isinstance(n, ast.Tuple) and len(n.elts) == 2 and all(isinstance(e, ast.Constant) and isinstance(e.value, str) for e in n.elts):
            src = textwrap.dedent(n.elts[0].value)
            if src.strip():
                out.append({'file': f.name, 'line': n.lineno, 'src': src})
for f in sorted(pathlib.Path('/repo/tests/integration/tracing_test_files').glob('*.py')):
    out.append({'file': 'tracing_test_files/' + f.name, 'line': 1, 'src': f.read_text()})
seen, valid = set(), []
for o in out:
    if o['src'] in seen:
        continue
    seen.add(o['src'])
    try:
        ast.parse(o['src'])
    except SyntaxError:
        continue
    valid.append(o)
json.dump(valid, open('/verif/corpus/snippets.json', 'w'), indent=0)
print(len(out), 'pairs;', len(valid), 'distinct valid snippets')
