#!/bin/sh
# Builds the overlay interpreter /verif/.venv offline: python 3.12 + z3-solver + cvc5 + jsonschema from the
# wheelhouse, plus a .pth that adds /venv's site-packages (pyrefact editable -> /repo, sympy, black, rmspace).
set -e
cd "$(dirname "$0")"
PY=/root/.pyenv/versions/3.12.1/bin/python3
[ -x "$PY" ] || PY=/venv/bin/python
if [ ! -x .venv/bin/python ] || ! .venv/bin/python -c "import z3, cvc5, jsonschema, pyrefact" 2>/dev/null; then
  rm -rf .venv
  "$PY" -m venv .venv
  PIP_NO_INDEX=1 .venv/bin/pip install -q --no-index --find-links /opt/veriftools/wheels z3-solver cvc5 jsonschema
  SP=$(.venv/bin/python -c "import sysconfig; print(sysconfig.get_paths()['purelib'])")
  echo "import site; site.addsitedir('/venv/lib/python3.12/site-packages')" > "$SP/zz_repo_overlay.pth"
fi
.venv/bin/python -c "import z3, cvc5, jsonschema, pyrefact, sympy, black; print('overlay ok', z3.get_version_string())"
