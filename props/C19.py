"""C19 Renaming is consistent and capture-free."""
from pyvc.tables import run_gen
from contracts import c_rename, c_preserve_guards


def units():
    return [u for u in c_preserve_guards.UNITS if "C19" in u.props]


def extra(tier, seed):
    return [run_gen("fixes.align_variable_names_with_convention/rename-guards", ("C19",), c_rename.gen_blacklist, tier == "thorough"),
            run_gen("renaming-rules/refusals", ("C19",), c_rename.gen_refusals, tier == "thorough")]


def standins(tier, seed):
    from standins import c19_rename
    return c19_rename.run(tier, seed)


META = {
    "level": "exploration",
    "explanation": "Mostly BOUNDED. Deductive part (small): the set of names a substitute may never take contains the builtins, the "
                   "keywords, the imported and the defined names and the filter that applies it is present; the all-or-nothing / "
                   "free-name guard of align_variable_names_with_convention is a disjunction containing each of the eight refusal "
                   "conditions (structure obligations on the real AST); renamed names are never in the preserve set (guard unit shared "
                   "with C07/C08); each of the four renaming rules (the real function) leaves the binding alone on 25 representative modules, one per reason a "
                   "name or its new name can mean something else (parameter, local, exception name, import, global declaration, second definition, builtin, "
                   "class-body reference, match-class keyword, different outer names in 'duplicate' bodies), with a control per rule showing that it does act. "
                   "Use-site discovery and Python's scoping are beyond the contracts here. "
                   "Bounded part: name construction exhaustively for all identifiers of length <= 5 over a 4-letter alphabet "
                   "(result is an identifier); programs built from 28 binding-form frames x adversarial identifier triples executed "
                   "before and after every renaming rule and format_code (same output, same exception, compiles, no new builtin binding); "
                   "format_code failures that persist with the renaming rules switched off are attributed to other rules and not counted.",
    "trusted_base": ["z3 5.1 (table obligations)", "CPython compile / exec as the oracle of the bounded part"],
    "assumptions": ["the structure obligations bind to the identifier names used in the guard (a harmless rewrite -> undecided/refuted text check: see DESIGN 6)",
                    "programs whose behaviour changes with the renaming rules disabled are excluded (C01/C02 territory, not applicable)"],
}
