"""C06 Results are deterministic across processes, hash seeds and worker schedules."""
from pyvc.tables import run_gen
from contracts import c_determinism, c_processing_scheduler, c_fill_transaction, x_set_order


def units():
    sched = c_processing_scheduler
    return c_determinism.UNITS + [sched.step, sched.loop, sched.final_sort] + c_fill_transaction.UNITS       # the loop is proved against the step's contract


def extra(tier, seed):
    return [run_gen("main.format_files/dispatch", ("C06",), c_determinism.gen_format_files, tier == "thorough"),
            run_gen("main.format_file/frame", ("C06",), c_determinism.gen_format_file_frame, tier == "thorough"),
            run_gen("set-order", ("C06",), x_set_order.generate, tier == "thorough")]


def standins(tier, seed):
    from standins import c06_determinism
    return c06_determinism.run(tier, seed)


META = {
    "level": "other",
    "explanation": "Deductive part (unbounded): the final sort of _schedule_rewrites orders the schedule by the total content key "
                   "(range, new text, transaction), so the hash-dependent order of the per-transaction set is forgotten (ties have "
                   "identical effect: stated meta-argument); transactions are processed in sorted order (conflict-loop contract of C10); "
                   "format_files dispatches one sorted list through an order-preserving pool method, pairs results through the same "
                   "list, gives each worker arguments that depend on its file only, and a worker opens only its own file; per-file "
                   "preserve sets and the change report are order-free folds. "
                   "Bounded part (NOT proof): that no rule's output depends on set-iteration order (transaction numbers follow yield "
                   "order) is only sampled: format_code and every public rule in fresh processes under several PYTHONHASHSEED values; "
                   "format_files with n_cores 1..16 and shuffled file lists on generated trees.",
    "trusted_base": ["z3 5.1", "pyvc executor (sorted() model)", "multiprocessing.Pool.starmap returns results in input order (documented)"],
    "assumptions": ["ties on the whole content key have identical effect on the text (meta-argument)",
                    "format_code has no file-system effect besides reading configuration / traced imports",
                    "OS scheduling of pool workers is not controlled by the bounded runs; the frame obligations are what rules interleavings out"],
}
