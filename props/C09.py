"""C09 Repeated formatting converges and never oscillates."""
from pyvc.tables import run_gen
from contracts import c_converge, c_processing_scheduler, c_sub


def units():
    return c_converge.UNITS + [c_processing_scheduler.fix_wrapper, c_processing_scheduler.chain_func, c_sub.fix_no_items, c_sub.apply_empty]


def extra(tier, seed):
    return [run_gen("main/pass-budget", ("C09",), c_converge.gen_budget, tier == "thorough")]


def standins(tier, seed):
    from standins import c09_converge
    return c09_converge.run(tier, seed)


META = {
    "level": "other",
    "explanation": "Deductive part (unbounded in the texts; the rule pipeline is an uninterpreted function M): the first pass loop of "
                   "format_code remembers its input, leaves with a recorded text, returns a fixed point of M unchanged and returns the "
                   "starting text of a 2-cycle of M (it stops AT the repeated text); after a revisit, when the two abstraction steps "
                   "change nothing, no further pass is run; a pass that yields no rewrite is the identity (fix.wrapper / "
                   "_apply_rewrites); fix and chain keep validity; the command line's module budget is the constant 5. "
                   "Bounded part (NOT proof): that M's iteration reaches a fixed point at all, and that the closing stages are "
                   "idempotent on it, is a property of ~85 rules composed; checked by iterating format_code 6 times on the corpus and on "
                   "generated orientation-heuristic families, every option combination.",
    "trusted_base": ["z3 5.1", "pyvc executor", "M (= _multi_run_fixes) and the abstraction steps are deterministic functions of their arguments (C05/C06)"],
    "assumptions": ["cycles of M longer than 2 are handled by the same history test (proved only for periods 1 and 2)",
                    "convergence of the composed rules is bounded only"],
}
