"""C04 The formatter is total: it never raises and always terminates."""
from pyvc.tables import run_gen
from contracts import c_total, c_literal_value, c_core_geometry, c_blocking
from standins import c04_total, c03_valid


def units():
    geo = [u for u in c_core_geometry.UNITS if "C04" in u.props]
    return c_total.UNITS + [c_literal_value.literal_value] + geo + c_blocking.UNITS


def extra(tier, seed):
    both = tier == "thorough"
    return [run_gen("core.literal_value/call-sites", ("C04",), c_literal_value.gen_call_sites, both),
            run_gen("rules/progress", ("C04",), c_total.gen_progress, both),
            run_gen("core.lemma", ("C04",), c_core_geometry.gen_monotone_lemma, both)]


def standins(tier, seed):
    out = c04_total.run(tier, seed)
    for r in out:
        if r["name"] == "c04-style-total":      # identifier validity is C19's contract; totality is C04's
            r["failures"] = [f for f in r["failures"] if ":raises:" in f["cls"]]
    out += [r for r in c03_valid.run(tier, seed, kinds=("raises",), name_prefix="c04") if r["name"] in ("c04-rules", "c04-sub", "c04-format-file")]
    return out


META = {
    "level": "other",
    "explanation": "Deductive part: literal_value lets only ValueError escape and every call site is inside a try covering ValueError; skip_file / blank / invalid "
                   "inputs return before any rule runs and only valid Python reaches the rules; every subscript in _get_line_start_charnos, _get_charno, "
                   "get_charnos and _lineno_col_offset is in bounds and no computed index is negative, given the stated position contract (which now covers the "
                   "line after the last line); _loop_may_be_left's worklist is correct; every self-recursive rule recurses only on a changed text (necessary "
                   "for termination). Bounded part (NOT proof): termination and exception-freedom of format_code as a whole - adversarial constant "
                   "expressions in every evaluated position, every statement kind as last statement (with/without trailing newline), invalid and indented "
                   "inputs, option sets; every rule on the corpus; naming helpers on all short identifiers.",
    "trusted_base": ["z3 5.1", "pyvc executor", "parser position contract (assumed)"],
    "assumptions": ["termination of the self-recursive rules has no variant (bounded only)", "interpreter recursion depth and memory limits are outside the model",
                    "loops bounded by for-range are terminating by construction; while loops over worklists terminate because the AST is finite (not proved)"],
}
