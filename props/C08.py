"""C08 Preserved names survive, within a file and across files."""
from pyvc.tables import run_gen
from contracts import x_safe_preserve, c_preserve_guards, c_rename, x_preserve_files
from standins import c07_surface


def units():
    return c_preserve_guards.UNITS


def extra(tier, seed):
    return [run_gen("main.format_code/safe", ("C07", "C08"), x_safe_preserve.generate, tier == "thorough"),
            run_gen("preserving-rules/refusals", ("C07", "C08"), c_rename.gen_preserve_refusals, tier == "thorough"),
            run_gen("main._used_names_in_file/access-forms", ("C08",), x_preserve_files.gen_used_names, tier == "thorough"),
            run_gen("main.format_files/per-file-preserve", ("C08",), x_preserve_files.gen_file_preserve, tier == "thorough")]


def standins(tier, seed):
    return c07_surface.run_c08(tier, seed)


META = {
    "level": "other",
    "explanation": "Deductive part: the guarded-effect obligations of delete_unused_functions_and_classes and align_variable_names_with_convention are proved for "
                   "ALL preserve sets, and the preserve argument flows unchanged from format_code through _multi_run_fixes to every rule that takes one. Bounded "
                   "part (NOT proof): which names a preserved file uses (_used_names_in_file), the per-file preserve set of format_files (union over the other "
                   "preserved files) and the remaining rules are checked by formatting a library with generated clients preserved - through the library API and "
                   "the command line (client only, folder, both files) - and running the client before and after.",
    "trusted_base": ["z3 5.1", "pyvc executor (lenient units)"],
    "assumptions": ["attribute-name over-approximation of _used_names_in_file is by design", "format_files' preserve computation and _used_names_in_file are evaluated on representatives (table obligations), not proved for all files"],
}
