"""C07 Safe mode never removes or renames a module's public surface."""
from pyvc.tables import run_gen
from contracts import x_safe_preserve, c_preserve_guards, c_rename, x_has_side_effect
from standins import c07_surface


def units():
    return c_preserve_guards.UNITS


def extra(tier, seed):
    both = tier == "thorough"
    return [run_gen("main.format_code/safe", ("C07", "C08"), x_safe_preserve.generate, both),
            run_gen("core.has_side_effect", ("C07", "C16"), x_has_side_effect.generate, both),
            run_gen("preserving-rules/refusals", ("C07", "C08"), c_rename.gen_preserve_refusals, tier == "thorough")]


def standins(tier, seed):
    return c07_surface.run_c07(tier, seed)


META = {
    "level": "other",
    "explanation": "Deductive part: in safe mode the set assigned in format_code contains the caller's set, the names of all top-level functions and classes, "
                   "'Class.method' and the plain member names, and all top-level assigned names (each component is the comprehension the spec describes); that set - "
                   "and no other - reaches every call with a preserve argument, and _multi_run_fixes forwards it unchanged to every rule that takes one "
                   "(reaching-definitions obligations on the real AST); delete_unused_functions_and_classes yields a definition for deletion, and "
                   "align_variable_names_with_convention a rename, only when the name is not in preserve (guarded-effect obligations, all preserve sets); "
                   "definitions and name bindings always count as side effects for the rules that delete without consulting preserve (has_side_effect branches). "
                   "Bounded part (NOT proof): the remaining deleting / renaming rules and the pipeline as a whole: surface(input) within surface(output) on "
                   "corpus and generated modules.",
    "trusted_base": ["z3 5.1", "pyvc executor (lenient units)", "AST extractors"],
    "assumptions": ["names consisting of underscores only are exempt by the tool's documented convention (has_side_effect treats `_` as meaningless)",
                    "rules not under a guard contract (undefine_unused_variables, remove_duplicate_functions, move_staticmethod_static_scope) are bounded only"],
}
