"""C17 Boolean, comparison and range rewrites are logically equivalent."""
from pyvc.tables import run_gen
from contracts import x_c17_bounds, x_tables, c_symbolic_range, x_sum_closed_form
from standins import c17_truth


def units():
    return c_symbolic_range.UNITS


def extra(tier, seed):
    both = tier == "thorough"
    return [
        run_gen("symbolic_math.simplify_boolean_expressions/bounds", ("C17",), x_c17_bounds.generate, both),
        run_gen("constants.REVERSE_OPERATOR_MAPPING", ("C17",), x_tables.gen_reverse, both),
        run_gen("fixes._negate_condition", ("C17",), x_tables.gen_negate, both),
        run_gen("symbolic_math.simplify_constrained_range/templates", ("C17",), c_symbolic_range.gen_template_meaning, both),
        run_gen("symbolic_math._sum_range/closed-form", ("C17",), x_sum_closed_form.gen_sum_range, both),
    ]


def standins(tier, seed):
    return c17_truth.run(tier, seed)


META = {
    "level": "other",
    "explanation": "Deductive part (all thresholds, all x, unbounded): each of the ~80 (guard, action) pairs of the pairwise bound analysis in "
                   "simplify_boolean_expressions (extracted mechanically from the real AST) implies the implication/contradiction/tautology that "
                   "justifies its action over the reals; every REVERSE_OPERATOR_MAPPING entry is the negation of its key; _negate_condition "
                   "returns a condition with the negated truth value on each of its five paths (induction on the AST); one folding step of "
                   "simplify_constrained_range keeps exactly the same integers in the range (real loop body, symbolic execution), and its five "
                   "templates denote the relations their names say. "
                   "Bounded part (NOT proof): the sympy-based rules (simplify_boolean_expressions_symmath, sum closed forms), the tail of "
                   "simplify_constrained_range that emits the new range call, remove_redundant_boolop_values and replace_negated_numeric_comparison "
                   "are checked by truth tables over the enumerated formulas/valuations in coverage.bounded.",
    "trusted_base": ["z3 5.1 / cvc5 1.0.3", "pyvc executor and table extractors", "Python comparison semantics on numbers = real arithmetic (no NaN)"],
    "assumptions": ["sympy is an unverified dependency (bounded check only)", "numeric literals are reals: floats without NaN/inf",
                    "composition of local justifications in the bound analysis (rank argument) is stated in DESIGN.md, not mechanised"],
}
