"""C14 Pattern substitution rewrites exactly the matches and nothing else."""
from pyvc.tables import run_gen
from contracts import c_sub, c_ignore, c_core_geometry


def units():
    return list(c_sub.UNITS) + [c_ignore.do_rewrite_range, c_ignore.do_rewrite_node, c_core_geometry.has_ignore_comment]


def extra(tier, seed):
    return [run_gen("processing.find_replace/match-ranges", ("C14",), c_sub.gen_match_ranges, tier == "thorough"),
            run_gen("processing._is_atom/kinds", ("C14",), c_sub.gen_is_atom, tier == "thorough"),
            run_gen("processing._do_rewrite/splice", ("C14", "C10"), c_sub.gen_splice, tier == "thorough")]


def standins(tier, seed):
    from standins import c14_sub
    return c14_sub.run(tier, seed)


META = {
    "level": "other",
    "explanation": "Deductive part (unbounded): subn normalises count (<= 0 means unlimited) and its rewrite generator yields a prefix of "
                   "find_replace's items, at most count, withholding nothing below the bound; the replaced range is the hull of the "
                   "matched nodes' ranges; the splice never re-indents the content lines of a triple-quoted literal (exactly the indices "
                   "lineno .. end_lineno-1); a pass with no rewrites returns the source byte-for-byte (fix.wrapper <- _apply_rewrites <- "
                   "_substitute_original_strings, the f-string variant ASSUMED); _do_rewrite never edits a range with an ignore comment. "
                   "Bounded part (NOT proof): that the result tree is the source tree with the applied matches replaced by the "
                   "instantiated replacement, untouched lines, self-substitution and corpus identity are checked by an AST-level verifying "
                   "oracle over generated (pattern, replacement, source, count) tuples.",
    "trusted_base": ["z3 5.1", "pyvc executor", "CPython ast / tokenize as the oracle of the bounded part"],
    "assumptions": ["_substitute_original_fstrings(s, s) == s is assumed (bounded runs only)",
                    "_schedule_rewrites schedules only rewrites the rule yielded (C10 step contract)",
                    "the textual splice (_do_rewrite beyond the contracted loops, minimize_whitespace_line_differences) is bounded only"],
}
