"""C16 Code is treated as unreachable or pointless only when it really is."""
from pyvc.tables import run_gen
from contracts import x_has_side_effect, x_is_blocking, c_blocking, c_safe_callables, c_dead_code
from standins import c16_exec


def units():
    return c_blocking.UNITS + c_safe_callables.UNITS + c_dead_code.UNITS


def extra(tier, seed):
    both = tier == "thorough"
    return [run_gen("core.has_side_effect", ("C16", "C07"), x_has_side_effect.generate, both),
            run_gen("core.is_blocking", ("C16",), x_is_blocking.generate, both),
            run_gen("parsing.safe_callable_names/guards", ("C16",), c_safe_callables.gen_guards, both)]


def standins(tier, seed):
    return c16_exec.run(tier, seed)


META = {
    "level": "other",
    "explanation": "Deductive part (induction on the AST, all nodes): for every node type T handled by has_side_effect and every field of T that is evaluated "
                   "when the node executes (ASDL of the running ast module minus justified exemptions), `not has_side_effect(n)` implies that no child in that "
                   "field has a side effect; control-flow statements and imports always have one; unknown node types default to True. For is_blocking: each "
                   "return path (leaf table, If with unknown / constant test, While, For, With, default) implies that the statement cannot complete normally, "
                   "from control-flow axioms taken from the language reference; _loop_may_be_left (worklist) equals the recursive definition of 'a "
                   "break/continue of this very loop occurs in the body' (loop invariant, partial correctness). parsing.safe_callable_names: the loop that "
                   "collects the statements deciding whether a call is pointless inspects every statement up to and including the first blocking one, "
                   "a plain return excepted (loop invariant over the real slice, is_blocking uninterpreted), and the real function refuses each kind "
                   "of ambiguous definition (17 representative modules, evaluated). Consumers: _iter_unreachable_nodes yields only statements that follow a blocking one (loop invariant), "
                   "delete_pointless_statements yields a statement only if has_side_effect (with this module's safe-callable set) is false, and every "
                   "deletion of delete_unreachable_code is justified by is_blocking or by a constant test with the other branch non-empty (yield "
                   "obligations, analyses uninterpreted). The emptiness test of is_blocking's For branch is the real "
                   "expression evaluated on 27 kinds of iterable. Bounded part (NOT proof): the local "
                   "conditions (binding, call whitelist), safe-callable inference (536 callee programs) and the consumer rules are checked by executing enumerated statement shapes "
                   "under all valuations with a trace hook.",
    "trusted_base": ["z3 5.1", "pyvc executor and branch extractors", "control-flow axioms in contracts/x_is_blocking.py (spec)", "evaluated-fields table in contracts/x_has_side_effect.py (spec)"],
    "assumptions": ["context managers do not suppress exceptions (the obligation without this assumption is refuted: known finding F-16h)", "no python -O (asserts run)",
                    "termination of _loop_may_be_left (finite AST) not proved", "literal_value is correct (C15)"],
}
