"""C15 Compile-time constant evaluation agrees with Python."""
from pyvc.tables import run_gen
from contracts import c_literal_value, x_tables
from standins import c15_eval


def units():
    return c_literal_value.UNITS


def extra(tier, seed):
    both = tier == "thorough"
    return [run_gen("constants.COMPARISON_OPERATORS", ("C15",), x_tables.gen_comparison_operators, both),
            run_gen("core._literal_value/allow-list", ("C15",), c_literal_value.gen_allow_list, both),
            run_gen("core.literal_value/call-sites", ("C15", "C04"), c_literal_value.gen_call_sites, both),
            run_gen("symbolic_math.simplify_boolean_expressions/compare-folding", ("C15",), x_tables.gen_compare_folding, both)]


def standins(tier, seed):
    return c15_eval.run(tier, seed)


META = {
    "level": "other",
    "explanation": "Deductive part (all operand lists of any length): only ValueError escapes literal_value whatever the evaluator raises; `and`/`or` return the "
                   "first falsy/truthy operand value else the last, `not` negates, a comparison chain is the conjunction of adjacent comparisons with "
                   "Python's operand alignment; every COMPARISON_OPERATORS entry is the operator-module function CPython documents for its AST class; the "
                   "builtins the evaluator may call are inside the spec's allow-list of pure deterministic terminating functions; all call sites are inside a "
                   "try covering ValueError. Bounded part (NOT proof): agreement of the computed values with CPython (eval is the oracle) over the enumerated "
                   "expression space, and the consumers (dead-branch removal, unreachable code, redundant operands, comparison folding, whole pipeline) by "
                   "executing before/after programs.",
    "trusted_base": ["z3 5.1", "pyvc executor", "CPython eval as the oracle of the bounded part"],
    "assumptions": ["methods of constant receivers (str/bytes/int methods) are pure", "recursive calls of literal_value satisfy the same contract (induction on the AST)"],
}
