"""C03 Valid Python in, valid Python out; never write a broken file."""
from pyvc.tables import run_gen
from contracts import c_validity, c_processing_scheduler, c_layout
from standins import c03_valid


def units():
    sched = [u for u in c_processing_scheduler.UNITS if "C03" in u.props]
    return c_validity.UNITS + sched + c_layout.UNITS


def extra(tier, seed):
    return [run_gen("C03-structure", ("C03",), c_validity.gen_structure, tier == "thorough"),
            run_gen("validity-typing", ("C03",), c_validity.gen_validity_typing, tier == "thorough")]


def standins(tier, seed):
    return c03_valid.run(tier, seed, kinds=("invalid",), name_prefix="c03")


META = {
    "level": "other",
    "explanation": "Deductive part (valid = core.is_valid_python, uninterpreted; all texts and schedules): _apply_rewrites, _replace_nodes and fix_import_spacing return "
                   "their input or a text that passed the validity check; fix(...) and chain(...) map valid to valid using only the contract of _apply_rewrites; "
                   "format_file writes only a changed text and only if it is valid or the original was already invalid, and reports no change for an unchanged "
                   "text; subn's rule runs through processing.fix; every rule format_code calls is either scheduled (@processing.fix) or in the explicit list of "
                   "direct-editing rules; validity typing: each of ~120 text-to-text functions returns, on every return path, its text parameter or the result of a guarded "
                   "primitive / of another function with that property (13 functions build text themselves and are listed as assumptions). Bounded part (NOT proof): the direct-editing rules, the layout stages and format_code itself have no final validity "
                   "guard - they are checked by running every rule / option set / sub / format_file over the corpus.",
    "trusted_base": ["z3 5.1", "pyvc executor (lenient units: data abstracted, control flow exact)", "ast.parse as the definition of validity"],
    "assumptions": ["direct-editing rules (alter_code, remove_nodes, _insert_nodes users) are bounded only", "open()/write modelled as ghost events"],
}
