"""C20 Opt-out comments are honoured."""
from contracts import c_ignore, c_core_geometry, c_core_range, c_processing_scheduler
from standins import c20_ignore


def units():
    sched = [u for u in c_processing_scheduler.UNITS if getattr(u, "key_suffix", None) == "step"]
    return c_ignore.UNITS + [c_core_geometry.has_ignore_comment] + c_core_range.UNITS + sched


def extra(tier, seed):
    from pyvc.tables import run_gen
    return [run_gen("processing.direct-edits/ignored-lines", ("C20",), c_ignore.gen_direct_edit_representatives, tier == "thorough")]


def standins(tier, seed):
    return c20_ignore.run(tier, seed)


META = {
    "level": "other",
    "explanation": "Deductive part (all texts / ranges / rewrites, unbounded): the skip_file test is the first statement of format_code and returns "
                   "its argument unmodified; has_ignore_comment is true exactly when some line overlapping the range is marked (line offsets are the "
                   "prefix sums); on every path of _do_rewrite (both target kinds) that returns a text different from its input the ignore check on "
                   "the edited range has failed (lenient unit: string manipulation abstracted, control flow exact); the scheduler step never "
                   "schedules a transaction touching an ignored line; alter_code vetoes the whole change when a removed/replaced node is on an "
                   "ignored line; remove_nodes filters such nodes before its removal loop. "
                   "Bounded part (NOT proof): that no other path edits text (rules that build text themselves, layout stages) is checked by "
                   "annotating corpus lines and running the whole pipeline, plus skip_file through the three entry points.",
    "trusted_base": ["z3 5.1", "pyvc executor (lenient mode over-approximates data, keeps control flow)", "the two regexes are uninterpreted predicates"],
    "assumptions": ["rules outside the scheduler / alter_code / remove_nodes / _do_rewrite that splice text themselves are covered by the bounded stand-in only"],
}
