"""C11 Layout stages never change program structure or string contents (exploration: bounded run-time contracts; tiny deductive part)."""
from pyvc.tables import run_gen
from contracts import c_sub, c_layout, c_validity


def units():
    return [c_sub.string_lines, c_validity.fix_import_spacing] + c_layout.UNITS


def extra(tier, seed):
    return [run_gen("main.format_code/layout-guards", ("C11",), c_layout.gen_layout_guards, tier == "thorough")]


def standins(tier, seed):
    from standins import c11_layout
    return c11_layout.run(tier, seed)


META = {
    "level": "exploration",
    "explanation": "Mostly BOUNDED. The layout stages are regular-expression / third-party text transforms (str.expandtabs, rmspace, re.sub, black): "
                   "whether they stay out of literals depends on where every quote of the text is, which no solver here decides. "
                   "Deductive part (small): processing.keep_syntax_tree returns its first argument unless the second has the same tree "
                   "(contract on the real function, equivalence as an uninterpreted predicate), the splice loop of _do_rewrite exempts "
                   "exactly the content lines of a triple-quoted literal from re-indentation and exactly the lines ending inside it from "
                   "trailing-whitespace removal, and format_code / fix_too_many_blank_lines / fix_line_lengths / fix_import_spacing route every whole-text "
                   "layout transform through that guard (dataflow obligations on the real AST). "
                   "Bounded part: run-time contract tree(stage(s)) == tree(s) for each stage and for the layout sequence, over generated "
                   "modules with literals of 5 prefixes x 20 contents (tabs, blank-line runs, trailing blanks, long lines) x single / "
                   "triple quoting x 10 frames, the corpus, and format_code as a whole (no literal reappears with only its whitespace changed).",
    "trusted_base": ["z3 5.1, pyvc executor (small part)", "CPython ast as the oracle of the bounded part"],
    "assumptions": ["_sources_equivalent (ast.unparse equality) is the tool's notion of 'same tree'; docstring whitespace is excepted as the property says",
                    "tab-indented lines that carry an ignore comment cannot keep their tab when the rest of the block is expanded (stated limitation)"],
}
