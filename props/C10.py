"""C10 Rewrites are scheduled transactionally and never overlap."""
from contracts import c_core_range, c_processing_scheduler, c_fill_transaction
from standins import c10_sched


def units():
    return c_core_range.UNITS + c_processing_scheduler.UNITS + c_fill_transaction.UNITS


def standins(tier, seed):
    return [c10_sched.run(tier, seed)]


META = {
    "level": "other",
    "explanation": "Deductive part (proved for all inputs, unbounded): Range.overlaps/__and__ equal the interval-intersection spec; "
                   "the conflict step of _schedule_rewrites (real text, slice located structurally) is all-or-nothing, appends only when no "
                   "rewrite of the transaction touches an ignored line / overlaps another of the same transaction / overlaps the schedule "
                   "(both directions), keeps the schedule pairwise non-overlapping and free of ignored lines; the conflict loop visits "
                   "transactions in strictly increasing (group, number) order so whatever is scheduled has precedence over whatever is still "
                   "pending; _apply_rewrites returns the input unchanged or a text that is_valid_python accepts. "
                   "Bounded part (NOT proof): the textual splice _do_rewrite (difflib) and the end-to-end reading of the property on the "
                   "output text are checked by the marker-token drive over the enumerated configurations listed in coverage.bounded.",
    "trusted_base": ["z3 5.1 / cvc5 1.0.3", "pyvc executor (ast -> VC) and its model of Python semantics (DESIGN.md 1.2)",
                     "sorted()/set-comprehension permutation models", "ast.parse as the definition of valid Python"],
    "assumptions": ["_Rewrite.__hash__/__eq__ treat AST operands by identity; ranges and strings by value",
                    "core.has_ignore_comment is an uninterpreted predicate here; its own contract is C20's",
                    "machine arithmetic: Python ints are mathematical integers (exact)"],
}
