"""C05 Formatting is a pure function of its input (history independence)."""
from pyvc.tables import run_gen
from contracts import x_frame
from standins import c05_history


def extra(tier, seed):
    r = run_gen("frame", ("C05",), x_frame.generate, False)
    for o in r["obligations"]:
        o["backend"] = "frame"
    return [r]


def standins(tier, seed):
    return c05_history.run(tier, seed)


META = {
    "level": "other",
    "explanation": "Deductive part (frame conditions, all inputs and histories): every write site of the package (attribute / item store and delete, augmented "
                   "assignment, mutating method call, ast.fix_missing_locations / increment_lineno / copy_location, NodeTransformer.visit, setattr) has a "
                   "receiver that the flow-sensitive, inter-procedural ownership typing classifies as created in that function (fresh spine / deep copy), or the "
                   "write goes through a parameter and every call site passes a fresh object; and no identity-based comparison or membership test mixes objects "
                   "from different caches. Decision procedure: ownership typing, not SMT. Bounded part (NOT proof): f(x) equal after the histories [x], "
                   "[y, x], eviction of the 100-entry parse cache, a fresh process and a shuffled double pass, for every rule and format_code on the corpus; "
                   "parse-cache entries re-checked against fresh parses.",
    "trusted_base": ["the ownership rules of pyvc/frame.py (stated, not mechanised)", "models of copy / ast helper / container-method footprints"],
    "assumptions": ["cached functions pure except pyproject/cwd and import tracing (file system fixed during a run)", "C-level mutation inside third-party libraries not modelled"],
}
