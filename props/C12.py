"""C12 Wildcard and quantifier templates match exactly what their declarative reading says."""
import os

from pyvc.tables import run_gen, lean_lemma
from contracts import c_match

HERE = os.path.dirname(os.path.dirname(os.path.abspath(__file__)))


def units():
    return list(c_match.UNITS)


def extra(tier, seed):
    out = [run_gen("core._iter_template_permutations/count-ranges", ("C12",), c_match.gen_permutations, tier == "thorough"),
           run_gen("core._iter_template_permutations/enumeration", ("C12",), c_match.gen_enumeration, tier == "thorough"),
           run_gen("core.match_template/dispatch", ("C12",), c_match.gen_dispatch, tier == "thorough")]
    if tier == "thorough":
        out.append(lean_lemma("lemmas/Slack.lean", ("C12",), os.path.join(HERE, "lemmas", "Slack.lean"), "slack_bound"))
    return out


def standins(tier, seed):
    from standins import c12_match
    return c12_match.run(tier, seed)


META = {
    "level": "other",
    "explanation": "Deductive part (unbounded): (a) the length pre-check of _match_list rejects a list only when no admissible count "
                   "vector exists - loop invariant min == len(template) - #optional(prefix), max is inf exactly when a * or + was seen "
                   "(float('inf') modelled as an extended integer); (b) the count ranges of _iter_template_permutations are the "
                   "declarative ranges (plain 1..1, ? 0..1, * 0.., + 1..) and the cap min+slack neither cuts a solution (slack lemma, "
                   "Lean 4 + Mathlib, checked in the thorough tier) nor is replaced by something smaller; (c) match_template's dispatch "
                   "order and its by-identity treatment of True / False / None. Bounded part (NOT proof): the element-wise recursion, "
                   "named-wildcard unification and search completeness are compared with a regular-expression reading over all "
                   "templates of length <= 4 x all lists of length <= 5, hand-written named-wildcard cases, and corpus self-search.",
    "trusted_base": ["z3 5.1", "pyvc executor", "Lean 4.33 + Mathlib (slack lemma)", "CPython re (stand-in oracle)"],
    "assumptions": ["itertools.product / range / sum have their documented meaning",
                    "the table obligations bind to the source by exact expression text of the (min, max) pairs: a harmless rewrite of those lines is reported as undecided (not-generated), never as a violation",
                    "correspondence between the Lean statement and the table obligations is by hand"],
}
