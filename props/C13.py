"""C13 Match objects and the re-like API are geometrically coherent."""
from pyvc.tables import run_gen
from contracts import c_core_geometry, c_pattern_api, c_core_range


def units():
    return [u for u in c_core_geometry.UNITS if "C13" in u.props] + c_pattern_api.UNITS


def extra(tier, seed):
    return [run_gen("core.lemma", ("C13",), c_core_geometry.gen_monotone_lemma, tier == "thorough"),
            run_gen("core._get_line_start_charnos/against-the-parser", ("C13",), c_core_geometry.gen_line_table, tier == "thorough")]


def standins(tier, seed):
    from standins import c13_geometry
    return c13_geometry.run(tier, seed)


META = {
    "level": "other",
    "explanation": "Deductive part (all sources / nodes / match sequences, unbounded), GIVEN the stated parser-position contract: "
                   "_get_line_start_charnos returns the prefix sums of the line lengths; Match.string is the source slice of the span; "
                   "Match._lineno_col_offset returns the line containing the span start and the column relative to that line start; "
                   "_get_position defaults; get_charnos picks the earliest decorator, computes offsets inside the source (no IndexError, "
                   "no negative wrap-around index), trims exactly the leading/trailing spaces and the '@'; finditer/findall/search/match/"
                   "fullmatch are coherent with the find_replace sequence (first qualifying match, None exactly when there is none). "
                   "Bounded part (NOT proof): that CPython's lineno/col_offset satisfy that contract on real text - they do not for "
                   "non-ASCII prefixes (UTF-8 byte columns) and for form feeds / unicode line separators - is checked by the span/AST "
                   "cross-check stand-in over corpus and generated sources.",
    "trusted_base": ["z3 5.1", "pyvc executor", "str.splitlines / re.findall contracts for two literal patterns (stated)", "induction schema for the ls-monotone lemma"],
    "assumptions": ["parser position contract (wfpos/wfend in contracts/c_core_geometry.py) is ASSUMED by the deductive part; its failure modes are the bounded stand-in's job",
                    "processing.find_replace is an uninterpreted deterministic function of (source, pattern) in the API contracts"],
}
