#!/bin/sh
# eval_benign.sh <patch.diff> <check ids...>: run checks (with stand-ins) against a scratch copy with a behaviour-preserving patch; one line per check
cd "$(dirname "$0")/.."
f=$1; shift
d=$(mktemp -d /tmp/pyvc_benign_XXXX); cp "$f" "$d/patch.diff"
for p in "$@"; do
  out=$(VERIF_OUT=$d/out .venv/bin/python selftest/with_seed.py "$d" -- ./check "$p" 2>&1)
  rc=$?
  n=$(printf '%s\n' "$out" | grep -c '^VIOLATION'); u=$(printf '%s\n' "$out" | grep '^\[C' | sed 's/.*undecided=\([0-9]*\).*/\1/')
  echo "$f $p exit=$rc violations=$n undecided=$u $(printf '%s\n' "$out" | grep '^VIOLATION\|PATCH FAILED\|CHECKER' | head -2 | sed 's/.*replays\///' | cut -c1-130 | tr '\n' ' ')"
done
rm -rf "$d"
