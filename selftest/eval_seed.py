#!/usr/bin/env python3
"""Evaluate a seeded change end to end on a scratch copy of /repo (never /repo itself):
   1. the patch applies; 2. the demonstration passes without and fails with the change; 3. the pinned tests pass with it;
   4. the given checks are run against the copy (PYREFACT_REPO) and their VIOLATION lines are reported.
usage: eval_seed.py <seed dir with patch.diff, demo.py> [--no-tests] -- C06 [C05 ...]"""
import os, shutil, subprocess, sys, tempfile
i = sys.argv.index("--")
seed = os.path.abspath(sys.argv[1])
flags = sys.argv[2:i]
checks = sys.argv[i + 1:]
VERIF = os.path.dirname(os.path.dirname(os.path.abspath(__file__)))
d = tempfile.mkdtemp(prefix="pyvc_seed_")
try:
    subprocess.run(["git", "-C", "/repo", "archive", "--format=tar", "HEAD", "-o", d + "/r.tar"], check=True)
    subprocess.run(["tar", "-xf", d + "/r.tar", "-C", d], check=True)
    os.unlink(d + "/r.tar")
    env = dict(os.environ, PYTHONPATH=d, PYTHONDONTWRITEBYTECODE="1")
    demo = os.path.join(seed, "demo.py")
    shutil.copy(demo, d + "/demo_seed.py")
    r0 = subprocess.run(["/venv/bin/python", "demo_seed.py"], cwd=d, env=env, capture_output=True, text=True, timeout=1800)
    print(f"demo on the unchanged copy: exit {r0.returncode}")
    r = subprocess.run(["patch", "-p1", "-s", "-d", d, "-i", os.path.join(seed, "patch.diff")])
    if r.returncode:
        print("PATCH FAILED"); sys.exit(9)
    r1 = subprocess.run(["/venv/bin/python", "demo_seed.py"], cwd=d, env=env, capture_output=True, text=True, timeout=1800)
    print(f"demo on the seeded copy:    exit {r1.returncode}   {(r1.stdout + r1.stderr).strip().splitlines()[-1][:200] if (r1.stdout + r1.stderr).strip() else ''}")
    if "--no-tests" not in flags:
        t = subprocess.run(["/venv/bin/python", "-m", "pytest", "-q", "-p", "no:cacheprovider", "--timeout=900", "--continue-on-collection-errors", "-x"], cwd=d, env=env, capture_output=True, text=True)
        print("pinned tests on the seeded copy:", t.stdout.strip().splitlines()[-1] if t.stdout.strip() else t.stderr[-200:])
    env2 = dict(os.environ, PYREFACT_REPO=d, PYTHONPATH=d)
    for c in checks:
        p = subprocess.run([os.path.join(VERIF, "check"), c], env=env2, capture_output=True, text=True, cwd=VERIF)
        lines = [ln for ln in (p.stdout + p.stderr).splitlines() if ln.startswith(("VIOLATION", "[C", "CHECKER"))]
        print(f"== check {c}: exit {p.returncode}")
        for ln in lines[:12]:
            print("   ", ln[:260])
finally:
    shutil.rmtree(d, ignore_errors=True)
