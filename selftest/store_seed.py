#!/usr/bin/env python3
"""store_seed.py <seed_out dir> <id> <caught-by text> [--patch <file>]: copy patch.diff, demo.py, meta.json (+ my evaluation) to seeded/<id>/"""
import json, os, shutil, sys
src, sid, caught = sys.argv[1:4]
patch = sys.argv[sys.argv.index("--patch") + 1] if "--patch" in sys.argv else os.path.join(src, "patch.diff")
dst = os.path.join(os.path.dirname(os.path.dirname(os.path.abspath(__file__))), "seeded", sid)
os.makedirs(dst, exist_ok=True)
shutil.copy(patch, os.path.join(dst, "patch.diff"))
shutil.copy(os.path.join(src, "demo.py"), os.path.join(dst, "demo.py"))
meta = json.load(open(os.path.join(src, "meta.json")))
meta["evaluation"] = {"confirmed_here": "selftest/eval_seed.py on a scratch export of /repo HEAD: demo exits 0 without and 1 with the change, pinned tests pass with it", "caught_by": caught,
                      "rebased": "--patch" in sys.argv}
json.dump(meta, open(os.path.join(dst, "meta.json"), "w"), indent=1)
print("stored", dst)
