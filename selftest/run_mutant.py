#!/usr/bin/env python3
"""Apply a textual mutation to a scratch copy of /repo (outside /repo and /verif), run a command with
PYREFACT_REPO pointing at it, remove the copy.  usage: run_mutant.py <file> <old> <new> -- cmd..."""
import os, shutil, subprocess, sys, tempfile
i = sys.argv.index("--")
f, old, new = sys.argv[1:i]
cmd = sys.argv[i + 1:]
d = tempfile.mkdtemp(prefix="pyvc_mut_")
try:
    shutil.copytree("/repo/pyrefact", d + "/pyrefact")
    p = os.path.join(d, "pyrefact", f)
    s = open(p).read()
    assert s.count(old) >= 1, f"pattern not found: {old!r}"
    open(p, "w").write(s.replace(old, new, 1))
    env = dict(os.environ, PYREFACT_REPO=d, PYTHONPATH=d)
    sys.exit(subprocess.run(cmd, env=env).returncode)
finally:
    shutil.rmtree(d, ignore_errors=True)
