#!/usr/bin/env python3
"""Run a command against a scratch copy of /repo with a seeded patch applied (PYREFACT_REPO points at the copy).
usage: with_seed.py <seed dir> -- cmd...      (the copy lives outside /repo and /verif and is removed afterwards)"""
import os, shutil, subprocess, sys, tempfile
i = sys.argv.index("--")
seed = sys.argv[1]
cmd = sys.argv[i + 1:]
d = tempfile.mkdtemp(prefix="pyvc_seed_")
try:
    shutil.copytree("/repo/pyrefact", d + "/pyrefact")
    r = subprocess.run(["patch", "-p1", "-s", "-d", d, "-i", os.path.abspath(os.path.join(seed, "patch.diff"))])
    if r.returncode:
        print("PATCH FAILED"); sys.exit(9)
    env = dict(os.environ, PYREFACT_REPO=d, PYTHONPATH=d)
    sys.exit(subprocess.run(cmd, env=env).returncode)
finally:
    shutil.rmtree(d, ignore_errors=True)
