#!/bin/sh
# usage: seed_verify.sh <seed dir with patch.diff demo.py>  -- confirms in a scratch worktree of /repo HEAD:
#   demo passes unpatched, patch applies, 58 tests pass patched, demo fails patched.  Removes the worktree.
S="$1"; W=$(mktemp -d /tmp/seedchk_XXXX); rmdir "$W"
git -C /repo worktree add -q --detach "$W" HEAD || exit 9
cd "$W"; mkdir -p seed_out; cp "$S"/demo.py seed_out/
/venv/bin/python seed_out/demo.py >/dev/null 2>&1; A=$?
git apply "$S/patch.diff"; P=$?
T=$(/venv/bin/python -m pytest -q -p no:cacheprovider --timeout=900 --continue-on-collection-errors 2>&1 | tail -1)
/venv/bin/python seed_out/demo.py >/dev/null 2>&1; B=$?
cd /; git -C /repo worktree remove --force "$W"
echo "seed=$(basename $S) demo_unpatched_exit=$A patch_apply=$P tests='$T' demo_patched_exit=$B"
