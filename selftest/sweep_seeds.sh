#!/bin/sh
# run every stored seed against its property's check on a scratch copy; one line per seed
cd "$(dirname "$0")/.."
[ -x .venv/bin/python ] || ./setup.sh >/dev/null 2>&1
for d in seeded/*/; do
  id=$(basename "$d"); p=${id%%-*}
  out=$(.venv/bin/python selftest/with_seed.py "$d" -- ./check "$p" 2>&1)
  rc=$?
  n=$(printf '%s\n' "$out" | grep -c '^VIOLATION')
  first=$(printf '%s\n' "$out" | grep '^VIOLATION' | head -1 | sed 's/.*replays\///' | cut -c1-110)
  echo "$id exit=$rc violations=$n $first"
done
