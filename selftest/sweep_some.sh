#!/bin/sh
# sweep_some.sh C03 C04 ...: the stored seeds of the given properties only
cd "$(dirname "$0")/.."
[ -x .venv/bin/python ] || ./setup.sh >/dev/null 2>&1
for p in "$@"; do
  for d in seeded/$p-*/; do
    id=$(basename "$d")
    out=$(.venv/bin/python selftest/with_seed.py "$d" -- ./check "$p" 2>&1)
    rc=$?
    n=$(printf '%s\n' "$out" | grep -c '^VIOLATION')
    echo "$id exit=$rc violations=$n $(printf '%s\n' "$out" | grep '^VIOLATION' | head -1 | sed 's/.*replays\///' | cut -c1-100)"
  done
done
