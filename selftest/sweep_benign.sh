#!/bin/sh
# false-alarm measurement: every behaviour-preserving patch of benign/ against the typing engines' properties (deductive parts only)
cd "$(dirname "$0")/.."
[ -x .venv/bin/python ] || ./setup.sh >/dev/null 2>&1
for f in benign/*/patch_*.diff; do
  d=$(mktemp -d /tmp/pyvc_benign_XXXX); cp "$f" "$d/patch.diff"
  for p in C03 C05 C06; do
    out=$(VERIF_OUT=/tmp/pyvc_benign_out .venv/bin/python selftest/with_seed.py "$d" -- ./check "$p" --no-standins 2>&1)
    n=$(printf '%s\n' "$out" | grep -c '^VIOLATION'); pf=$(printf '%s\n' "$out" | grep -c 'PATCH FAILED')
    echo "$f $p violations=$n patchfailed=$pf $(printf '%s\n' "$out" | grep '^VIOLATION' | head -1 | sed 's/.*replays\///' | cut -c1-120)"
  done
  rm -rf "$d"
done
