import Mathlib

/-- Pruning lemma behind `_iter_template_permutations`: if every count is at least its minimum and the
counts add up to `L`, then no single count exceeds its minimum plus the slack `L - Σ min`. -/
theorem slack_bound {ι : Type*} [DecidableEq ι] (s : Finset ι) (c mn : ι → ℕ) (L : ℕ)
    (hmin : ∀ j ∈ s, mn j ≤ c j) (hsum : ∑ j ∈ s, c j = L) (i : ι) (hi : i ∈ s) :
    c i ≤ mn i + (L - ∑ j ∈ s, mn j) := by
  have h1 : ∑ j ∈ s, mn j ≤ ∑ j ∈ s, c j := Finset.sum_le_sum hmin
  have h2 : ∑ j ∈ s.erase i, mn j ≤ ∑ j ∈ s.erase i, c j :=
    Finset.sum_le_sum (fun j hj => hmin j (Finset.mem_of_mem_erase hj))
  have h3 := Finset.add_sum_erase s c hi
  have h4 := Finset.add_sum_erase s mn hi
  omega
