"""Helpers for specialised obligation generators (tables, guarded case analyses, per-branch inductions):
they produce the same unit-result records as pyvc.verify, from z3 goals built off the real AST."""
import ast
import time
import traceback

import z3

from .engine import Oblig
from .verify import discharge
from .unit import module_source, segment_sha, NotGenerated


class Gen:
    def __init__(self, key, props=(), note=""):
        self.key = key
        self.props = list(props)
        self.note = note
        self.obligs = []
        self.assumptions = set()
        self.sha = None
        self.lines = None
        self.replays = {}

    def oblige(self, kind, label, hyps, goal, line, replay=None):
        name = f"{self.key}:{kind}:{label}@L{line}"
        self.obligs.append(Oblig(name, hyps, goal, line, kind))
        if replay is not None:
            self.replays[name] = replay

    def oblige_text(self, kind, label, ok, line):
        """an obligation decided by comparing the STRUCTURE / TEXT of the source with what the contract was reviewed against.  A match discharges
        it; a mismatch only says that the code changed, not that the property broke: it is reported UNDECIDED (the bounded stand-ins then decide),
        never as a violation.  Obligations with a semantic decision procedure (z3, or the real code evaluated on representatives) use oblige()."""
        name = f"{self.key}:{kind}:{label}@L{line}"
        if ok:
            self.obligs.append(Oblig(name, [], z3.BoolVal(True), line, kind))
        else:
            self.obligs.append({"name": name, "kind": kind, "line": line, "backend": "structure", "time_s": 0.0, "status": "undecided",
                                "reason": "the source no longer has the structure this obligation was reviewed against; whether the property still holds is not decided here"})

    def cover(self, label, hyps, line):
        self.obligs.append(Oblig(f"{self.key}:cover:{label}@L{line}", hyps, None, line, "cover"))

    def result(self, both=False):
        out = {"unit": self.key, "unit_name": self.key, "props": self.props, "obligations": [], "undecided": None, "note": self.note,
               "info": {"sha1": self.sha, "lines": self.lines, "assumptions": sorted(self.assumptions), "dropped": []}}
        t0 = time.time()
        first = True
        for o in self.obligs:
            if isinstance(o, dict):
                out["obligations"].append(o)
                continue
            r = discharge(o, want_smt2=first and o.kind != "cover", both=both)
            if o.kind != "cover":
                first = False
            if r["status"] == "refuted" and o.name in self.replays:
                try:
                    r["replay"] = self.replays[o.name](r.get("model") or {})
                except Exception as ex:
                    r["replay"] = {"reproduced": False, "error": repr(ex)}
            out["obligations"].append(r)
        out["wall_s"] = round(time.time() - t0, 3)
        return out


def guarded(key, props, fn):
    """run generator `fn(gen)`; binding failures become undecided(not-generated), crashes engine-error"""
    g = Gen(key, props)
    try:
        fn(g)
        return g
    except NotGenerated as ex:
        g.failed = f"not-generated: {ex}"
    except Exception as ex:
        g.failed = "engine-error: " + "".join(traceback.format_exception_only(type(ex), ex)).strip()
    return g


def run_gen(key, props, fn, both=False):
    g = guarded(key, props, fn)
    if getattr(g, "failed", None):
        return {"unit": key, "unit_name": key, "props": list(props), "obligations": [], "undecided": g.failed, "info": {}, "note": ""}
    return g.result(both)


def lean_lemma(key, props, path, theorem):
    """check a Lean 4 (+ Mathlib) lemma file with the installed `lean`; one obligation, back end lean4.
    The file must not contain sorry / admit / axiom (scanned); exit status 0 and no `error` / `sorry` in the output = discharged."""
    import hashlib
    import os
    import re
    import shutil
    import subprocess
    name = f"{key}:lemma:{theorem}@L1"
    out = {"unit": key, "unit_name": key, "props": list(props), "obligations": [], "undecided": None, "note": f"Lean 4 lemma {os.path.basename(path)}",
           "info": {"sha1": None, "lines": None, "assumptions": ["Lean 4 kernel + Mathlib"], "dropped": []}}
    if not shutil.which("lean") or not os.path.exists(path):
        out["undecided"] = "not-generated: lean or the lemma file is not available"
        return out
    src = open(path).read()
    out["info"]["sha1"] = hashlib.sha1(src.encode()).hexdigest()
    t0 = time.time()
    rec = {"name": name, "kind": "lemma", "line": 1, "backend": "lean4"}
    if re.search(r"\b(sorry|admit|axiom|native_decide)\b", src) or theorem not in src:
        rec.update(status="undecided", reason="lemma file contains sorry/admit/axiom or does not state the theorem", time_s=0.0)
    else:
        try:
            p = subprocess.run(["lean", path], capture_output=True, text=True, timeout=1500, cwd=os.path.dirname(path))
            ok = p.returncode == 0 and "error" not in p.stdout and "sorry" not in p.stdout
            rec.update(status="discharged" if ok else "undecided", time_s=round(time.time() - t0, 2))
            if not ok:
                rec["reason"] = ("lean: " + (p.stdout + p.stderr)[-400:])
        except subprocess.TimeoutExpired:
            rec.update(status="undecided", reason="lean timed out", time_s=round(time.time() - t0, 2))
    out["obligations"].append(rec)
    out["wall_s"] = round(time.time() - t0, 3)
    return out
