"""Helpers for specialised obligation generators (tables, guarded case analyses, per-branch inductions):
they produce the same unit-result records as pyvc.verify, from z3 goals built off the real AST."""
import ast
import time
import traceback

import z3

from .engine import Oblig
from .verify import discharge
from .unit import module_source, segment_sha, NotGenerated


class Gen:
    def __init__(self, key, props=(), note=""):
        self.key = key
        self.props = list(props)
        self.note = note
        self.obligs = []
        self.assumptions = set()
        self.sha = None
        self.lines = None
        self.replays = {}

    def oblige(self, kind, label, hyps, goal, line, replay=None):
        name = f"{self.key}:{kind}:{label}@L{line}"
        self.obligs.append(Oblig(name, hyps, goal, line, kind))
        if replay is not None:
            self.replays[name] = replay

    def cover(self, label, hyps, line):
        self.obligs.append(Oblig(f"{self.key}:cover:{label}@L{line}", hyps, None, line, "cover"))

    def result(self, both=False):
        out = {"unit": self.key, "unit_name": self.key, "props": self.props, "obligations": [], "undecided": None, "note": self.note,
               "info": {"sha1": self.sha, "lines": self.lines, "assumptions": sorted(self.assumptions), "dropped": []}}
        t0 = time.time()
        first = True
        for o in self.obligs:
            r = discharge(o, want_smt2=first and o.kind != "cover", both=both)
            if o.kind != "cover":
                first = False
            if r["status"] == "refuted" and o.name in self.replays:
                try:
                    r["replay"] = self.replays[o.name](r.get("model") or {})
                except Exception as ex:
                    r["replay"] = {"reproduced": False, "error": repr(ex)}
            out["obligations"].append(r)
        out["wall_s"] = round(time.time() - t0, 3)
        return out


def guarded(key, props, fn):
    """run generator `fn(gen)`; binding failures become undecided(not-generated), crashes engine-error"""
    g = Gen(key, props)
    try:
        fn(g)
        return g
    except NotGenerated as ex:
        g.failed = f"not-generated: {ex}"
    except Exception as ex:
        g.failed = "engine-error: " + "".join(traceback.format_exception_only(type(ex), ex)).strip()
    return g


def run_gen(key, props, fn, both=False):
    g = guarded(key, props, fn)
    if getattr(g, "failed", None):
        return {"unit": key, "unit_name": key, "props": list(props), "obligations": [], "undecided": g.failed, "info": {}, "note": ""}
    return g.result(both)
