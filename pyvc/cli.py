"""check dispatcher: ./check <PID> --tier quick|thorough | --replay <file> | --update-baseline"""
import argparse
import importlib
import json
import os
import sys
import traceback

VERIF = os.path.dirname(os.path.dirname(os.path.abspath(__file__)))
sys.path.insert(0, VERIF)
REPO = os.environ.get("PYREFACT_REPO", "/repo")
sys.path.insert(1, REPO)   # `import pyrefact` resolves to the tree under verification (stand-ins, replay)
os.environ.setdefault("PYTHONHASHSEED", "0")


def main():
    ap = argparse.ArgumentParser()
    ap.add_argument("pid")
    ap.add_argument("--tier", default=os.environ.get("VERIF_TIER", "quick"), choices=["quick", "thorough"])
    ap.add_argument("--replay")
    ap.add_argument("--update-baseline", action="store_true")
    ap.add_argument("--no-standins", action="store_true")
    ap.add_argument("--verbose", "-v", action="store_true")
    a = ap.parse_args()
    seed = int(os.environ.get("VERIF_SEED", "0"))
    if a.replay:
        doc = json.load(open(a.replay))
        print(json.dumps(doc, indent=1)[:6000])
        mod = importlib.import_module(f"props.{a.pid}")
        if hasattr(mod, "replay"):
            return mod.replay(doc)
        # generic replay on the CURRENT tree: re-discharge the obligation / re-run the stand-in and look for the same failure
        from pyvc import verify
        import re as _re
        strip = lambda n: _re.sub(r"@L\d+", "", _re.sub(r":bmc\d+:", ":", n))      # noqa: E731
        if doc.get("obligation"):
            want = strip(doc["obligation"])
            units = mod.units() if hasattr(mod, "units") else []
            verify.register(units)
            res = verify.verify_units([u.key for u in units if want.startswith(u.name + ":")]) if units else []
            res += [r for r in (mod.extra("quick", seed) if hasattr(mod, "extra") else []) if want.startswith(r["unit"] + ":")]
            found = [o for r in res for o in r["obligations"] if strip(o["name"]) == want]
            bmc = [c for r in res for c in (r.get("bmc") or {}).get("counterexamples", []) if strip(c["name"]) == want]
            if not found and not bmc:
                print(f"REPLAY: obligation {want} is not generated on the current tree (undecided)")
                return 2
            bad = [o for o in found if o["status"] == "refuted"] + bmc
            print(f"REPLAY: {want}: " + ("still refuted on the current tree" if bad else "discharged on the current tree" if all(o["status"] == "discharged" for o in found) else "undecided on the current tree"))
            return 1 if bad else 0
        if doc.get("standin") and hasattr(mod, "standins"):
            fid = (doc.get("failure") or {}).get("id")
            res = mod.standins("quick", seed) + (mod.standins("thorough", seed) if os.environ.get("VERIF_REPLAY_THOROUGH") else [])
            hit = [f for r in res if r["name"] == doc["standin"] for f in r["failures"] if f["id"] == fid]
            print(f"REPLAY: stand-in {doc['standin']} failure {fid}: " + ("reproduced on the current tree" if hit else "not reproduced on the current tree (quick-tier space)"))
            return 1 if hit else 0
        return 0
    from pyvc import report, verify
    try:
        mod = importlib.import_module(f"props.{a.pid}")
        run = report.Run(a.pid, a.tier, seed)
        units = mod.units() if hasattr(mod, "units") else []
        verify.register(units)
        if units:
            run.add_deductive(verify.verify_units([u.key for u in units], both=(a.tier == "thorough")))
        if hasattr(mod, "extra"):
            for r in mod.extra(a.tier, seed):
                run.extra_results.append(r)
                run.add_deductive([r])
                run.unit_results.pop()
        if a.update_baseline:
            import collections
            path = report.BASELINE_PATH
            base = json.load(open(path)) if os.path.exists(path) else {}
            cnt = collections.Counter()
            for r in run.unit_results + run.extra_results:
                for o in r["obligations"]:
                    cnt[report.strip_line(o["name"])] += 1
            base.setdefault(a.pid, {})["deductive"] = dict(sorted(cnt.items()))
            # what the executor only over-approximates in each unit on the pinned tree (uninterpreted str methods ...): see report.add_deductive
            base[a.pid]["abstractions"] = {r["unit"]: sorted(x for x in r.get("info", {}).get("assumptions", []) if x.startswith("uninterpreted: "))
                                           for r in run.unit_results + run.extra_results}
            os.makedirs(os.path.dirname(path), exist_ok=True)
            json.dump(base, open(path, "w"), indent=1, sort_keys=True)
            print(f"baseline updated: {len(cnt)} obligation names for {a.pid}")
        run.check_baseline("deductive")
        if hasattr(mod, "standins") and not a.no_standins:
            for res in mod.standins(a.tier, seed):
                run.add_standin(res)
        if a.verbose:
            for r in run.unit_results + run.extra_results:
                print("==", r["unit"], r.get("undecided") or "", r.get("traceback", ""))
                for o in r["obligations"]:
                    if o["status"] != "discharged" or a.verbose:
                        print("  ", o["name"], o["status"], o.get("time_s"), o.get("reason", ""))
        return run.finish(mod.META)
    except SystemExit:
        raise
    except Exception:
        traceback.print_exc()
        print("CHECKER-ERROR: harness crashed", file=sys.stderr)
        return 3


if __name__ == "__main__":
    sys.exit(main())
