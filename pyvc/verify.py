"""Generate the obligations of a contract unit from the real source and discharge them (z3, then cvc5)."""
import ast
import os
import re
import subprocess
import tempfile
import time
import traceback
import multiprocessing as mp

import z3

from .engine import Engine, Undecided, Outcome, Oblig, loop_ordinals, exc_matches
from .unit import Unit, NotGenerated, find_def, segment_sha
from .values import *  # noqa: F401,F403

Z3_TIMEOUT_MS = int(os.environ.get("PYVC_Z3_TIMEOUT_MS", "20000"))
CVC5_TIMEOUT_MS = int(os.environ.get("PYVC_CVC5_TIMEOUT_MS", "20000"))


def strip_line(name):
    return re.sub(r"@L\d+", "", name)


def generate(unit):
    """-> (engine, obligations, info).  Raises NotGenerated / Undecided."""
    import itertools
    from . import values as _vals
    _vals._cnt = itertools.count()      # fresh names are numbered per unit: queries do not depend on which units ran before
    fn, text = find_def(unit.module, unit.qualname)
    if unit.slice is not None:
        stmts, label = unit.slice(fn)
        unit.slice_label = label
    else:
        stmts = fn.body
    eng = Engine(unit, unit.name)
    if _vals.BOUND is not None:
        eng.deadline = time.time() + BMC_GEN_BUDGET_S
    eng.loops = loop_ordinals(stmts)
    missing = [k for k in unit.loops if k not in set(eng.loops.values())]
    if missing and _vals.BOUND is None:
        raise NotGenerated(f"{unit.name}: loop ordinal(s) {missing} not present in the source")
    env = {p: fresh_val(p, sh) for p, sh in unit.params.items()}
    for v in env.values():
        _wf(eng, v)
    env = eng.with_ghost(unit, env)
    if any(isinstance(n, (ast.Yield, ast.YieldFrom)) for s_ in stmts for n in ast.walk(s_)):
        env["__yields__"] = VInt(0)
    # ghost call counters named in the contract (`__calls_<dotted name with _>__`): start at 0, incremented by the engine at each such call
    import re as _re
    for spec_text in [e for _, e in unit.ensures_items()] + [i for sp in unit.loops.values() for i in sp.get("inv", [])]:
        for ck in _re.findall(r"__calls_\w+?__", spec_text if isinstance(spec_text, str) else ""):
            env.setdefault(ck, VInt(0))
    env["__old__"] = dict(env)
    pc = []
    for label, expr in unit.requires_items():
        pc.append(eng.spec(expr, env, pc))
    # vacuity guards: the precondition must be satisfiable (cover) and must not prove False (canary)
    eng.obligs.append(Oblig(f"{unit.name}:cover:requires-satisfiable@L{fn.lineno}", list(eng.axioms) + list(pc), None, fn.lineno, "cover"))
    outs = eng.run(stmts, env, pc)
    n_ret = 0
    for o in outs:
        if o.kind in ("return", "fall"):
            if o.kind == "fall" and not (unit.fall_is_return or unit.slice is not None):
                o = Outcome("return", o.env, o.pc, VNone(), line=fn.end_lineno)
            n_ret += 1
            penv = dict(o.env)
            penv["result"] = o.val if o.val is not None else VNone()
            if unit.lenient and unit.returns in ("str", "int", "bool") and type(penv["result"]).__name__ == "VObj":
                penv["result"] = fresh_val("result", unit.returns)      # a havocked (unsupported) expression of the declared result type
            penv["__old__"] = env["__old__"]
            penv = eng.with_ghost(unit, penv)
            line = o.line or (stmts[-1].end_lineno if stmts else fn.lineno)
            for label, expr in unit.ensures_items():
                eng.oblige("post", label, o.pc, eng.spec(expr, penv, o.pc), line)
            if unit.post_hook:
                unit.post_hook(eng, o, penv, line)
        elif o.kind == "raise":
            if unit.raises is not None and not exc_matches(o.exc, unit.raises):
                eng.oblige("raises-subset", f"no-escape:{o.exc}", o.pc, z3.BoolVal(False), o.line or fn.lineno)
        elif o.kind == "continue" and unit.slice is not None:
            outs.append(Outcome("fall", o.env, o.pc))
        else:
            raise Undecided(f"stray {o.kind} outcome")
    if unit.covers and n_ret:
        # every normal exit must be reachable under the precondition (at least one overall)
        goal = z3.Or(*[z3.And(*o.pc) if o.pc else z3.BoolVal(True) for o in outs if o.kind in ("return", "fall")])
        eng.obligs.append(Oblig(f"{unit.name}:cover:some-normal-exit-reachable@L{fn.lineno}", list(eng.axioms) + [goal], None, fn.lineno, "cover"))
    info = {"sha1": segment_sha(text, stmts), "lines": [stmts[0].lineno, stmts[-1].end_lineno] if stmts else [fn.lineno, fn.end_lineno],
            "assumptions": sorted(eng.assumptions) + ([f"lenient unit: {len(eng.havocked)} expressions/statements outside the subset abstracted to unconstrained values"] if eng.havocked else []),
            "dropped": sorted(eng.dropped), "yields": len(eng.yields), "havocked": sorted(eng.havocked)[:60]}
    return eng, eng.obligs, info


def _wf(eng, v):
    """well-formedness of fresh symbolic inputs: lengths are non-negative"""
    from . import values as _vals
    if isinstance(v, VSeq):
        eng.axioms.append(v.len >= 0)
        if _vals.BOUND is not None:
            eng.axioms.append(v.len <= _vals.BOUND)
    elif isinstance(v, VStr):
        eng.axioms.append(strlen(v.t) >= 0)
    elif isinstance(v, VInt) and _vals.BOUND is not None and z3.is_const(v.t) and not z3.is_int_value(v.t):
        # bounded refutation pass: look for SMALL counterexamples - integer inputs stay inside the domain over which quantifiers are expanded,
        # so that a witness "between" two inputs is inside the domain as well
        eng.axioms.append(z3.And(v.t >= -1, v.t <= 2 * _vals.BOUND))
    elif isinstance(v, VRec):
        for f in v.fields.values():
            _wf(eng, f)
    elif isinstance(v, VTuple):
        for f in v.items:
            _wf(eng, f)
    elif isinstance(v, VOpt):
        _wf(eng, v.val)
    elif isinstance(v, VMap):
        eng.axioms.append(v.keys.len >= 0)
        if _vals.BOUND is not None:
            eng.axioms.append(v.keys.len <= _vals.BOUND)
        p, q = z3.Ints("p!wf q!wf")
        eng.axioms.append(QAll([p, q], z3.Implies(z3.And(0 <= p, p < q, q < v.keys.len), z3.Not(val_eq(seq_read(v.keys, p), seq_read(v.keys, q))))))


GLOBAL_AXIOMS = []
_s = z3.Const("s_ax", STR)
GLOBAL_AXIOMS.append(z3.ForAll([_s], strlen(_s) >= 0))


def model_to_dict(m, limit=80):
    out = {}
    decls = sorted(m.decls(), key=lambda d: (d.arity() > 0, d.name()))
    for d in decls:
        try:
            val = m[d]
            if d.arity() > 0 and isinstance(val, z3.FuncInterp) and val.num_entries() > 12:
                continue
            if d.arity() == 0 and z3.is_array(val) and len(val.sexpr()) > 600:
                continue
            s_ = val.sexpr() if d.arity() == 0 else str(val)
        except Exception:
            continue
        s_ = " ".join(s_.split())
        if len(s_) < (200 if d.arity() == 0 else 400):
            out[d.name()] = s_
        if len(out) >= limit:
            break
    return out


def run_cvc5(smt2, timeout_ms):
    with tempfile.NamedTemporaryFile("w", suffix=".smt2", delete=False, dir=os.environ.get("TMPDIR", "/tmp")) as f:
        f.write("(set-logic ALL)\n" + smt2)
        path = f.name
    try:
        p = subprocess.run(["/usr/bin/cvc5", "--lang=smt2", "--strings-exp", f"--tlimit={timeout_ms}", path], capture_output=True, text=True, timeout=timeout_ms / 1000 + 10)
        out = (p.stdout or "").strip().splitlines()
        return out[0] if out else "unknown"
    except Exception:
        return "unknown"
    finally:
        os.unlink(path)


def discharge(o, want_smt2=False, both=False):
    """-> dict(name, kind, status, backend, time_s, model?, smt2?)"""
    if o.kind == "unclassified":
        return {"name": o.name, "kind": o.kind, "line": o.line, "backend": "frame", "time_s": 0.0, "status": "undecided", "reason": "receiver cannot be classified by the ownership rules"}
    s_ = z3.Solver()
    s_.set("timeout", getattr(o, "z3_timeout_ms", None) or Z3_TIMEOUT_MS)      # string-theory obligations give z3 a short budget and go to cvc5
    s_.set("random_seed", 7)
    s_.add(*GLOBAL_AXIOMS)
    s_.add(*o.hyps)
    inverted = o.kind == "cover"
    if not inverted:
        s_.add(z3.Not(o.goal))
    t0 = time.time()
    r = s_.check()
    dt = time.time() - t0
    res = {"name": o.name, "kind": o.kind, "line": o.line, "backend": "z3", "time_s": round(dt, 4)}
    smt2 = None
    if want_smt2 or r == z3.unknown or both:
        try:
            smt2 = s_.to_smt2()
        except Exception:
            smt2 = None
    if (r == z3.unknown or both) and smt2 and "(lambda " in smt2:
        res["cvc5"] = "skipped (z3 lambda terms are outside cvc5's input language)"
    elif (r == z3.unknown or both) and smt2:
        t1 = time.time()
        c = run_cvc5(smt2, CVC5_TIMEOUT_MS)
        res["cvc5"] = c
        res["time_s"] = round(dt + time.time() - t1, 4)
        if r == z3.unknown and c in ("sat", "unsat"):
            r = z3.sat if c == "sat" else z3.unsat
            res["backend"] = "cvc5"
        elif both and c in ("sat", "unsat") and str(r) != c:
            res["status"] = "undecided"
            res["reason"] = f"solver disagreement z3={r} cvc5={c}"
            return res
    if inverted and r == z3.unknown:
        # vacuity guard only: retry on the quantifier-free part of the hypotheses (weaker, documented in DESIGN 1.5)
        s2 = z3.Solver()
        s2.set("timeout", 5000)
        qf = [h for h in o.hyps if not _has_quantifier(h)]
        s2.add(*qf)
        if s2.check() == z3.sat:
            r = z3.sat
            res["note"] = "cover decided on the quantifier-free part of the hypotheses"
    if inverted:
        res["status"] = "discharged" if r == z3.sat else ("refuted" if r == z3.unsat else "undecided")
        if r == z3.unsat:
            res["reason"] = "vacuous: hypotheses unsatisfiable"
    else:
        res["status"] = "discharged" if r == z3.unsat else ("refuted" if r == z3.sat else "undecided")
        if r == z3.sat and res["backend"] == "z3":
            try:
                res["model"] = model_to_dict(s_.model())
            except Exception:
                pass
    if r == z3.unknown:
        res["reason"] = "solver unknown/timeout: " + s_.reason_unknown()
    if want_smt2 and smt2:
        res["smt2"] = smt2[-1500:]
    return res


def _has_quantifier(e, _seen=None):
    todo = [e]
    seen = set()
    while todo:
        x = todo.pop()
        if x.get_id() in seen:
            continue
        seen.add(x.get_id())
        if z3.is_quantifier(x):
            return True
        todo.extend(x.children())
    return False


REGISTRY = {}


def register(units):
    for u in units:
        key = u._name or f"{u.module}.{u.qualname}" + (f"/{u.key_suffix}" if getattr(u, "key_suffix", None) else "")
        u.key = key
        REGISTRY[key] = u
    return units


_ALL = []     # obligations of the current run; filled before the discharge pool is forked so that children inherit the z3 terms


def _generate_unit(key):
    unit = REGISTRY[key]
    t0 = time.time()
    out = {"unit": key, "props": list(unit.props), "obligations": [], "undecided": None, "info": {}, "note": unit.note}
    obligs = []
    try:
        eng, obligs, info = generate(unit)
        if getattr(unit, "z3_timeout_ms", None):
            for o_ in obligs:
                if not getattr(o_, "z3_timeout_ms", None):
                    o_.z3_timeout_ms = unit.z3_timeout_ms
        out["unit_name"] = unit.name
        out["info"] = info
    except NotGenerated as ex:
        out["undecided"] = f"not-generated: {ex}"
    except Undecided as ex:
        out["undecided"] = f"unsupported: {ex}"
    except RecursionError as ex:
        out["undecided"] = f"engine recursion: {ex}"
    except Exception as ex:
        out["undecided"] = "engine-error: " + "".join(traceback.format_exception_only(type(ex), ex)).strip()
        out["traceback"] = traceback.format_exc()[-2000:]
    out["gen_s"] = round(time.time() - t0, 3)
    return out, obligs


def _discharge_idx(i):
    o, want, both = _ALL[i]
    try:
        return discharge(o, want_smt2=want, both=both)
    except Exception as ex:
        return {"name": o.name, "kind": o.kind, "line": o.line, "backend": "z3", "time_s": 0, "status": "undecided", "reason": "discharge crashed: " + repr(ex)}


def _refutation_pass(keys, outs, both):
    """second pass for obligations z3 left `unknown` for incompleteness (not timeouts): regenerate the unit with
    axiom-defined arrays instead of lambda terms and ask again; only a definite `sat` (with model) changes a verdict"""
    from . import engine as _eng
    global _ALL
    todo = []
    for key, out in zip(keys, outs):
        if any(o["status"] == "undecided" and "incomplete" in o.get("reason", "") for o in out["obligations"]):
            todo.append((key, out))
    if not todo:
        return
    _eng.AXIOM_ARRAYS = True
    try:
        for key, out in todo:
            out2, obligs = _generate_unit(key)
            if out2.get("undecided") or len(obligs) != len(out["obligations"]):
                continue
            for i, (o, r) in enumerate(zip(obligs, out["obligations"])):
                if r["status"] == "undecided" and "incomplete" in r.get("reason", "") and o.name == r["name"]:
                    r2 = discharge(o, want_smt2=False, both=False)
                    if r2["status"] == "refuted":
                        r2["note"] = "refuted in the refutation pass (axiom-defined arrays); first pass: " + r.get("reason", "")
                        r2["time_s"] = round(r2["time_s"] + r["time_s"], 4)
                        out["obligations"][i] = r2
    finally:
        _eng.AXIOM_ARRAYS = False


BMC_BOUND = int(os.environ.get("PYVC_BMC_BOUND", "3"))
BMC_GEN_BUDGET_S = float(os.environ.get("PYVC_BMC_GEN_BUDGET_S", "20"))


def _bmc_pass(keys, outs, procs):
    """Refutation pass for units with an obligation that is not discharged: regenerate the unit in bounded mode
    (sequence lengths <= B, loops unrolled, index quantifiers expanded: quantifier-free queries) and look for definite
    counterexamples of the postconditions / safety conditions.  Finds counterexamples only; proves nothing."""
    from . import values as _vals
    global _ALL
    todo = [(k, o) for k, o in zip(keys, outs) if not o.get("undecided", "") or not str(o.get("undecided", "")).startswith("not-generated")]
    todo = [(k, o) for k, o in todo if o.get("undecided") or any(x["status"] != "discharged" and x["kind"] != "cover" for x in o["obligations"])]
    if not todo:
        return
    from . import engine as _eng
    for bound in (BMC_BOUND, 1):
        _vals.BOUND = bound
        _eng.AXIOM_ARRAYS = True
        try:
            _ALL = []
            spans = []
            gen = []
            for key, out in todo:
                if out.get("bmc") is not None:
                    spans.append((len(_ALL), len(_ALL)))
                    gen.append(None)
                    continue
                o2, obligs = _generate_unit(key)
                lo = len(_ALL)
                if not o2.get("undecided"):
                    for ob in obligs:
                        if ob.kind in ("post", "safety", "pre@callsite", "yield", "raises-subset"):
                            ob.name = ob.name.replace(":" + ob.kind + ":", f":bmc{bound}:{ob.kind}:", 1)
                            _ALL.append((ob, False, False))
                spans.append((lo, len(_ALL)))
                gen.append(o2)
            n = len(_ALL)
            if n:
                ctx = mp.get_context("fork")
                with ctx.Pool(min(16, n)) as pool:
                    results = pool.map(_discharge_idx, range(n), chunksize=1)
            else:
                results = []
            for (key, out), (lo, hi), o2 in zip(todo, spans, gen):
                if o2 is None:
                    continue
                if o2.get("undecided"):
                    out["bmc_note"] = f"bounded pass (B={bound}) not generated: {o2['undecided']}"
                    continue
                out["bmc"] = {"bound": bound, "checked": hi - lo, "counterexamples": [r for r in results[lo:hi] if r["status"] == "refuted"]}
        finally:
            _vals.BOUND = None
            _eng.AXIOM_ARRAYS = False
            _ALL = []
    _validate_bmc(todo)


def _base_key(name):
    import re
    return re.sub(r"@L\d+", "", re.sub(r":bmc\d+:", ":", name))


def _validate_bmc(todo):
    """A bounded counterexample is only a HINT: index quantifiers are expanded over a small domain, which is exact for quantifiers that range
    over positions of bounded sequences but not for quantifiers over arbitrary integers (an `exists x` whose witness lies outside the domain
    looks false).  So (1) a counterexample for an obligation the unbounded pass PROVED is dropped - a proof is a proof; (2) every other
    counterexample is confirmed against the UNBOUNDED verification condition: the integer / boolean constants of the model are pinned and z3
    is asked again; only a definite `sat` of the unbounded query keeps it (unsat -> spurious, unknown -> stays undecided)."""
    import z3 as _z3
    for key, out in todo:
        bmc = out.get("bmc")
        if not bmc or not bmc.get("counterexamples"):
            continue
        status = {}
        for o in out["obligations"]:
            status.setdefault(_base_key(o["name"]), []).append(o["status"])
        try:
            _o2, obligs = _generate_unit(key)          # unbounded obligations (deterministic fresh names: parameters are created first)
        except Exception:
            obligs = []
        by_key = {}
        for ob in obligs:
            by_key.setdefault(_base_key(ob.name), []).append(ob)
        kept, dropped = [], []
        # a post-condition is proved FROM the loop invariants and cut facts: that proof only stands if those are themselves established
        invariants_hold = all(o["status"] == "discharged" for o in out["obligations"] if o["kind"] in ("inv-init", "inv-preserved", "cut", "pre@callsite"))
        for c in bmc["counterexamples"]:
            k = _base_key(c["name"])
            sts = status.get(k, [])
            if sts and all(s_ == "discharged" for s_ in sts) and invariants_hold:
                dropped.append({"name": c["name"], "why": "the unbounded pass proved this obligation"})
                continue
            confirmed = False
            for ob in by_key.get(k, []):
                try:
                    sol = _z3.Solver()
                    sol.set("timeout", 10000)
                    for h in ob.hyps:
                        sol.add(h)
                    sol.add(_z3.Not(ob.goal))
                    consts = {}
                    for f in list(ob.hyps) + [ob.goal]:
                        for t in _subterms_consts(f):
                            consts[t.decl().name()] = t
                    for name, val in (c.get("model") or {}).items():
                        t = consts.get(name)
                        if t is None:
                            continue
                        v = str(val).replace("(- ", "-").replace(")", "").strip()
                        if _z3.is_int(t) and v.lstrip("-").isdigit():
                            sol.add(t == int(v))
                        elif _z3.is_bool(t) and v in ("true", "false"):
                            sol.add(t == (v == "true"))
                    if sol.check() == _z3.sat:
                        confirmed = True
                        break
                except Exception:
                    continue
            if confirmed:
                c["validated"] = "model pinned in the unbounded verification condition: sat"
                kept.append(c)
            elif _small_model(c.get("model") or {}, bmc.get("bound") or 1):
                c["validated"] = "unbounded query undecided; every integer of the model lies inside the quantifier domain of the bounded pass"
                kept.append(c)
            else:
                dropped.append({"name": c["name"], "why": "not confirmed by the unbounded verification condition with the model's constants pinned"})
        bmc["counterexamples"] = kept
        if dropped:
            bmc["dropped"] = dropped


def _small_model(model, bound):
    """every integer of the model - constants, and the values and arguments of the interpretations of uninterpreted functions and arrays -
    lies within [-1, 2 * bound] (strictly inside the expansion domain [-1, 2 * bound + 1]); names of abstract values (Obj!val!3) and of
    auxiliary arrays (k!12, as-array) are not integers of the model"""
    import re as _re
    for name, val in model.items():
        v = str(val).replace("(- ", "-")
        v = _re.sub(r"[A-Za-z_][\w.]*!(?:val!)?\d+", " ", v)
        v = _re.sub(r"as-array,?\s*\d+", " ", v)
        for num in _re.findall(r"(?<![\w.!])-?\d+(?![\w.!])", v):
            if not (-1 <= int(num) <= 2 * bound):
                return False
    return True


def _subterms_consts(f, seen=None):
    """uninterpreted constants (arity 0) occurring in a z3 term"""
    import z3 as _z3
    seen = set() if seen is None else seen
    stack = [f]
    while stack:
        t = stack.pop()
        if t.get_id() in seen:
            continue
        seen.add(t.get_id())
        if _z3.is_quantifier(t):
            stack.append(t.body())
            continue
        if _z3.is_app(t):
            if t.num_args() == 0 and t.decl().kind() == _z3.Z3_OP_UNINTERPRETED:
                yield t
            stack.extend(t.children())


def verify_units(keys, both=False, procs=None):
    """generation is sequential in this process (fast); all obligations of all units are then discharged in one
    fork()ed pool, one obligation per task"""
    global _ALL
    outs = []
    _ALL = []
    spans = []
    for key in keys:
        out, obligs = _generate_unit(key)
        first = True
        lo = len(_ALL)
        for o in obligs:
            want = first and o.kind != "cover"
            if o.kind != "cover":
                first = False
            _ALL.append((o, want, both))
        spans.append((lo, len(_ALL)))
        outs.append(out)
    n = len(_ALL)
    procs = procs or min(16, max(1, n))
    t0 = time.time()
    if procs == 1 or n <= 1:
        results = [_discharge_idx(i) for i in range(n)]
    else:
        ctx = mp.get_context("fork")
        with ctx.Pool(procs) as pool:
            results = pool.map(_discharge_idx, range(n), chunksize=1)
    for out, (lo, hi), key in zip(outs, spans, keys):
        unit = REGISTRY[key]
        for i in range(lo, hi):
            r = results[i]
            if r["status"] == "refuted" and unit_replay(unit):
                try:
                    r["replay"] = unit_replay(unit)(unit, _ALL[i][0], r)
                except Exception as ex:  # replay problems never turn into a verdict
                    r["replay"] = {"reproduced": False, "error": repr(ex)}
            out["obligations"].append(r)
        out["wall_s"] = round(out.get("gen_s", 0) + sum(r.get("time_s", 0) for r in out["obligations"]), 3)
    _ALL = []
    _bmc_pass(keys, outs, procs)
    return outs


def verify_unit_key(args):
    key, both = args
    return verify_units([key], both=both, procs=1)[0]


def unit_replay(unit):
    return getattr(unit, "replay", None)
