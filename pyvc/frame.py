"""Ownership / frame checker (C05): no write through a reference reachable from an lru_cache'd object.

Decision procedure: flow-sensitive ownership typing per function over the real AST, inter-procedural through summaries
(which parameters a function writes through, where its result comes from).  This is the one obligation family that is
not SMT: the obligation is a frame condition over the heap.

Abstract values
    IMM              immutable (str, int, bool, None, tuples of immutables, functions)
    SHARED           reachable from the result of a cached function (core.parse, compile_template, trace_origin, ...)
    PARAM(i)         reachable from parameter i of the function under analysis (provenance decided at the call sites)
    FRESH(e)         an object created in this function; e = what its fields / elements may reference
    DEEP             created by copy.deepcopy or built only from fresh / immutable parts
    UNK              cannot be classified (-> undecided, never a violation)
Obligation at every write site (attribute store, subscript store / delete, augmented assignment, mutating method call,
ast.fix_missing_locations / increment_lineno / copy_location, NodeTransformer.visit): the receiver is FRESH / DEEP.
SHARED receiver => refuted.  PARAM receiver => recorded in the function's summary and checked at each call site.
"""
import ast
import os

REPO = os.environ.get("PYREFACT_REPO", "/repo")
MODULES = ["core", "processing", "fixes", "performance", "performance_numpy", "performance_pandas", "object_oriented", "abstractions", "symbolic_math", "tracing",
           "parsing", "main", "formatting", "style", "pattern_matching"]
MUTATORS = {"append", "extend", "insert", "pop", "remove", "clear", "sort", "update", "add", "discard", "setdefault", "reverse", "popitem", "appendleft", "extendleft", "popleft",
            "difference_update", "intersection_update", "symmetric_difference_update"}
IMM_CALLS = {"str", "int", "float", "bool", "len", "min", "max", "sum", "any", "all", "repr", "isinstance", "issubclass", "hasattr", "callable", "id", "hash", "abs", "round", "ord", "chr",
             "format", "range", "type", "print", "divmod", "bytes"}
# functions that hand out (parts of) their first argument: the result is as shared as that argument
PASS_THROUGH = {"core.walk", "core.walk_wildcard", "core.walk_sequence", "core.filter_nodes", "core.match_template", "ast.walk", "ast.iter_child_nodes", "ast.iter_fields",
                "walk", "walk_wildcard", "walk_sequence", "filter_nodes", "match_template", "iter", "next", "reversed", "enumerate", "zip", "filter", "itertools.chain",
                "itertools.chain.from_iterable", "itertools.combinations", "itertools.product", "itertools.zip_longest", "itertools.islice", "getattr", "vars", "core.merge_matches", "merge_matches"}
COPY_SPINE = {"list", "set", "dict", "sorted", "tuple", "frozenset", "collections.OrderedDict", "collections.Counter", "collections.deque", "copy.copy"}   # fresh container, same elements


class AV:
    __slots__ = ("kind", "elem", "params", "fields")

    def __init__(self, kind, elem=None, params=(), fields=None):
        self.kind = kind
        self.elem = elem
        self.params = frozenset(params)
        self.fields = dict(fields) if fields else None      # per-field values of a fresh object built by a constructor call

    def __repr__(self):
        if self.kind == "FRESH":
            return f"FRESH({self.elem!r})"
        if self.kind == "PARAM":
            return f"PARAM{sorted(self.params)}"
        return self.kind

    def __eq__(self, o):
        return isinstance(o, AV) and (self.kind, self.elem, self.params, self.fields) == (o.kind, o.elem, o.params, o.fields)

    def __hash__(self):
        return hash((self.kind, self.params))


IMM, SHARED, UNK, DEEP = AV("IMM"), AV("SHARED"), AV("UNK"), AV("DEEP")


def FRESH(elem, depth=0):
    return AV("FRESH", elem if depth < 3 else contents_top(elem))


def contents_top(v):
    return v


def PARAM(names):
    return AV("PARAM", params=names)


def join(a, b):
    if a is None:
        return b
    if b is None:
        return a
    if a == b:
        return a
    ks = {a.kind, b.kind}
    if "SHARED" in ks:
        return AV("SHARED", params=(a.params if a.kind == "SHARED" else frozenset()) | (b.params if b.kind == "SHARED" else frozenset()))
    if ks == {"PARAM"}:
        return PARAM(a.params | b.params)
    if "PARAM" in ks:
        p = a if a.kind == "PARAM" else b
        o = b if a.kind == "PARAM" else a
        if o.kind in ("IMM",):
            return p
        if o.kind in ("DEEP", "FRESH"):
            return p          # may be the parameter: writes must be accounted to the parameter
        return UNK
    if "UNK" in ks:
        return UNK
    if ks == {"IMM", "DEEP"} or ks == {"IMM", "FRESH"}:
        return a if a.kind != "IMM" else b
    if ks == {"DEEP", "FRESH"}:
        f = a if a.kind == "FRESH" else b
        return f
    if ks == {"FRESH"}:
        out = FRESH(join(a.elem, b.elem))
        if a.fields is not None and b.fields is not None:
            out.fields = {k: join(a.fields.get(k, a.elem), b.fields.get(k, b.elem)) for k in set(a.fields) | set(b.fields)}
        return out
    if ks == {"TUPLE"} and len(a.elem) == len(b.elem):
        return AV("TUPLE", elem=tuple(join(x, y) for x, y in zip(a.elem, b.elem)))
    if "TUPLE" in ks:
        t = a if a.kind == "TUPLE" else b
        o = b if a.kind == "TUPLE" else a
        if o.kind in ("DEEP", "IMM"):
            return t
        return join(FRESH(contents(t)), o)
    return UNK


def contents(v):
    """what a field / element / iteration item of v may be"""
    if v.kind == "TUPLE":
        j = None
        for x in v.elem:
            j = join(j, x)
        return j if j is not None else IMM
    if v.kind == "FRESH":
        return v.elem if v.elem is not None else DEEP
    if v.kind == "DEEP":
        return DEEP
    if v.kind == "IMM":
        return IMM
    return v          # SHARED / PARAM / UNK propagate


def dotted(e):
    if isinstance(e, ast.Name):
        return e.id
    if isinstance(e, ast.Attribute):
        b = dotted(e.value)
        return f"{b}.{e.attr}" if b else None
    return None


class Summary:
    def __init__(self):
        self.mutates = set()        # parameter names written through
        self.returns = None         # AV (PARAM(...) relative to own parameters)
        self.params = []


class Package:
    def __init__(self):
        self.funcs = {}             # "mod.qualname" -> (module, ast.FunctionDef)
        self.cached = set()         # qualified names of lru_cache'd functions
        self.summaries = {}
        self.by_short = {}
        for mod in MODULES:
            path = os.path.join(REPO, "pyrefact", mod + ".py")
            if not os.path.exists(path):
                continue
            tree = ast.parse(open(path, encoding="utf-8").read())
            # parents are kept in a side table: AST nodes are never annotated (the parser shares singleton nodes such as
            # ast.Load() between ALL trees of the process, so an attribute set on them would leak into pyrefact's own trees)
            parent_of = {}
            for node in ast.walk(tree):
                for child in ast.iter_child_nodes(node):
                    parent_of[id(child)] = node
            for fn in [n for n in ast.walk(tree) if isinstance(n, (ast.FunctionDef, ast.AsyncFunctionDef))]:
                qual = fn.name
                p = parent_of.get(id(fn))
                while p is not None and not isinstance(p, ast.Module):
                    if isinstance(p, (ast.FunctionDef, ast.AsyncFunctionDef, ast.ClassDef)):
                        qual = p.name + "." + qual
                    p = parent_of.get(id(p))
                key = f"{mod}.{qual}"
                self.funcs[key] = (mod, fn)
                self.by_short.setdefault(fn.name, []).append(key)
                if any("lru_cache" in ast.unparse(d) for d in fn.decorator_list):
                    self.cached.add(key)
                    self.cached.add(f"{mod}.{fn.name}")

    def resolve(self, mod, name):
        """callee key for a dotted call name seen in module `mod`"""
        if name is None:
            return None
        if "." in name:
            m, f = name.split(".", 1)
            if f"{m}.{f}" in self.funcs:
                return f"{m}.{f}"
            return None
        if f"{mod}.{name}" in self.funcs:
            return f"{mod}.{name}"
        return None


class FnAnalysis:
    def __init__(self, pkg, key):
        self.pkg = pkg
        self.key = key
        self.mod, self.fn = pkg.funcs[key]
        a = self.fn.args
        self.params = [x.arg for x in a.posonlyargs + a.args + a.kwonlyargs] + ([a.vararg.arg] if a.vararg else []) + ([a.kwarg.arg] if a.kwarg else [])
        self.sites = []             # (line, kind, text, AV)
        self.mutated_params = set()
        self.returned = None
        self.fields = {}            # unparse(attribute expr) -> AV, for fields of fresh objects assigned in this function

    # ---------------------------------------------------------------- expressions
    def ev(self, e, env):
        if e is None:
            return IMM
        if isinstance(e, ast.Compare):
            # identity-based comparison / membership between objects that may come from DIFFERENT caches: the caches have
            # different sizes and lifetimes, so object identity across them depends on the call history
            vals = [self.ev(e.left, env)] + [self.ev(c, env) for c in e.comparators]
            for op, a_, b_ in zip(e.ops, vals, vals[1:]):
                if isinstance(op, (ast.In, ast.NotIn)):
                    b_ = contents(b_)
                if isinstance(op, (ast.In, ast.NotIn, ast.Is, ast.IsNot)) and a_.kind == "SHARED" and b_.kind == "SHARED" \
                        and a_.params and b_.params and not (a_.params & b_.params):
                    self.sites.append((e.lineno, "identity-across-caches", ast.unparse(e)[:70], AV("SHARED", params=a_.params | b_.params)))
            return IMM
        if isinstance(e, (ast.Constant, ast.JoinedStr, ast.BoolOp, ast.UnaryOp, ast.Lambda, ast.FormattedValue)):
            if isinstance(e, ast.BoolOp):
                v = None
                for x in e.values:
                    v = join(v, self.ev(x, env))
                return v
            return IMM
        if isinstance(e, ast.Name):
            if e.id in env:
                return env[e.id]
            return IMM if e.id in ("True", "False", "None") else (UNK if e.id in self.params else AV("GLOBAL"))
        if isinstance(e, (ast.List, ast.Set, ast.Tuple)):
            v = None
            for x in e.elts:
                v = join(v, self.ev(x.value if isinstance(x, ast.Starred) else x, env) if not isinstance(x, ast.Starred) else contents(self.ev(x.value, env)))
            if isinstance(e, ast.Tuple) and (v is None or v.kind == "IMM"):
                return IMM
            if isinstance(e, ast.Tuple) and not any(isinstance(x, ast.Starred) for x in e.elts):
                return AV("TUPLE", elem=tuple(self.ev(x, env) for x in e.elts))
            return FRESH(v if v is not None else DEEP)
        if isinstance(e, ast.Dict):
            v = None
            for x in list(e.values) + [k for k in e.keys if k is not None]:
                v = join(v, self.ev(x, env))
            return FRESH(v if v is not None else DEEP)
        if isinstance(e, (ast.ListComp, ast.SetComp, ast.GeneratorExp, ast.DictComp)):
            env2 = dict(env)
            for g in e.generators:
                self.bind_iter(g.target, g.iter, env2)
            v = self.ev(e.value if isinstance(e, ast.DictComp) else e.elt, env2)
            if isinstance(e, ast.DictComp):
                v = join(v, self.ev(e.key, env2))
            return FRESH(v)
        if isinstance(e, ast.BinOp):
            a, b = self.ev(e.left, env), self.ev(e.right, env)
            if a.kind == "IMM" and b.kind == "IMM":
                return IMM
            return FRESH(join(contents(a), contents(b)))     # list + list, set | set: fresh container, same elements
        if isinstance(e, ast.IfExp):
            return join(self.ev(e.body, env), self.ev(e.orelse, env))
        if isinstance(e, ast.NamedExpr):
            v = self.ev(e.value, env)
            self.bind(e.target, v, env)
            return v
        if isinstance(e, ast.Starred):
            return self.ev(e.value, env)
        if isinstance(e, ast.Attribute):
            key = ast.unparse(e)
            if key in self.fields:
                return self.fields[key]
            d = dotted(e)
            if d and d.split(".")[0] not in env and d.split(".")[0] not in self.params:
                return AV("GLOBAL")       # module attribute (constants.X, ast.Load, ...)
            if e.attr in ("id", "name", "attr", "arg", "module", "asname", "lineno", "col_offset", "end_lineno", "end_col_offset", "level", "kind", "type_comment", "is_async"):
                return IMM          # str / int valued fields of AST nodes
            base = self.ev(e.value, env)
            if base.kind == "FRESH" and base.fields is not None and e.attr in base.fields:
                return base.fields[e.attr]
            return contents(base)
        if isinstance(e, ast.Subscript):
            b = self.ev(e.value, env)
            if isinstance(e.slice, ast.Slice):
                return FRESH(contents(b)) if b.kind != "IMM" else IMM     # a slice is a new list of the same elements
            if b.kind == "TUPLE" and isinstance(e.slice, ast.Constant) and isinstance(e.slice.value, int) and -len(b.elem) <= e.slice.value < len(b.elem):
                return b.elem[e.slice.value]
            return contents(b)
        if isinstance(e, ast.Await):
            return self.ev(e.value, env)
        if isinstance(e, ast.Call):
            return self.call(e, env)
        if isinstance(e, (ast.Yield, ast.YieldFrom)):
            return UNK
        return UNK

    def call(self, e, env):
        d = dotted(e.func)
        args = [self.ev(a.value if isinstance(a, ast.Starred) else a, env) for a in e.args]
        kwargs = {k.arg: self.ev(k.value, env) for k in e.keywords}
        allargs = args + list(kwargs.values())
        if d in ("copy.deepcopy",):
            return DEEP
        if d == "copy.copy":
            return FRESH(contents(args[0])) if args else UNK
        if d and d in IMM_CALLS:
            return IMM
        if d and (d in COPY_SPINE):
            return FRESH(contents(args[0])) if args else FRESH(DEEP)
        if d and d.startswith("collections.defaultdict"):
            return FRESH(FRESH(None))       # elements are created by the container's own factory: fresh
        if d == "ast.parse":
            return DEEP
        if d == "ast.copy_location" and args:
            return args[0]
        if d in ("ast.fix_missing_locations",) and args:
            return args[0]
        is_ctor = (d and d.startswith("ast.") and isinstance(getattr(ast, d[4:], None), type)) or (isinstance(e.func, ast.Call) and dotted(e.func.func) == "type")
        if is_ctor:
            v = None
            for a in allargs:
                v = join(v, a)
            out = FRESH(v if v is not None else DEEP)
            if not e.args and d:
                out.fields = dict(kwargs)
            return out
        callee = self.pkg.resolve(self.mod, d)
        if callee and (callee in self.pkg.cached):
            # a cached function may still write through what it is given (compile_template visits the nodes passed as wildcards)
            s0 = self.pkg.summaries.get(callee)
            if s0 is not None and s0.mutates:
                for pname, (val, expr) in self.bind_args(callee, s0, e, args, kwargs).items():
                    if pname in s0.mutates:
                        self.write(e.lineno, f"call:{callee}({pname})", ast.unparse(expr)[:60], val)
            return AV("SHARED", params={callee})      # params field = which caches the object may come from
        if d in PASS_THROUGH or (d and d.split(".")[-1] in ("walk", "walk_wildcard", "walk_sequence", "filter_nodes")):
            v = None
            for a in allargs:
                v = join(v, a)
            if v is None:
                return UNK
            # iterators / tuples over parts of the argument
            return v if v.kind in ("SHARED", "PARAM", "UNK") else FRESH(contents(v)) if v.kind == "FRESH" else v
        if callee:
            s = self.pkg.summaries.get(callee)
            if s is not None:
                # writes through parameters at this call site
                fnode = self.pkg.funcs[callee][1]
                bound = self.bind_args(callee, s, e, args, kwargs)
                for pname in s.mutates:
                    if pname in bound:
                        self.write(e.lineno, f"call:{callee}({pname})", ast.unparse(bound[pname][1])[:60], bound[pname][0])
                r = s.returns
                if r is None:
                    return IMM

                def subst(r_):
                    if r_ is None:
                        return IMM
                    if r_.kind == "PARAM":
                        v_ = None
                        for pn in r_.params:
                            v_ = join(v_, bound[pn][0] if pn in bound else UNK)
                        return v_ if v_ is not None else UNK
                    if r_.kind == "TUPLE":
                        return AV("TUPLE", elem=tuple(subst(x) for x in r_.elem))
                    if r_.kind == "FRESH":
                        out_ = FRESH(subst(r_.elem) if r_.elem is not None else None)
                        if r_.fields is not None:
                            out_.fields = {k_: subst(v_) for k_, v_ in r_.fields.items()}
                        return out_
                    return r_
                return subst(r)
                if r.kind == "PARAM":
                    v = None
                    for pname in r.params:
                        if pname in bound:
                            v = join(v, bound[pname][0])
                        else:
                            v = join(v, UNK)
                    return v if v is not None else UNK
                if r.kind == "FRESH" and r.elem is not None and r.elem.kind == "PARAM":
                    v = None
                    for pname in r.elem.params:
                        v = join(v, bound[pname][0] if pname in bound else UNK)
                    return FRESH(contents(v) if v is not None and v.kind == "FRESH" else v)
                return r
            return UNK
        if isinstance(e.func, ast.Attribute):
            recv = self.ev(e.func.value, env)
            m = e.func.attr
            if recv.kind == "GLOBAL" and m[0:1].isupper():
                return FRESH(None)      # constructor of a library class: argparse.ArgumentParser(...), difflib.Differ(), ...
            if m in ("copy",):
                return FRESH(contents(recv))
            if m in ("items", "keys", "values", "get", "pop", "popitem", "setdefault", "most_common", "union", "intersection", "difference", "__getitem__", "popleft"):
                return contents(recv) if m in ("get", "pop", "setdefault", "popleft") else FRESH(contents(recv))
            if m in ("split", "splitlines", "join", "format", "strip", "rstrip", "lstrip", "lower", "upper", "replace", "startswith", "endswith", "count", "index", "find", "group", "groups",
                     "encode", "decode", "expandtabs", "isidentifier", "title", "read", "read_text", "resolve", "absolute", "is_file", "is_dir", "rglob", "search", "match", "finditer", "findall", "sub"):
                return IMM if m not in ("split", "splitlines", "groups", "finditer", "findall", "rglob") else FRESH(IMM)
            if recv.kind in ("SHARED", "PARAM"):
                return recv if m not in MUTATORS else IMM
            if recv.kind in ("FRESH", "DEEP") and m not in MUTATORS:
                c = contents(recv)
                return c if c.kind in ("SHARED", "PARAM", "UNK") else FRESH(None)     # something owned by a fresh object
            return UNK if m not in MUTATORS else IMM
        if d and d.split(".")[-1][0:1].isupper():
            return FRESH(None)          # constructor of a class (argparse.ArgumentParser, collections.Counter, Path, ...)
        return UNK

    # ---------------------------------------------------------------- binding and writes
    def iter_positions(self, it, env):
        """per-position abstract values of the items of zip(...) / enumerate(...) / d.items(); None if not of that form"""
        if isinstance(it, ast.Call):
            d = dotted(it.func)
            if d == "zip" and it.args and not it.keywords:
                return [contents(self.ev(a, env)) for a in it.args]
            if d == "enumerate" and it.args:
                inner = self.iter_positions(it.args[0], env)
                return [IMM, (AV("TUPLE", elem=tuple(inner)) if inner else contents(self.ev(it.args[0], env)))]
            if isinstance(it.func, ast.Attribute) and it.func.attr == "items" and not it.args:
                c = contents(self.ev(it.func.value, env))
                return [c, c]
            if d in ("sorted", "list", "reversed", "tuple") and it.args:
                return self.iter_positions(it.args[0], env)
        return None

    def bind_iter(self, target, it, env):
        pos = self.iter_positions(it, env)
        if pos is not None and isinstance(target, (ast.Tuple, ast.List)) and len(target.elts) == len(pos) and not any(isinstance(t, ast.Starred) for t in target.elts):
            for t, v in zip(target.elts, pos):
                if v.kind == "TUPLE":
                    if isinstance(t, (ast.Tuple, ast.List)) and len(t.elts) == len(v.elem):
                        for t2, v2 in zip(t.elts, v.elem):
                            self.bind(t2, v2, env)
                    else:
                        j = None
                        for x in v.elem:
                            j = join(j, x)
                        self.bind(t, j, env)
                else:
                    self.bind(t, v, env)
            return
        self.bind(target, contents(self.ev(it, env)), env)

    def bind(self, target, v, env):
        if isinstance(target, ast.Name):
            env[target.id] = v
        elif isinstance(target, (ast.Tuple, ast.List)):
            if v.kind == "TUPLE" and len(v.elem) == len(target.elts) and not any(isinstance(t, ast.Starred) for t in target.elts):
                for t, x in zip(target.elts, v.elem):
                    self.bind(t, x, env)
                return
            for t in target.elts:
                self.bind(t.value if isinstance(t, ast.Starred) else t, contents(v) if not isinstance(t, ast.Starred) else FRESH(contents(v)), env)
        elif isinstance(target, ast.Starred):
            self.bind(target.value, v, env)

    def write(self, line, kind, text, recv):
        if text.startswith(("sys.", "os.")):      # interpreter state, not a pyrefact cache
            return
        for k, site in enumerate(self.sites):
            if site[:3] == (line, kind, text):       # same site seen again (loop fixpoint): keep the join
                self.sites[k] = (line, kind, text, join(site[3], recv))
                break
        else:
            self.sites.append((line, kind, text, recv))
        if recv.kind == "PARAM":
            self.mutated_params |= set(recv.params)

    def store(self, target, value_av, env, line):
        if isinstance(target, ast.Attribute):
            recv = self.ev(target.value, env)
            self.write(line, "attr-store", ast.unparse(target)[:60], recv)
            if recv.kind in ("FRESH", "DEEP"):
                self.fields[ast.unparse(target)] = value_av
                if recv.fields is not None:
                    recv.fields[target.attr] = value_av
                if recv.kind == "FRESH" and isinstance(target.value, ast.Name):
                    env[target.value.id] = FRESH(join(recv.elem, value_av) if value_av.kind in ("SHARED", "PARAM", "UNK") else recv.elem)
        elif isinstance(target, ast.Subscript):
            recv = self.ev(target.value, env)
            self.write(line, "item-store", ast.unparse(target)[:60], recv)
            if recv.kind == "FRESH" and isinstance(target.value, ast.Name):
                env[target.value.id] = FRESH(join(recv.elem, value_av))
        elif isinstance(target, (ast.Tuple, ast.List)):
            for t in target.elts:
                self.store(t, contents(value_av), env, line)
        elif isinstance(target, ast.Name):
            env[target.id] = value_av
        elif isinstance(target, ast.Starred):
            self.store(target.value, value_av, env, line)

    def effects(self, e, env):
        """write effects of calls inside an expression (mutating methods, ast helpers, visit)"""
        for n in ast.walk(e):
            if not isinstance(n, ast.Call):
                continue
            d = dotted(n.func)
            if isinstance(n.func, ast.Attribute) and n.func.attr in MUTATORS:
                recv = self.ev(n.func.value, env)
                if recv.kind != "IMM" and not (recv.kind == "GLOBAL"):
                    self.write(n.lineno, "mut-call", ast.unparse(n.func)[:60], recv)
                elif recv.kind == "GLOBAL" and not ast.unparse(n.func).startswith(("sys.", "logger.", "os.")):
                    self.write(n.lineno, "mut-call-global", ast.unparse(n.func)[:60], UNK)
                # what is inserted becomes part of the container
                if isinstance(n.func.value, ast.Name) and n.func.value.id in env and n.args and n.func.attr in ("append", "add", "insert", "extend", "update", "appendleft", "setdefault"):
                    cur = env[n.func.value.id]
                    if cur.kind == "FRESH":
                        ins = self.ev(n.args[-1], env)
                        if n.func.attr in ("extend", "update"):
                            ins = contents(ins)
                        env[n.func.value.id] = FRESH(join(cur.elem, ins))
            elif d in ("ast.fix_missing_locations", "ast.increment_lineno") and n.args:
                self.write(n.lineno, d, ast.unparse(n.args[0])[:60], self.ev(n.args[0], env))
            elif d == "ast.copy_location" and n.args:
                self.write(n.lineno, d, ast.unparse(n.args[0])[:60], self.ev(n.args[0], env))
            elif isinstance(n.func, ast.Attribute) and n.func.attr in ("visit", "generic_visit") and n.args and not isinstance(n.func.value, ast.Name) or \
                    (isinstance(n.func, ast.Attribute) and n.func.attr == "visit" and n.args and isinstance(n.func.value, ast.Name) and n.func.value.id not in ("self",)):
                # a transformer class of the package that defines its own visit(): use what that method does to its argument
                own = None
                if isinstance(n.func.value, ast.Name) and n.func.attr == "visit":
                    for st_ in ast.walk(self.fn):
                        if isinstance(st_, ast.Assign) and len(st_.targets) == 1 and isinstance(st_.targets[0], ast.Name) and st_.targets[0].id == n.func.value.id \
                                and isinstance(st_.value, ast.Call) and isinstance(st_.value.func, ast.Name):
                            key_ = f"{self.mod}.{st_.value.func.id}.visit"
                            if key_ in self.pkg.summaries:
                                own = self.pkg.summaries[key_]
                if own is not None:
                    pnames = [p_ for p_ in own.params if p_ != "self"]
                    if pnames and pnames[0] in own.mutates:
                        self.write(n.lineno, "transformer.visit", ast.unparse(n)[:60], self.ev(n.args[0], env))
                else:
                    self.write(n.lineno, "transformer.visit", ast.unparse(n)[:60], self.ev(n.args[0], env))
            elif d in ("setattr",) and n.args:
                self.write(n.lineno, "setattr", ast.unparse(n.args[0])[:60], self.ev(n.args[0], env))

    def bind_args(self, callee, s, e, args, kwargs):
        """parameter name -> (abstract value, argument expression); keyword arguments that name no parameter go to the **kwargs parameter,
        surplus positional arguments to the *args parameter (joined)"""
        fnode = self.pkg.funcs[callee][1]
        a = fnode.args
        named = [x.arg for x in a.posonlyargs + a.args]
        kwonly = [x.arg for x in a.kwonlyargs]
        bound = {}
        for i, v in enumerate(args):
            if i < len(named):
                bound[named[i]] = (v, e.args[i])
            elif a.vararg:
                old_ = bound.get(a.vararg.arg)
                bound[a.vararg.arg] = (join(old_[0], v) if old_ else v, e.args[i])
        for k, v in kwargs.items():
            expr = next(kw.value for kw in e.keywords if kw.arg == k)
            if k in named or k in kwonly or k is None:
                bound[k if k is not None else (a.kwarg.arg if a.kwarg else "**")] = (v, expr)
            elif a.kwarg:
                old_ = bound.get(a.kwarg.arg)
                bound[a.kwarg.arg] = (join(old_[0], v) if old_ else v, expr)
            else:
                bound[k] = (v, expr)
        return bound

    # ---------------------------------------------------------------- statements
    def block(self, stmts, env):
        for st in stmts:
            env = self.stmt(st, env)
        return env

    def stmt(self, st, env):
        if isinstance(st, (ast.Assign, ast.AnnAssign)):
            if st.value is None:
                return env
            self.effects(st.value, env)
            v = self.ev(st.value, env)
            for t in (st.targets if isinstance(st, ast.Assign) else [st.target]):
                self.store(t, v, env, st.lineno)
            return env
        if isinstance(st, ast.AugAssign):
            self.effects(st.value, env)
            if isinstance(st.target, (ast.Attribute, ast.Subscript)):
                self.write(st.lineno, "aug-store", ast.unparse(st.target)[:60], self.ev(st.target.value, env))
            elif isinstance(st.target, ast.Name):
                cur = env.get(st.target.id, UNK)
                if cur.kind not in ("IMM",):
                    # x += [..] mutates a list in place
                    if cur.kind in ("SHARED", "PARAM"):
                        self.write(st.lineno, "aug-assign-inplace", st.target.id, cur)
                    if cur.kind == "FRESH":
                        env[st.target.id] = FRESH(join(cur.elem, contents(self.ev(st.value, env))))
            return env
        if isinstance(st, ast.Delete):
            for t in st.targets:
                if isinstance(t, (ast.Attribute, ast.Subscript)):
                    self.write(st.lineno, "del", ast.unparse(t)[:60], self.ev(t.value, env))
            return env
        if isinstance(st, ast.Expr):
            self.effects(st.value, env)
            if isinstance(st.value, (ast.Yield, ast.YieldFrom)) and st.value.value is not None:
                v = self.ev(st.value.value, env)
                self.returned = join(self.returned, v if isinstance(st.value, ast.Yield) else contents(v))
            else:
                self.ev(st.value, env)
            return env
        if isinstance(st, ast.Return):
            if st.value is not None:
                self.effects(st.value, env)
                self.returned = join(self.returned, self.ev(st.value, env))
            return env
        if isinstance(st, ast.If):
            self.effects(st.test, env)
            self.ev(st.test, env)
            e1 = self.block(st.body, dict(env))
            e2 = self.block(st.orelse, dict(env))
            return self.join_env(e1, e2)
        if isinstance(st, (ast.For, ast.AsyncFor)):
            self.effects(st.iter, env)
            for _ in range(3):
                e1 = dict(env)
                self.bind_iter(st.target, st.iter, e1)
                e1 = self.block(st.body, e1)
                new = self.join_env(env, e1)
                if new == env:
                    break
                env = new
            return self.block(st.orelse, env)
        if isinstance(st, ast.While):
            for _ in range(3):
                self.effects(st.test, env)
                e1 = self.block(st.body, dict(env))
                new = self.join_env(env, e1)
                if new == env:
                    break
                env = new
            return self.block(st.orelse, env)
        if isinstance(st, (ast.With, ast.AsyncWith)):
            for item in st.items:
                self.effects(item.context_expr, env)
                if item.optional_vars is not None:
                    self.bind(item.optional_vars, FRESH(IMM), env)
            return self.block(st.body, env)
        if isinstance(st, ast.Try):
            e1 = self.block(st.body, dict(env))
            envs = [e1]
            for h in st.handlers:
                eh = dict(self.join_env(env, e1))
                if h.name:
                    eh[h.name] = FRESH(IMM)
                envs.append(self.block(h.body, eh))
            out = envs[0]
            for x in envs[1:]:
                out = self.join_env(out, x)
            out = self.block(st.orelse, out)
            return self.block(st.finalbody, out)
        if isinstance(st, (ast.FunctionDef, ast.AsyncFunctionDef, ast.ClassDef)):
            env[st.name] = IMM
            return env
        if isinstance(st, (ast.Import, ast.ImportFrom, ast.Pass, ast.Break, ast.Continue, ast.Global, ast.Nonlocal, ast.Raise, ast.Assert)):
            return env
        if isinstance(st, ast.Match):
            out = None
            for c in st.cases:
                out = self.join_env(out, self.block(c.body, dict(env))) if out is not None else self.block(c.body, dict(env))
            return out or env
        return env

    def join_env(self, a, b):
        out = {}
        for k in set(a) | set(b):
            if k in a and k in b:
                out[k] = join(a[k], b[k])
            else:
                out[k] = a.get(k) or b.get(k)
        return out

    def run(self, outer_env=None):
        env = dict(outer_env or {})
        self.final_env = env
        for p in self.params:
            env[p] = IMM if p in ("source", "filename", "name", "variable", "pattern", "repl", "max_line_length", "line_length", "safe", "keep_imports", "n_cores", "max_passes",
                                  "transaction", "expand_first", "expand_last", "yield_match", "count", "private", "static", "uppercase") else PARAM({p})
        self.final_env = self.block(self.fn.body, env)
        return self


def analyse():
    pkg = Package()
    for key in pkg.funcs:
        s = Summary()
        s.params = FnAnalysis(pkg, key).params
        pkg.summaries[key] = s
    results = {}
    for rnd in range(4):
        changed = False
        for key in pkg.funcs:
            try:
                parent = key.rsplit(".", 1)[0]
                outer = results[parent].final_env if parent in results and parent != key.split(".")[0] else None
                a = FnAnalysis(pkg, key).run(outer)
            except RecursionError:
                continue
            s = pkg.summaries[key]
            if a.mutated_params != s.mutates or a.returned != s.returns:
                changed = True
                s.mutates = set(a.mutated_params)
                s.returns = a.returned
            results[key] = a
        if not changed:
            break
    return pkg, results
