"""Check driver: runs the deductive units and bounded stand-ins of one property, applies the known-findings
file, writes replay files and the evidence file, prints VIOLATION / KNOWN-FINDING lines, returns the exit code.

exit 0 held (known findings printed) | 1 violation (replayed, or no-failing-input-found) | 2 undecided and no
stand-in could decide | 3 checker error (canary / harness failure).  unknown/timeout/traceback never map to 1.
"""
import collections
import json
import os
import re
import sys
import time

VERIF = os.path.dirname(os.path.dirname(os.path.abspath(__file__)))
REPO = os.environ.get("PYREFACT_REPO", "/repo")
# evidence/ and replays/ under /verif describe /repo only: a self-test run against a scratch copy (PYREFACT_REPO) writes elsewhere
OUT = os.environ.get("VERIF_OUT") or (VERIF if os.path.realpath(REPO) == "/repo" else os.path.join("/tmp", "pyvc_selftest_out"))
KNOWN_PATH = os.path.join(VERIF, "known_findings.json")
BASELINE_PATH = os.path.join(VERIF, "baseline", "obligations.json")


def strip_line(name):
    return re.sub(r"@L\d+", "", name)


def load_known():
    if not os.path.exists(KNOWN_PATH):
        return []
    return json.load(open(KNOWN_PATH))["findings"]


def known_match(pid, kind, key, known):
    """kind: 'obligation' (key = obligation name without line) | 'standin' (key = '<standin>::<witness id>')"""
    for f in known:
        if f.get("status") != "open" or f["property"] != pid or f["kind"] != kind:
            continue
        if f["key"] == key:
            return f
    return None


def safe(name):
    out = re.sub(r"[^A-Za-z0-9_.-]+", "_", name)[:150]
    if out != name:
        import hashlib
        out += "-" + hashlib.sha1(name.encode()).hexdigest()[:8]      # distinct keys must not share a replay file
    return out


class Run:
    def __init__(self, pid, tier, seed):
        self.pid = pid
        self.tier = tier
        self.seed = seed
        self.t0 = time.time()
        self.known = load_known()
        self.violations = []       # (key, replay path, tail)
        self.known_hit = []
        self.unit_results = []
        self.extra_results = []    # deductive results from specialised generators (same obligation record format)
        self.standin_results = []
        self.undecided = []
        self.errors = []
        self.replay_dir = os.path.join(OUT, "replays", pid)
        os.makedirs(self.replay_dir, exist_ok=True)
        for f in os.listdir(self.replay_dir):          # replay files of earlier runs are stale
            if f.endswith(".json"):
                try:
                    os.unlink(os.path.join(self.replay_dir, f))
                except OSError:
                    pass

    # ------------------------------------------------------------------ deductive part
    def add_deductive(self, results):
        """results: list of unit result dicts (pyvc.verify.verify_unit_key format)"""
        for r in results:
            self.unit_results.append(r)
            if r.get("undecided"):
                self.undecided.append({"unit": r["unit"], "reason": r["undecided"]})
                if r["undecided"].startswith("engine-error"):
                    # an engine crash is a checker problem unless the stand-ins decide; recorded, never a violation
                    self.errors.append(r["unit"] + ": " + r["undecided"])
            seen = collections.Counter()
            # definite counterexamples from the bounded refutation pass (quantifier-free, with model)
            bmc = (r.get("bmc") or {}).get("counterexamples", [])
            confirmed = set()
            replays = {strip_line(o["name"]): o["replay"] for o in r["obligations"] if o.get("replay")}
            for c in bmc:
                c["key"] = re.sub(r":bmc\d+:", ":", strip_line(c["name"]))
                c["bmc_bound"] = r["bmc"]["bound"]
                if c["key"] in replays and not c.get("replay"):
                    c["replay"] = replays[c["key"]]       # the unbounded model of the same obligation was replayed on the real code
                if c["key"] not in confirmed:
                    if self._new_abstractions(r):
                        continue        # a bounded counterexample found under a new over-approximation is no counterexample either (see below)
                    confirmed.add(c["key"])
                    self._refuted(r, c)
            for o in r["obligations"]:
                base = strip_line(o["name"])
                seen[base] += 1
                o["key"] = base
                if o["status"] == "refuted" and o.get("kind") in ("inv-init", "inv-preserved", "cut"):
                    # a loop invariant / cut fact that is not inductive for this code is a PROOF that does not go through, not a counterexample
                    # to the property: undecided.  What decides is a refuted post / safety / yield obligation or a confirmed bounded counterexample.
                    if base not in confirmed:
                        self.undecided.append({"obligation": o["name"], "reason": "proof artefact (loop invariant / cut fact) not established for this code; the property-level obligations and the bounded pass decide"})
                    continue
                if o["status"] == "refuted":
                    if base in confirmed:
                        continue
                    fresh = self._new_abstractions(r)
                    if fresh and o.get("kind") != "cover":
                        # the code of this unit now uses operations that the executor only over-approximates (an uninterpreted str method can
                        # return ANY string) and did not use on the pinned tree: a model found under such an over-approximation is no
                        # counterexample.  Undecided; the bounded stand-ins decide.
                        self.undecided.append({"obligation": o["name"], "reason": "refuted only under an over-approximation the pinned tree's unit does not use (" + "; ".join(sorted(fresh))[:160] + "): not a counterexample"})
                        continue
                    self._refuted(r, o)
                elif o["status"] == "undecided":
                    if base in confirmed:
                        continue
                    self.undecided.append({"obligation": o["name"], "reason": o.get("reason", "")})

    def _new_abstractions(self, unit_res):
        now = {x for x in unit_res.get("info", {}).get("assumptions", []) if x.startswith("uninterpreted: ")}
        if not now or not os.path.exists(BASELINE_PATH):
            return set()
        base = json.load(open(BASELINE_PATH)).get(self.pid, {}).get("abstractions")
        if base is None or unit_res["unit"] not in base:
            return set()
        return now - set(base[unit_res["unit"]])

    def _refuted(self, unit_res, o):
        key = o["key"]
        if o["kind"] == "cover":
            # a vacuous contract is a checker error, not a property violation
            self.errors.append(f"vacuity: {o['name']}: {o.get('reason')}")
            return
        kf = known_match(self.pid, "obligation", key, self.known)
        if kf:
            self.known_hit.append((kf, o["name"]))
            return
        rp = o.get("replay") or {}
        path = os.path.join(self.replay_dir, safe(key) + ".json")
        doc = {"property": self.pid, "obligation": o["name"], "unit": unit_res["unit"], "backend": o["backend"],
               "found_by": (f"bounded refutation pass, sequence lengths <= {o['bmc_bound']} (definite model of a quantifier-free query)" if "bmc_bound" in o else "unbounded proof attempt (solver model)"),
               "solver_model": o.get("model"), "solver_goal_smt2_tail": o.get("smt2"), "replay": rp,
               "source_sha1": unit_res.get("info", {}).get("sha1"), "repo": REPO}
        with open(path, "w") as f:
            json.dump(doc, f, indent=1, default=str)
        tail = "" if rp.get("reproduced") else " no-failing-input-found"
        self.violations.append((key, path, tail))

    def check_baseline(self, section):
        """every obligation name expected on the pinned tree must still be generated (else undecided:not-generated)"""
        if not os.path.exists(BASELINE_PATH):
            return
        base = json.load(open(BASELINE_PATH)).get(self.pid, {}).get(section)
        if base is None:
            return
        got = collections.Counter()
        for r in self.unit_results + self.extra_results:
            for o in r["obligations"]:
                got[strip_line(o["name"])] += 1
        for name, cnt in base.items():
            if got.get(name, 0) == 0:
                self.undecided.append({"obligation": name, "reason": "not-generated (expected on the pinned tree)"})

    # ------------------------------------------------------------------ stand-ins
    def add_standin(self, res):
        """res: dict(name, function, contract, space, bound, evaluations, distinct_nontrivial, exhaustive, failures=[...],
        samples=[...]).  Each failure: dict(id, input, observed, required)."""
        self.standin_results.append(res)
        for fl in res.get("failures", []):
            key = f"{res['name']}::{fl['id']}"
            kf = known_match(self.pid, "standin", key, self.known) or known_match(self.pid, "standin", f"{res['name']}::class:{fl.get('cls')}", self.known)
            if kf:
                self.known_hit.append((kf, key))
                continue
            path = os.path.join(self.replay_dir, safe(key) + ".json")
            with open(path, "w") as f:
                json.dump({"property": self.pid, "standin": res["name"], "function": res.get("function"), "contract": res.get("contract"),
                           "failure": fl, "repo": REPO, "replay": {"reproduced": True, "how": "the stand-in executes the real code on this input"}}, f, indent=1, default=str)
            self.violations.append((key, path, ""))
        if res.get("error"):
            self.errors.append(f"standin {res['name']}: {res['error']}")

    # ------------------------------------------------------------------ finish
    def finish(self, meta):
        """meta: level, explanation, trusted_base, assumptions, checker_cmd, functions (optional)"""
        obls = [o for r in self.unit_results + self.extra_results for o in r["obligations"]]
        n_obl = len(obls)
        n_dis = sum(1 for o in obls if o["status"] == "discharged")
        by_backend = collections.Counter(o["backend"] for o in obls if o["status"] == "discharged")
        solver_time = round(sum(o.get("time_s", 0) for o in obls), 3)
        known_printed = set()
        for kf, what in self.known_hit:
            if kf["id"] not in known_printed:
                known_printed.add(kf["id"])
                print(f"KNOWN-FINDING: property={self.pid} {kf['id']} {kf['what']}")
        # listed findings that no check of this run generates (recorded from reports, witness in known_findings.json) are printed as well:
        # they suppress nothing, since no failure key can match them
        for kf in self.known:
            if kf.get("property") == self.pid and kf.get("status") == "open" and kf["id"] not in known_printed and str(kf.get("key", "")).startswith("(not generated"):
                known_printed.add(kf["id"])
                print(f"KNOWN-FINDING: property={self.pid} {kf['id']} {kf['what']}")
        seen = set()
        for key, path, tail in self.violations:
            if key in seen:
                continue
            seen.add(key)
            print(f"VIOLATION property={self.pid} replay={path}{tail}")
        level = meta["level"]
        all_discharged = n_obl > 0 and n_dis == n_obl and not self.undecided
        if level == "proof" and not all_discharged:
            level = "other"
        functions = []
        for r in self.unit_results + self.extra_results:
            functions.append({"unit": r.get("unit_name", r["unit"]), "sha1": r.get("info", {}).get("sha1"), "lines": r.get("info", {}).get("lines"),
                              "obligations": len(r["obligations"]), "discharged": sum(1 for o in r["obligations"] if o["status"] == "discharged"),
                              "undecided": r.get("undecided"), "note": r.get("note", ""),
                              "bounded_refutation_pass": ({k: v for k, v in r["bmc"].items() if k != "counterexamples"} | {"counterexamples": len(r["bmc"]["counterexamples"])}) if r.get("bmc") else r.get("bmc_note")})
        assumptions = set(meta.get("assumptions", []))
        dropped = set()
        for r in self.unit_results + self.extra_results:
            for a in r.get("info", {}).get("assumptions", []):
                assumptions.add(f"{r['unit']}: {re.sub(r'![0-9]+', '', a)}")
            for d in r.get("info", {}).get("dropped", []):
                dropped.add(d)
        if dropped:
            assumptions.add("extraction drops: " + "; ".join(sorted(dropped)) + "; docstrings; type annotations; lru_cache/wraps decorators")
        samples = []
        for o in obls[:400]:
            if o.get("smt2") and len(samples) < 3:
                samples.append({"obligation": o["name"], "status": o["status"], "backend": o["backend"], "smt2_tail": o["smt2"][-700:]})
        for s_ in self.standin_results:
            for x in s_.get("samples", [])[:2]:
                samples.append({"standin": s_["name"], "case": x})
        if not samples:
            samples = [{"obligation": o["name"], "status": o["status"]} for o in obls[:3]]
        evals = sum(s_.get("evaluations", 0) for s_ in self.standin_results)
        dn = sum(s_.get("distinct_nontrivial", 0) for s_ in self.standin_results)
        cov = {
            "obligations": n_obl, "discharged": n_dis, "by_backend": dict(by_backend), "solver_time_s": solver_time,
            "functions_under_contract": functions,
            "undecided": self.undecided[:50],
            "refuted": [{"key": k, "replay": p} for k, p, _ in self.violations][:50],
            "known_findings_hit": sorted(known_printed),
            "bounded": [{k: v for k, v in s_.items() if k not in ("failures", "samples")} | {"failures": len(s_.get("failures", []))} for s_ in self.standin_results],
            "evaluations": max(evals, n_obl), "distinct_nontrivial": max(dn, len({o["key"] for o in obls if o["kind"] != "cover"})),
            "rule": meta.get("rule", "deductive: one obligation per (function, kind, label, path); distinct = distinct obligation names excluding vacuity covers. bounded stand-ins: see coverage.bounded[*].space; evaluations/distinct_nontrivial are stand-in totals when stand-ins ran"),
            "samples": samples,
            "checker_cmd": meta.get("checker_cmd", f"./check {self.pid} --tier {self.tier}"),
            "trusted_base": meta.get("trusted_base", []),
            "explanation": meta.get("explanation", ""),
            "exhaustive": False,
        }
        ev = {"property_id": self.pid, "tier": self.tier, "seed": self.seed, "level": level, "coverage": cov,
              "assumptions": sorted(assumptions), "wall_s": round(time.time() - self.t0, 2), "violations": len(seen)}
        os.makedirs(os.path.join(OUT, "evidence"), exist_ok=True)
        out = os.path.join(OUT, "evidence", f"{self.pid}.json")
        try:
            import jsonschema
            jsonschema.validate(ev, json.load(open("/root/.vp/EVIDENCE.schema.json")))
        except ImportError:
            pass
        except Exception as ex:
            self.errors.append(f"evidence does not validate: {str(ex)[:300]}")
        with open(out, "w") as f:
            json.dump(ev, f, indent=1, default=str)
        print(f"[{self.pid}] tier={self.tier} obligations={n_obl} discharged={n_dis} undecided={len(self.undecided)} "
              f"standin_evals={evals} violations={len(seen)} known={len(known_printed)} wall={ev['wall_s']}s")
        if seen:
            return 1
        if self.errors:
            for e_ in self.errors[:10]:
                print("CHECKER-ERROR:", e_, file=sys.stderr)
            return 3
        if n_obl == 0 and not self.standin_results:
            print("CHECKER-ERROR: zero obligations generated", file=sys.stderr)
            return 3
        if self.undecided:
            decided_by_standin = any(s_.get("evaluations", 0) > 0 for s_ in self.standin_results)
            for u in self.undecided[:10]:
                print("UNDECIDED:", json.dumps(u)[:300], file=sys.stderr)
            return 0 if decided_by_standin else 2
        return 0
