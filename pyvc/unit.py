"""Contract units: one record per real function (or mechanically located statement slice) under contract."""
import ast
import hashlib
import os

REPO = os.environ.get("PYREFACT_REPO", "/repo")


class NotGenerated(Exception):
    """the sidecar cannot bind to the source (function/slice/loop gone or renamed) -> undecided(not-generated)"""


_src_cache = {}


def module_source(module):
    path = os.path.join(REPO, "pyrefact", module + ".py")
    if path not in _src_cache:
        with open(path, encoding="utf-8") as f:
            text = f.read()
        _src_cache[path] = (text, ast.parse(text))
    return _src_cache[path]


def find_def(module, qualname):
    """locate a (possibly nested) def/class by dotted name in the REAL source text"""
    text, tree = module_source(module)
    node = tree
    for part in qualname.split("."):
        found = None
        for n in ast.walk(node) if not isinstance(node, ast.Module) else node.body:
            if isinstance(n, (ast.FunctionDef, ast.AsyncFunctionDef, ast.ClassDef)) and n.name == part and n is not node:
                found = n
                break
        if found is None:
            # nested search (function inside function)
            for n in ast.walk(node):
                if isinstance(n, (ast.FunctionDef, ast.AsyncFunctionDef, ast.ClassDef)) and n.name == part and n is not node:
                    found = n
                    break
        if found is None:
            raise NotGenerated(f"{module}.{qualname}: `{part}` not found")
        node = found
    return node, text


def segment_sha(text, nodes):
    if not isinstance(nodes, list):
        nodes = [nodes]
    seg = "\n".join(ast.get_source_segment(text, n) or "" for n in nodes)
    return hashlib.sha1(seg.encode()).hexdigest()


class Unit:
    """
    module, qualname : where the real code lives (pyrefact/<module>.py)
    slice            : None (whole body) or callable(fn_node) -> (list of stmts, label); raises NotGenerated
    params           : {name: shape} symbolic inputs (function parameters and, for slices, free variables)
    requires/ensures : list of (label, expr) ; expr is a Python expression string evaluated by the same
                       symbolic evaluator as the code (plus forall/exists/implies/old/result) or a callable
    returns          : shape of the result (for modular use at call sites)
    raises           : set of exception names the function may let escape (None = not checked)
    loops            : {syntactic ordinal: {inv: [...], variant: str, declare: {...}}}
    calls            : {callee name: ('contract', Unit) | ('uf', retshape) | ('havoc', retshape) | callable}
    """

    def __init__(self, module, qualname, *, slice=None, params=None, requires=(), ensures=(), returns=None,
                 raises=None, loops=None, calls=None, ghost=None, attrs=None, records=None, consts=None,
                 properties=None, exc_mode=None, props=(), fall_is_return=False, defaults=None,
                 post_hook=None, stmt_hooks=None, subscripts=None, subscript_store=None, raises_spec=None,
                 prune_after=64, lemmas=(), cuts=None, modifies=(), pure=False, yield_ensures=(), local_shapes=None, lenient=False, axiom_arrays=False, event_ensures=(), name=None, covers=True, note=""):
        self.module = module
        self.qualname = qualname
        self.slice = slice
        self.params = dict(params or {})
        self.requires = list(requires)
        self.ensures = list(ensures)
        self.returns = returns
        self.raises = raises
        self.raises_spec = raises_spec or ()
        self.loops = dict(loops or {})
        self.calls = dict(calls or {})
        self.ghost = dict(ghost or {})
        self.attrs = dict(attrs or {})
        self.records = dict(records or {})
        self.consts = dict(consts or {})
        self.properties = dict(properties or {})
        self.exc_mode = dict(exc_mode or {})
        self.props = tuple(props)
        self.fall_is_return = fall_is_return
        self.defaults = dict(defaults or {})
        self.post_hook = post_hook
        self.stmt_hooks = dict(stmt_hooks or {})
        self.subscripts = dict(subscripts or {})
        self.subscript_store = dict(subscript_store or {})
        self.prune_after = prune_after
        self.lemmas = list(lemmas)
        self.cuts = dict(cuts or {})
        self.modifies = tuple(modifies)
        self.pure = pure
        self.lenient = lenient
        self.event_ensures = [(r if isinstance(r, tuple) else (f'ev{k}', r)) for k, r in enumerate(event_ensures)]
        self.axiom_arrays = axiom_arrays
        self.local_shapes = dict(local_shapes or {})
        self.yield_ensures = [(r if isinstance(r, tuple) else (f'y{k}', r)) for k, r in enumerate(yield_ensures)]
        self.covers = covers
        self.note = note
        self.slice_label = None
        self._name = name

    @property
    def name(self):
        if self._name:
            return self._name
        return f"{self.module}.{self.qualname}" + (f"/{self.slice_label}" if self.slice_label else "")

    def requires_items(self):
        for k, r in enumerate(self.requires):
            yield (r if isinstance(r, tuple) else (f"r{k}", r))

    def ensures_items(self):
        for k, r in enumerate(self.ensures):
            yield (r if isinstance(r, tuple) else (f"e{k}", r))
