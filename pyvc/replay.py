"""Replay of solver counter-models on the REAL code (a fresh interpreter with the repository under test first on sys.path)."""
import json
import os
import re
import subprocess
import sys

from .unit import REPO


def call_real(snippet, payload, timeout=60):
    """run `snippet` (reads a JSON payload from stdin into `payload`, must print one JSON line) against the repository under test"""
    code = f"import sys, json\nsys.path.insert(0, {REPO!r})\npayload = json.load(sys.stdin)\n" + snippet
    p = subprocess.run([sys.executable, "-c", code], input=json.dumps(payload), capture_output=True, text=True, timeout=timeout)
    lines = [l for l in p.stdout.strip().splitlines() if l.strip()]
    if p.returncode != 0 or not lines:
        raise RuntimeError((p.stderr or p.stdout)[-300:])
    return json.loads(lines[-1])


def model_int(model, prefix):
    """value of the first model constant whose name starts with `prefix` (fresh names carry a !n suffix)"""
    for k, v in (model or {}).items():
        if re.fullmatch(re.escape(prefix) + r"(!\d+)?", k):
            try:
                return int(str(v).replace("(- ", "-").replace(")", "").replace(" ", ""))
            except ValueError:
                return None
    return None


def replay_range_overlaps(unit, oblig, result):
    m = result.get("model") or {}
    vals = {k: model_int(m, k) for k in ("self.start", "self.end", "other.start", "other.end")}
    if any(v is None for v in vals.values()):
        vals = {k: (v if v is not None else 0) for k, v in vals.items()}
    method = "__and__" if unit.qualname.endswith("__and__") else "overlaps"
    out = call_real(
        "from pyrefact import core\n"
        "a = core.Range(payload['self.start'], payload['self.end']); b = core.Range(payload['other.start'], payload['other.end'])\n"
        f"print(json.dumps({{'got': bool(getattr(a, {method!r})(b))}}))\n", vals)
    a0, a1, b0, b1 = vals["self.start"], vals["self.end"], vals["other.start"], vals["other.end"]
    # the property-level reading: two non-empty ranges overlap iff they share a character; an insertion point conflicts iff strictly inside
    if a0 < a1 and b0 < b1:
        want = max(a0, b0) < min(a1, b1)
    elif a0 == a1 and b0 <= b1:
        want = b0 < a0 < b1
    elif b0 == b1 and a0 <= a1:
        want = a0 < b0 < a1
    else:
        want = a0 < b1 and b0 < a1
    return {"reproduced": out["got"] != want, "input": f"Range({a0}, {a1}).{method}(Range({b0}, {b1}))", "observed": out["got"], "required": want}
