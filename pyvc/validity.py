"""Validity typing (C03): a text-valued function of the package returns VALID text whenever its text parameter is valid.

Judgement  VP(f, i):  "if argument i of f parses, the result of f parses".  Derived per function by a flow-sensitive abstract interpretation
over the real AST (values: VALID / TEXT), inter-procedural through the judgement itself (recursive calls are assumed co-inductively):

    * the designated parameter is VALID at entry (a parameter named `source`, else `new_source`, else the first one);
    * a call g(..., a_i, ...) is VALID if VP(g, i) holds and a_i is VALID;
    * PRIMITIVES carry a contract PROVED by a pyvc unit of C03 (valid-or-unchanged / valid-to-valid): processing.keep_syntax_tree,
      processing._replace_nodes, processing._apply_rewrites, every function decorated with @processing.fix and everything built by
      processing.chain (fix / chain wrapper units);
    * after `if not core.is_valid_python(x): <block that always leaves>` x is VALID; inside `if core.is_valid_python(x):` x is VALID;
    * a conditional expression is VALID if both arms are; everything else (slicing, concatenation, join, re.sub, str methods, unknown calls)
      is TEXT - text the function builds itself, with no guarantee.
Every `return e` must have e VALID.  A function that fails is reported with the return expressions that are TEXT.
"""
import ast
import os

REPO = os.environ.get("PYREFACT_REPO", "/repo")
MODULES = ["core", "processing", "fixes", "performance", "performance_numpy", "performance_pandas", "object_oriented", "abstractions", "symbolic_math", "tracing",
           "parsing", "main", "formatting", "style", "pattern_matching"]
PRIMITIVES = {"processing.keep_syntax_tree": 0, "processing._replace_nodes": 0, "processing._apply_rewrites": 0}
VALID, TEXT = "VALID", "TEXT"


class Pkg:
    def __init__(self):
        self.funcs = {}
        self.chains = set()
        for m in MODULES:
            p = os.path.join(REPO, "pyrefact", m + ".py")
            if not os.path.exists(p):
                continue
            tree = ast.parse(open(p).read())
            for n in tree.body:
                if isinstance(n, (ast.FunctionDef, ast.AsyncFunctionDef)):
                    self.funcs[f"{m}.{n.name}"] = (m, n)
                if isinstance(n, ast.Assign) and isinstance(n.value, ast.Call) and ast.unparse(n.value.func) in ("processing.chain", "chain"):
                    for t in n.targets:
                        if isinstance(t, ast.Name):
                            self.chains.add(f"{m}.{t.id}")
        self.memo = {}
        self.why = {}

    def resolve(self, mod, func):
        if isinstance(func, ast.Name):
            for k in (f"{mod}.{func.id}",):
                if k in self.funcs or k in self.chains:
                    return k
        if isinstance(func, ast.Attribute) and isinstance(func.value, ast.Name):
            k = f"{func.value.id}.{func.attr}"
            if k in self.funcs or k in self.chains or k in PRIMITIVES:
                return k
        return None

    def designated(self, key):
        if key in PRIMITIVES:
            return PRIMITIVES[key]
        if key in self.chains:
            return 0
        _, fn = self.funcs[key]
        names = [a.arg for a in fn.args.posonlyargs + fn.args.args]
        for want in ("source", "new_source"):
            if want in names:
                return names.index(want)
        return 0

    def is_fix(self, key):
        if key in self.chains:
            return True
        if key not in self.funcs:
            return False
        _, fn = self.funcs[key]
        return any(ast.unparse(d).split("(")[0] in ("processing.fix", "fix") for d in fn.decorator_list)

    def vp(self, key, stack=()):
        """True / False, reasons in self.why[key]"""
        if key in PRIMITIVES or self.is_fix(key):
            return True
        if key in self.memo:
            return self.memo[key]
        if key in stack:
            return True                       # co-inductive hypothesis for recursion
        if key not in self.funcs:
            return False
        mod, fn = self.funcs[key]
        it = _Interp(self, mod, fn, key, stack + (key,))
        ok = it.run()
        self.memo[key] = ok
        self.why[key] = it.bad
        return ok


def _leaves(block):
    return bool(block) and isinstance(block[-1], (ast.Return, ast.Raise, ast.Continue, ast.Break))


class _Interp:
    def __init__(self, pkg, mod, fn, key, stack):
        self.pkg, self.mod, self.fn, self.key, self.stack = pkg, mod, fn, key, stack
        self.bad = []
        self.n_returns = 0

    def ev(self, e, env):
        if isinstance(e, ast.Name):
            return env.get(e.id, TEXT)
        if isinstance(e, ast.IfExp):
            return VALID if self.ev(e.body, env) == VALID and self.ev(e.orelse, env) == VALID else TEXT
        if isinstance(e, ast.NamedExpr):
            v = self.ev(e.value, env)
            env[e.target.id] = v
            return v
        if isinstance(e, ast.Call):
            k = self.pkg.resolve(self.mod, e.func)
            if k is not None:
                i = self.pkg.designated(k)
                arg = None
                if i < len(e.args) and not any(isinstance(a, ast.Starred) for a in e.args[:i + 1]):
                    arg = e.args[i]
                elif k in self.pkg.funcs:
                    names = [a.arg for a in self.pkg.funcs[k][1].args.posonlyargs + self.pkg.funcs[k][1].args.args]
                    for kw in e.keywords:
                        if kw.arg == names[i]:
                            arg = kw.value
                if arg is not None and self.ev(arg, env) == VALID and self.pkg.vp(k, self.stack):
                    return VALID
        return TEXT

    def valid_test(self, t):
        """(name, polarity) if t is `core.is_valid_python(name)` / `not core.is_valid_python(name)`"""
        neg = False
        if isinstance(t, ast.UnaryOp) and isinstance(t.op, ast.Not):
            neg, t = True, t.operand
        if isinstance(t, ast.Call) and ast.unparse(t.func) in ("core.is_valid_python", "is_valid_python") and len(t.args) == 1 and isinstance(t.args[0], ast.Name):
            return t.args[0].id, not neg
        return None

    def block(self, stmts, env):
        for s in stmts:
            self.stmt(s, env)

    def assign(self, target, v, env):
        if isinstance(target, ast.Name):
            env[target.id] = v
        elif isinstance(target, (ast.Tuple, ast.List)):
            for t in target.elts:
                self.assign(t.value if isinstance(t, ast.Starred) else t, TEXT, env)

    def stmt(self, s, env):
        if isinstance(s, ast.Assign):
            v = self.ev(s.value, env)
            for t in s.targets:
                self.assign(t, v, env)
        elif isinstance(s, ast.AnnAssign):
            self.assign(s.target, self.ev(s.value, env) if s.value else TEXT, env)
        elif isinstance(s, ast.AugAssign):
            self.assign(s.target, TEXT, env)
        elif isinstance(s, ast.Return):
            self.n_returns += 1
            if s.value is None or self.ev(s.value, env) != VALID:
                self.bad.append((s.lineno, ast.unparse(s.value)[:100] if s.value is not None else "None"))
        elif isinstance(s, ast.If):
            vt = self.valid_test(s.test)
            e1, e2 = dict(env), dict(env)
            if vt:
                (e1 if vt[1] else e2)[vt[0]] = VALID
            self.block(s.body, e1)
            self.block(s.orelse, e2)
            live = [e for e, blk in ((e1, s.body), (e2, s.orelse)) if not _leaves(blk)]
            if not live:
                live = [e1, e2]
            for k in set().union(*[set(e) for e in live]):
                env[k] = VALID if all(e.get(k, TEXT) == VALID for e in live) else TEXT
            for k in list(env):
                if not any(k in e for e in live):
                    env[k] = TEXT
        elif isinstance(s, (ast.For, ast.AsyncFor, ast.While)):
            if isinstance(s, (ast.For, ast.AsyncFor)):
                self.assign(s.target, TEXT, env)
            before = dict(env)
            for _ in range(2):
                body_env = dict(env)
                bad0, n0 = list(self.bad), self.n_returns
                self.block(s.body, body_env)
                for k in set(env) | set(body_env):
                    env[k] = VALID if env.get(k, TEXT) == VALID and body_env.get(k, TEXT) == VALID else TEXT
                if _ == 0:
                    self.bad, self.n_returns = bad0, n0          # the first round only computes the loop-head state
            for k in before:
                env.setdefault(k, TEXT)
            self.block(s.orelse, env)
        elif isinstance(s, (ast.With, ast.AsyncWith)):
            for it in s.items:
                if it.optional_vars is not None:
                    self.assign(it.optional_vars, TEXT, env)
            self.block(s.body, env)
        elif isinstance(s, ast.Try):
            start = dict(env)
            self.block(s.body, env)
            for h in s.handlers:
                he = {k: (VALID if start.get(k) == VALID and env.get(k) == VALID else TEXT) for k in set(start) | set(env)}
                self.block(h.body, he)
                if not _leaves(h.body):
                    for k in set(env) | set(he):
                        env[k] = VALID if env.get(k, TEXT) == VALID and he.get(k, TEXT) == VALID else TEXT
            self.block(s.orelse, env)
            self.block(s.finalbody, env)
        elif isinstance(s, ast.Expr):
            if isinstance(s.value, ast.NamedExpr):
                self.ev(s.value, env)
        elif isinstance(s, ast.Match):
            for c in s.cases:
                self.block(c.body, dict(env))

    def run(self):
        names = [a.arg for a in self.fn.args.posonlyargs + self.fn.args.args]
        i = self.pkg.designated(self.key)
        env = {names[i]: VALID} if names else {}
        self.block(self.fn.body, env)
        if self.n_returns == 0:
            self.bad.append((self.fn.lineno, "no return statement"))
        return not self.bad


if __name__ == "__main__":
    import sys
    pkg = Pkg()
    for k in sorted(pkg.funcs):
        m, fn = pkg.funcs[k]
        names = [a.arg for a in fn.args.args]
        if names and names[0] in ("source",) and fn.returns is not None and ast.unparse(fn.returns) == "str":
            ok = pkg.vp(k)
            print("VP " if ok else "-- ", k, "" if ok else pkg.why.get(k))
