"""Symbolic values and shapes of the pyvc executor.

A *shape* describes the static structure of a Python value; a *value* wraps z3 terms following that shape.

shapes:  'int' | 'bool' | 'none' | 'obj' | 'str' | ('opt', shape) | ('rec', clsname, {field: shape})
         | ('tuple', [shape, ...]) | ('seq', shape) | ('set', leafshape)

Sequences of structured elements are stored as a *struct of arrays* (one z3 array per leaf path) plus a length,
which keeps the generated queries in the array-property fragment.
"""
import itertools
import z3

I = z3.IntSort()
B = z3.BoolSort()
OBJ = z3.DeclareSort("Obj")      # opaque python objects (ast nodes, callables, ...)
STR = z3.DeclareSort("Str")      # python str whose contents are not interpreted (length/char via UFs)

_cnt = itertools.count()

# Bounded (refutation) mode: when BOUND is an int B, sequence lengths are assumed <= B and quantifiers over integer
# (index) variables are expanded over [-1, B+1]; the resulting queries are quantifier-free, so z3 returns definite
# models.  Used only to FIND counterexamples, never to prove.
BOUND = None


def _dom():
    # derived sequences (concatenations) can be up to twice as long as the bounded inputs
    return range(-1, 2 * BOUND + 2)


def QAll(vs, body):
    """z3.ForAll over integer variables, expanded by substitution in bounded mode"""
    if BOUND is None or any(v.sort() != I for v in vs):
        return z3.ForAll(vs, body)
    return z3.And(*[z3.substitute(body, *[(v, z3.IntVal(c)) for v, c in zip(vs, combo)]) for combo in itertools.product(_dom(), repeat=len(vs))])


def QEx(vs, body):
    if BOUND is None or any(v.sort() != I for v in vs):
        return z3.Exists(vs, body)
    return z3.Or(*[z3.substitute(body, *[(v, z3.IntVal(c)) for v, c in zip(vs, combo)]) for combo in itertools.product(_dom(), repeat=len(vs))])


def q_all(n, fn):
    """forall over n integer variables of fn(*vars) (expanded in bounded mode)"""
    if BOUND is None:
        vs = [z3.Int(f"q!{next(_cnt)}") for _ in range(n)]
        return z3.ForAll(vs, fn(*vs))
    return z3.And(*[fn(*[z3.IntVal(c) for c in combo]) for combo in itertools.product(_dom(), repeat=n)])


def q_ex(n, fn):
    if BOUND is None:
        vs = [z3.Int(f"q!{next(_cnt)}") for _ in range(n)]
        return z3.Exists(vs, fn(*vs))
    return z3.Or(*[fn(*[z3.IntVal(c) for c in combo]) for combo in itertools.product(_dom(), repeat=n)])


def fresh(prefix, sort):
    return z3.Const(f"{prefix}!{next(_cnt)}", sort)


strlen = z3.Function("strlen", STR, I)
charat = z3.Function("charat", STR, I, I)
substr = z3.Function("substr", STR, I, I, STR)
tag = z3.Function("tag", OBJ, I)           # type tag of an opaque object
height = z3.Function("height", OBJ, I)     # structural height (for recursion variants)


class V:
    pass


class VInt(V):
    """int; `inf` (z3 Bool or None) marks float('inf') for the extended integers used by count limits"""
    def __init__(s, t, inf=None):
        s.t = t if z3.is_expr(t) else z3.IntVal(t)
        s.inf = inf


class VBool(V):
    def __init__(s, t):
        s.t = t if z3.is_expr(t) else z3.BoolVal(t)


class VNone(V):
    pass


class VObj(V):
    def __init__(s, t):
        s.t = t


class VStr(V):
    def __init__(s, t, lit=None):
        s.t = t
        s.lit = lit


class VOpt(V):
    """Optional[shape]: isnone (z3 Bool) + payload"""
    def __init__(s, isnone, val):
        s.isnone = isnone
        s.val = val


class VTuple(V):
    def __init__(s, items):
        s.items = list(items)


class VRec(V):
    def __init__(s, cls, fields):
        s.cls = cls
        s.fields = dict(fields)


class VSeq(V):
    def __init__(s, arrs, ln, shape):
        s.arrs = arrs
        s.len = ln
        s.shape = shape


class VSet(V):
    """set of leaf values: membership array elem -> Bool"""
    def __init__(s, arr, shape):
        s.arr = arr
        s.shape = shape


class VMap(V):
    """dict with structured keys: keys in insertion order (a VSeq of distinct keys) + lookup as uninterpreted function"""
    def __init__(s, keys, kshape, vshape, name):
        s.keys = keys
        s.kshape = kshape
        s.vshape = vshape
        s.name = name


class VDict(V):
    """mutable dict over leaf keys / leaf values: membership array key -> Bool and value array key -> value (store supported)"""
    def __init__(s, has, val, kshape, vshape):
        s.has = has
        s.val = val
        s.kshape = kshape
        s.vshape = vshape


class VFunc(V):
    """a name that is not bound in the environment (module, function, class)"""
    def __init__(s, name):
        s.name = name


class VLambda(V):
    def __init__(s, node, env):
        s.node = node
        s.env = env


class VPy(V):
    """a concrete python-level helper usable from spec expressions: fn(engine, args, kwargs, env, pc) -> V"""
    def __init__(s, fn):
        s.fn = fn


LEAF_SORT = {"int": I, "bool": B, "obj": OBJ, "str": STR}


def is_leaf(shape):
    return isinstance(shape, str) and shape in LEAF_SORT


def shape_leaves(shape, path=()):
    if is_leaf(shape):
        yield path, shape
    elif shape == "none":
        return
    elif shape[0] == "rec":
        for f, sh in shape[2].items():
            yield from shape_leaves(sh, path + (f,))
    elif shape[0] == "tuple":
        for i, sh in enumerate(shape[1]):
            yield from shape_leaves(sh, path + (i,))
    elif shape[0] == "opt":
        yield path + ("?",), "bool"
        yield from shape_leaves(shape[1], path + ("v",))
    else:
        raise NotImplementedError(f"leaves of {shape}")


def wrap_leaf(kind, t):
    return {"int": VInt, "bool": VBool, "obj": VObj, "str": VStr}[kind](t)


def fresh_val(name, shape):
    if shape == "none":
        return VNone()
    if shape == "xint":          # extended integer: an int or float('inf')
        return VInt(fresh(name, I), inf=fresh(name + "_is_inf", B))
    if is_leaf(shape):
        return wrap_leaf(shape, fresh(name, LEAF_SORT[shape]))
    if shape[0] == "opt":
        return VOpt(fresh(name + "?", B), fresh_val(name + ".v", shape[1]))
    if shape[0] == "rec":
        return VRec(shape[1], {f: fresh_val(f"{name}.{f}", sh) for f, sh in shape[2].items()})
    if shape[0] == "tuple":
        return VTuple([fresh_val(f"{name}.{i}", sh) for i, sh in enumerate(shape[1])])
    if shape[0] == "seq":
        arrs = {p: fresh(f"{name}[{'.'.join(map(str, p))}]", z3.ArraySort(I, LEAF_SORT[k])) for p, k in shape_leaves(shape[1])}
        return VSeq(arrs, fresh(f"len({name})", I), shape[1])
    if shape[0] == "map":
        return VMap(fresh_val(f"keys({name})", ("seq", shape[1])), shape[1], shape[2], f"{name}!{next(_cnt)}")
    if shape[0] == "set":
        return VSet(fresh(f"{name}{{}}", z3.ArraySort(LEAF_SORT[shape[1]], B)), shape[1])
    if shape[0] == "dict":
        return VDict(fresh(f"{name}.has", z3.ArraySort(LEAF_SORT[shape[1]], B)), fresh(f"{name}.val", z3.ArraySort(LEAF_SORT[shape[1]], LEAF_SORT[shape[2]])), shape[1], shape[2])
    raise NotImplementedError(f"fresh {shape}")


def build_from_leaves(shape, get, path=()):
    """build a value of `shape` where get(path, kind) gives the z3 term of each leaf"""
    if shape == "none":
        return VNone()
    if is_leaf(shape):
        return wrap_leaf(shape, get(path, shape))
    if shape[0] == "opt":
        return VOpt(get(path + ("?",), "bool"), build_from_leaves(shape[1], get, path + ("v",)))
    if shape[0] == "rec":
        return VRec(shape[1], {f: build_from_leaves(sh, get, path + (f,)) for f, sh in shape[2].items()})
    if shape[0] == "tuple":
        return VTuple([build_from_leaves(sh, get, path + (i,)) for i, sh in enumerate(shape[1])])
    raise NotImplementedError(f"build {shape}")


def leaves_of(v, shape, path=()):
    """dict path -> z3 term for a value of the given shape"""
    out = {}
    if shape == "none":
        return out
    if is_leaf(shape):
        out[path] = v.t
    elif shape[0] == "opt":
        if isinstance(v, VNone):
            out[path + ("?",)] = z3.BoolVal(True)
            out.update(leaves_of(default_val(shape[1]), shape[1], path + ("v",)))
        elif isinstance(v, VOpt):
            out[path + ("?",)] = v.isnone
            out.update(leaves_of(v.val, shape[1], path + ("v",)))
        else:
            out[path + ("?",)] = z3.BoolVal(False)
            out.update(leaves_of(v, shape[1], path + ("v",)))
    elif shape[0] == "rec":
        for f, sh in shape[2].items():
            out.update(leaves_of(v.fields[f], sh, path + (f,)))
    elif shape[0] == "tuple":
        items = v.items if isinstance(v, VTuple) else list(v.fields.values())
        for i, sh in enumerate(shape[1]):
            out.update(leaves_of(items[i], sh, path + (i,)))
    else:
        raise NotImplementedError(f"leaves_of {shape}")
    return out


def default_val(shape):
    if shape == "int":
        return VInt(0)
    if shape == "bool":
        return VBool(False)
    if shape in ("obj", "str"):
        return wrap_leaf(shape, z3.Const(f"default_{shape}", LEAF_SORT[shape]))
    if shape == "none":
        return VNone()
    if shape[0] == "opt":
        return VOpt(z3.BoolVal(True), default_val(shape[1]))
    if shape[0] == "rec":
        return VRec(shape[1], {f: default_val(sh) for f, sh in shape[2].items()})
    if shape[0] == "tuple":
        return VTuple([default_val(sh) for sh in shape[1]])
    raise NotImplementedError(shape)


def seq_read(seq, idx):
    return build_from_leaves(seq.shape, lambda p, k: z3.Select(seq.arrs[p], idx))


def seq_from_fn(shape, ln, fn):
    """sequence whose element at symbolic index k is fn(k) (a value of `shape`)"""
    k = z3.Int(f"k!{next(_cnt)}")
    elt = fn(k)
    lv = leaves_of(elt, shape)
    arrs = {p: z3.Lambda([k], lv[p]) for p, _ in shape_leaves(shape)}
    return VSeq(arrs, ln, shape)


def seq_literal(shape, items):
    arrs = {}
    for p, kind in shape_leaves(shape):
        a = z3.K(I, leaves_of(default_val(shape), shape)[p])
        for i, it in enumerate(items):
            a = z3.Store(a, i, leaves_of(it, shape)[p])
        arrs[p] = a
    return VSeq(arrs, z3.IntVal(len(items)), shape)


def shape_of(v):
    if isinstance(v, VInt):
        return "int" if v.inf is None else "xint"
    if isinstance(v, VBool):
        return "bool"
    if isinstance(v, VObj):
        return "obj"
    if isinstance(v, VStr):
        return "str"
    if isinstance(v, VNone):
        return "none"
    if isinstance(v, VOpt):
        return ("opt", shape_of(v.val))
    if isinstance(v, VRec):
        return ("rec", v.cls, {f: shape_of(x) for f, x in v.fields.items()})
    if isinstance(v, VTuple):
        return ("tuple", [shape_of(x) for x in v.items])
    if isinstance(v, VSeq):
        return ("seq", v.shape)
    if isinstance(v, VSet):
        return ("set", v.shape)
    if isinstance(v, VMap):
        return ("map", v.kshape, v.vshape)
    if isinstance(v, VDict):
        return ("dict", v.kshape, v.vshape)
    raise NotImplementedError(type(v))


def val_eq(a, b):
    """structural equality of two symbolic values as a z3 Bool (None if the shapes are not comparable)"""
    if isinstance(a, VNone) and isinstance(b, VNone):
        return z3.BoolVal(True)
    if isinstance(a, VNone) and isinstance(b, VOpt):
        return b.isnone
    if isinstance(b, VNone) and isinstance(a, VOpt):
        return a.isnone
    if isinstance(a, VNone) or isinstance(b, VNone):
        if isinstance(a, (VInt, VBool, VObj, VStr, VRec, VTuple, VSeq)) or isinstance(b, (VInt, VBool, VObj, VStr, VRec, VTuple, VSeq)):
            return z3.BoolVal(False)
    if isinstance(a, VOpt) and isinstance(b, VOpt):
        return z3.And(a.isnone == b.isnone, z3.Or(a.isnone, val_eq(a.val, b.val)))
    if isinstance(a, VOpt):
        return z3.And(z3.Not(a.isnone), val_eq(a.val, b))
    if isinstance(b, VOpt):
        return z3.And(z3.Not(b.isnone), val_eq(a, b.val))
    if isinstance(a, VInt) and isinstance(b, VInt):
        if a.inf is None and b.inf is None:
            return a.t == b.t
        ai = a.inf if a.inf is not None else z3.BoolVal(False)
        bi = b.inf if b.inf is not None else z3.BoolVal(False)
        return z3.Or(z3.And(ai, bi), z3.And(z3.Not(ai), z3.Not(bi), a.t == b.t))
    if isinstance(a, VBool) and isinstance(b, VBool):
        return a.t == b.t
    if isinstance(a, VInt) and isinstance(b, VBool):
        return a.t == z3.If(b.t, 1, 0)
    if isinstance(a, VBool) and isinstance(b, VInt):
        return b.t == z3.If(a.t, 1, 0)
    if isinstance(a, (VObj, VStr)) and type(a) is type(b):
        return a.t == b.t
    if isinstance(a, VRec) and isinstance(b, VRec) and a.cls == b.cls:
        return z3.And(*[val_eq(a.fields[f], b.fields[f]) for f in a.fields]) if a.fields else z3.BoolVal(True)
    if isinstance(a, (VTuple, VRec)) and isinstance(b, (VTuple, VRec)):
        ai = a.items if isinstance(a, VTuple) else list(a.fields.values())
        bi = b.items if isinstance(b, VTuple) else list(b.fields.values())
        if len(ai) != len(bi):
            return z3.BoolVal(False)
        return z3.And(*[val_eq(x, y) for x, y in zip(ai, bi)]) if ai else z3.BoolVal(True)
    if isinstance(a, VSeq) and isinstance(b, VSeq) and set(a.arrs) == set(b.arrs):
        body = lambda k: z3.And(*[z3.Select(a.arrs[p], k) == z3.Select(b.arrs[p], k) for p in a.arrs]) if a.arrs else z3.BoolVal(True)
        return z3.And(a.len == b.len, q_all(1, lambda k: z3.Implies(z3.And(0 <= k, k < a.len), body(k))))
    if isinstance(a, VSet) and isinstance(b, VSet):
        return a.arr == b.arr
    return None
