"""pyvc symbolic executor: forward symbolic execution of a Python subset read from the REAL source text.

Loops are cut by sidecar invariants keyed by syntactic loop ordinal, calls are replaced by contracts /
uninterpreted functions / semantic builtin models. Anything outside the subset raises Undecided (never a
violation).  See DESIGN.md section 1.2 for the subset and for what the encoding assumes about Python.
"""
import ast
import z3
from .values import *  # noqa: F401,F403
from . import values as _v


AXIOM_ARRAYS = False      # set by pyvc.verify for the refutation pass
AST_CLASS_IDS = {c: k for k, c in enumerate(sorted((c for c in vars(ast).values() if isinstance(c, type) and issubclass(c, ast.AST)), key=lambda c: c.__name__))}


class Undecided(Exception):
    def __init__(self, what, line=None):
        super().__init__(f"{what}" + (f" @L{line}" if line else ""))
        self.what = what
        self.line = line


class Outcome:
    def __init__(s, kind, env, pc, val=None, exc=None, line=None):
        s.kind = kind   # fall | return | break | continue | raise
        s.env = env
        s.pc = pc
        s.val = val
        s.exc = exc
        s.line = line


class Oblig:
    def __init__(s, name, hyps, goal, line, kind):
        s.name = name
        s.hyps = list(hyps)
        s.goal = goal
        s.line = line
        s.kind = kind


EXC_PARENTS = {
    "IndexError": "LookupError", "KeyError": "LookupError", "LookupError": "Exception",
    "ZeroDivisionError": "ArithmeticError", "OverflowError": "ArithmeticError", "ArithmeticError": "Exception",
    "ValueError": "Exception", "TypeError": "Exception", "AttributeError": "Exception", "StopIteration": "Exception",
    "SyntaxError": "Exception", "RecursionError": "RuntimeError", "RuntimeError": "Exception",
    "NotImplementedError": "RuntimeError", "UnicodeDecodeError": "ValueError", "AssertionError": "Exception",
    "MemoryError": "Exception", "NameError": "Exception", "UnboundLocalError": "NameError",
    "Exception": "BaseException", "KeyboardInterrupt": "BaseException", "SystemExit": "BaseException",
}


def exc_matches(exc, handler_names):
    e = exc
    while e is not None:
        if e in handler_names:
            return True
        e = EXC_PARENTS.get(e)
    return False


MUTATORS = {"append", "extend", "add", "pop", "update", "insert", "clear", "sort", "remove", "discard", "reverse"}

SPEC_FUNCS = {"defined", "forall", "exists", "implies", "iff", "old", "ite", "forall_obj", "exists_obj", "forall_str"}


def loop_ordinals(stmts):
    """pre-order syntactic ordinal of every For/While inside `stmts` (never a visit counter)"""
    out = {}
    k = 0
    for s_ in stmts:
        for n in ast.walk(s_):
            if isinstance(n, (ast.For, ast.While)):
                out[id(n)] = k
                k += 1
    # ast.walk is breadth-first; re-number in source order for stability under nesting changes
    nodes = sorted((n for s_ in stmts for n in ast.walk(s_) if isinstance(n, (ast.For, ast.While))), key=lambda n: (n.lineno, n.col_offset))
    return {id(n): k for k, n in enumerate(nodes)}


class Engine:
    def __init__(self, unit, prefix):
        self.unit = unit
        self.prefix = prefix          # obligation name prefix "<module>.<qualname>[/slice]"
        self.obligs = []
        self.assumptions = set()      # uninterpreted / assumed callees actually used
        self.ufs = {}
        self.spec_depth = 0
        self.pending = []             # pending exceptional edges of the statement being evaluated: (exc, pc, line)
        self.yields = []              # ghost record of generator yields: (value, pc, env, line)
        self.events = []              # ghost events (e.g. file writes): (name, args, pc, line)
        self.loops = {}
        self.axioms = []
        self.dropped = set()          # what extraction dropped (logger calls etc.)
        self.nforks = 0
        self.axiom_arrays = AXIOM_ARRAYS or getattr(unit, "axiom_arrays", False)
        self.havocked = set()
        self.deadline = None
        self.binders = []             # index variables of enclosing comprehensions (contract results become functions of them)

    # ------------------------------------------------------------------ obligations
    def oblige(self, kind, label, pc, goal, line):
        if self.spec_depth:
            return
        name = f"{self.prefix}:{kind}:{label}@L{line}" if label else f"{self.prefix}:{kind}@L{line}"
        self.obligs.append(Oblig(name, list(self.axioms) + list(pc), goal, line, kind))

    def may_raise(self, exc, cond, pc, line, what):
        """operation raises `exc` when `cond` holds.  Depending on the unit: safety obligation or exceptional edge."""
        if self.spec_depth:
            return
        mode = self.unit.exc_mode.get(exc, self.unit.exc_mode.get("*", "oblige"))
        if mode == "oblige":
            self.oblige("safety", f"no-{exc}:{what}", pc, z3.Not(cond), line)
        elif mode == "edge":
            self.pending.append((exc, list(pc) + [cond], line))
        elif mode == "ignore":
            return
        pc.append(z3.Not(cond))

    # ------------------------------------------------------------------ helpers
    def uf(self, name, argsorts, retsort):
        key = (name, tuple(str(s_) for s_ in argsorts), str(retsort))
        if key not in self.ufs:
            self.ufs[key] = z3.Function(name.replace(".", "_"), *argsorts, retsort)
        return self.ufs[key]

    def flatten(self, v):
        if isinstance(v, (VInt, VBool, VObj, VStr)):
            if isinstance(v, VInt) and v.inf is not None:
                return [v.t, v.inf]
            return [v.t]
        if isinstance(v, VNone):
            return []
        if isinstance(v, VOpt):
            return [v.isnone] + self.flatten(v.val)
        if isinstance(v, VRec):
            return [t for f in v.fields.values() for t in self.flatten(f)]
        if isinstance(v, VTuple):
            return [t for f in v.items for t in self.flatten(f)]
        if isinstance(v, VSeq):
            return list(v.arrs.values()) + [v.len]
        if isinstance(v, VSet):
            return [v.arr]
        if isinstance(v, VFunc):
            return [z3.Const("fn_" + v.name.replace(".", "_"), OBJ)]
        raise Undecided(f"flatten {type(v).__name__}")

    def uf_call(self, name, args, retshape):
        flat = [t for a in args for t in self.flatten(a)]
        self.assumptions.add(f"uninterpreted:{name}")
        if is_leaf(retshape):
            f = self.uf(name, [t.sort() for t in flat], LEAF_SORT[retshape])
            return wrap_leaf(retshape, f(*flat) if flat else z3.Const(name.replace(".", "_"), LEAF_SORT[retshape]))
        if retshape == "none":
            return VNone()
        if retshape[0] == "seq":
            arrs = {}
            for p, k in shape_leaves(retshape[1]):
                f = self.uf(f"{name}[{'.'.join(map(str, p))}]", [t.sort() for t in flat], z3.ArraySort(I, LEAF_SORT[k]))
                arrs[p] = f(*flat) if flat else z3.Const(f"{name}[{p}]", z3.ArraySort(I, LEAF_SORT[k]))
            fl = self.uf(f"len_{name}", [t.sort() for t in flat], I)
            ln = fl(*flat) if flat else z3.Const(f"len_{name}", I)
            self.axioms_once(("len>=0", name, str(flat)), z3.And(ln >= 0, ln <= _v.BOUND) if _v.BOUND is not None else ln >= 0)
            return VSeq(arrs, ln, retshape[1])
        # structured result: one UF per leaf
        def get(path, kind):
            f = self.uf(f"{name}.{'.'.join(map(str, path))}", [t.sort() for t in flat], LEAF_SORT[kind])
            return f(*flat) if flat else z3.Const(f"{name}.{path}", LEAF_SORT[kind])
        return build_from_leaves(retshape, get)

    def axioms_once(self, key, fact):
        if not hasattr(self, "_axkeys"):
            self._axkeys = set()
        if key not in self._axkeys:
            self._axkeys.add(key)
            self.axioms.append(fact)

    def truth(self, v):
        if isinstance(v, VBool):
            return v.t
        if isinstance(v, VInt):
            return (v.t != 0) if v.inf is None else z3.Or(v.inf, v.t != 0)
        if isinstance(v, VNone):
            return z3.BoolVal(False)
        if isinstance(v, VSeq):
            return v.len > 0
        if isinstance(v, VStr):
            return strlen(v.t) > 0
        if isinstance(v, VOpt):
            return z3.And(z3.Not(v.isnone), self.truth(v.val))
        if isinstance(v, VObj):
            f = self.uf("truthy", [OBJ], B)
            return f(v.t)
        if isinstance(v, (VRec,)):
            return z3.BoolVal(True)
        if isinstance(v, VTuple):
            return z3.BoolVal(len(v.items) > 0)
        if isinstance(v, VSet):
            f = self.uf("set_nonempty_" + v.shape, [v.arr.sort()], B)
            return f(v.arr)
        raise Undecided(f"truth of {type(v).__name__}")

    def str_const(self, s):
        c = z3.Const("strlit_" + "".join(ch if ch.isalnum() else f"_{ord(ch):x}" for ch in s)[:60] + f"_{len(s)}", STR)
        self.axioms_once(("strlit", s), strlen(c) == len(s))
        for i, ch in enumerate(s[:8]):
            self.axioms_once(("strlit", s, i), charat(c, i) == ord(ch))
        return VStr(c, lit=s)

    def as_int(self, v, pc, line, what="int"):
        if isinstance(v, VInt):
            return v
        if isinstance(v, VBool):
            return VInt(z3.If(v.t, 1, 0))
        if isinstance(v, VOpt):
            self.may_raise("TypeError", v.isnone, pc, line, f"{what}-is-None")
            return self.as_int(v.val, pc, line, what)
        if isinstance(v, VNone):
            self.may_raise("TypeError", z3.BoolVal(True), pc, line, f"{what}-is-None")
            return VInt(0)
        raise Undecided(f"expected int, got {type(v).__name__}", line)

    # ------------------------------------------------------------------ expressions
    def ev(self, e, env, pc):
        m = getattr(self, "ev_" + type(e).__name__, None)
        if not self.unit.lenient or self.spec_depth:
            if m is None:
                raise Undecided(f"expr {type(e).__name__}: {ast.unparse(e)[:60]}", getattr(e, "lineno", None))
            return m(e, env, pc)
        # lenient units (control-flow / guard obligations): an expression outside the subset evaluates to an
        # unconstrained fresh value (over-approximation); every such abstraction is listed in the evidence
        try:
            if m is None:
                raise Undecided(f"expr {type(e).__name__}")
            n_ob, n_pc, n_pend = len(self.obligs), len(pc), len(self.pending)
            return m(e, env, pc)
        except Undecided as ex:
            if m is not None:
                del self.obligs[n_ob:]
                del pc[n_pc:]
                del self.pending[n_pend:]
            self.havocked.add(f"L{getattr(e, 'lineno', '?')}: {ast.unparse(e)[:70]}  [{ex.what[:60]}]")
            return VObj(fresh("havoc", OBJ))

    def ev_Constant(self, e, env, pc):
        if isinstance(e.value, bool):
            return VBool(z3.BoolVal(e.value))
        if isinstance(e.value, int):
            return VInt(z3.IntVal(e.value))
        if e.value is None:
            return VNone()
        if isinstance(e.value, str):
            return self.str_const(e.value)
        raise Undecided(f"const {e.value!r}", e.lineno)

    def ev_Name(self, e, env, pc):
        if e.id in env:
            return env[e.id]
        if e.id in self.unit.consts:
            return self.unit.consts[e.id](self)
        return VFunc(e.id)

    def attr_of(self, base, attr, pc, line):
        if isinstance(base, VRec):
            if attr in base.fields:
                return base.fields[attr]
            prop = self.unit.properties.get(f"{base.cls}.{attr}")
            if prop is not None:
                return prop(self, base, pc, line)
            return VFunc(f"<{base.cls}>.{attr}")
        if isinstance(base, VFunc):
            return VFunc(base.name + "." + attr)
        if isinstance(base, VObj):
            sh = self.unit.attrs.get(attr)
            if sh is None:
                raise Undecided(f"attribute .{attr} of opaque object has no declared shape", line)
            return self.uf_call(f"attr_{attr}", [base], sh) if not callable(sh) else sh(self, base, pc, line)
        if isinstance(base, VOpt):
            self.may_raise("AttributeError", base.isnone, pc, line, f"None.{attr}")
            return self.attr_of(base.val, attr, pc, line)
        if isinstance(base, VTuple) and hasattr(base, "names") and attr in base.names:
            return base.items[base.names.index(attr)]
        raise Undecided(f"attr .{attr} on {type(base).__name__}", line)

    def ev_Attribute(self, e, env, pc):
        if isinstance(e.value, ast.Name) and e.value.id not in env and e.value.id not in self.unit.consts:
            return VFunc(f"{e.value.id}.{e.attr}")
        base = self.ev(e.value, env, pc)
        return self.attr_of(base, e.attr, pc, e.lineno)

    def ev_Tuple(self, e, env, pc):
        if e.elts and all(isinstance(x, ast.Starred) for x in e.elts):
            # (*a, *b): concatenation of the iterated sequences (dict operands contribute their keys)
            parts = []
            for x in e.elts:
                v = self.ev(x.value, env, pc)
                if isinstance(v, VMap):
                    v = v.keys
                if not isinstance(v, VSeq):
                    raise Undecided("starred operand is not a sequence", e.lineno)
                parts.append(v)
            out = parts[0]
            for p_ in parts[1:]:
                out = self.seq_concat(out, p_)
            return out
        return VTuple([self.ev(x, env, pc) for x in e.elts])

    def ev_List(self, e, env, pc):
        items = [self.ev(x, env, pc) for x in e.elts]
        if not items:
            return VSeq({}, z3.IntVal(0), None)   # empty list of yet-unknown element shape
        sh = shape_of(items[0])
        return seq_literal(sh, items)

    def ev_Set(self, e, env, pc):
        items = [self.ev(x, env, pc) for x in e.elts]
        sh = shape_of(items[0])
        if not is_leaf(sh):
            raise Undecided("set of structured values", e.lineno)
        arr = z3.K(LEAF_SORT[sh], z3.BoolVal(False))
        for it in items:
            arr = z3.Store(arr, it.t, z3.BoolVal(True))
        return VSet(arr, sh)

    def ev_UnaryOp(self, e, env, pc):
        v = self.ev(e.operand, env, pc)
        if isinstance(e.op, ast.Not):
            return VBool(z3.Not(self.truth(v)))
        if isinstance(e.op, ast.USub):
            return VInt(-self.as_int(v, pc, e.lineno).t)
        if isinstance(e.op, ast.UAdd):
            return self.as_int(v, pc, e.lineno)
        raise Undecided("unary op", e.lineno)

    def ev_BinOp(self, e, env, pc):
        a, b = self.ev(e.left, env, pc), self.ev(e.right, env, pc)
        return self.binop(e.op, a, b, pc, e.lineno, env)

    def binop(self, op, a, b, pc, line, env=None):
        if isinstance(a, VRec):
            dunder = {ast.BitAnd: "__and__", ast.Add: "__add__", ast.BitOr: "__or__"}.get(type(op))
            if dunder and f"{a.cls}.{dunder}" in self.unit.calls:
                return self.call_named(f"{a.cls}.{dunder}", [a, b], {}, env, pc, line)
        if isinstance(a, VSeq) and isinstance(b, VSeq) and isinstance(op, ast.Add):
            return self.seq_concat(a, b)
        if isinstance(a, VSeq) and is_leaf(a.shape) and isinstance(b, (VSeq, VSet)) and isinstance(op, ast.Sub) and (getattr(a, "is_set", False) or isinstance(b, VSet) or getattr(b, "is_set", False)):
            # set difference on sets represented as sequences of distinct elements: a fresh sequence D with
            # every element of D in a and not in b (sound under-specification: nothing is assumed about which elements of a - b are present
            # beyond "D is empty only if a - b is empty" being left unstated)
            D = fresh_val("setdiff", ("seq", a.shape))
            w = self.uf(f"diffw!{next(_v._cnt)}", [I], I)
            p, q = z3.Ints(f"p!{next(_v._cnt)} q!{next(_v._cnt)}")
            dp = z3.Select(D.arrs[()], p)
            if isinstance(b, VSet):
                not_in_b = z3.Not(z3.Select(b.arr, dp))
            else:
                not_in_b = QAll([q], z3.Implies(z3.And(0 <= q, q < b.len), z3.Select(b.arrs[()], q) != dp))
            pc.append(z3.And(D.len >= 0, D.len <= a.len))
            pc.append(QAll([p], z3.Implies(z3.And(0 <= p, p < D.len), z3.And(0 <= w(p), w(p) < a.len, dp == z3.Select(a.arrs[()], w(p)), not_in_b))))
            D.is_set = True
            return D
        if isinstance(a, VSet) and isinstance(b, VSet) and isinstance(op, ast.BitOr):
            x = z3.Const(f"x!{next(_v._cnt)}", LEAF_SORT[a.shape])
            return VSet(z3.Lambda([x], z3.Or(z3.Select(a.arr, x), z3.Select(b.arr, x))), a.shape)
        if isinstance(a, VStr) and isinstance(b, VStr) and isinstance(op, ast.Add):
            f = self.uf("strcat", [STR, STR], STR)
            r = f(a.t, b.t)
            self.axioms_once(("strcat", str(a.t), str(b.t)), strlen(r) == strlen(a.t) + strlen(b.t))
            return VStr(r)
        if isinstance(a, VStr) and isinstance(op, ast.Mult):
            n = self.as_int(b, pc, line)
            f = self.uf("strrep", [STR, I], STR)
            r = f(a.t, n.t)
            self.axioms_once(("strrep", str(a.t), str(n.t)), strlen(r) == z3.If(n.t > 0, n.t * strlen(a.t), 0))
            return VStr(r)
        ai, bi = self.as_int(a, pc, line, "operand"), self.as_int(b, pc, line, "operand")
        if ai.inf is not None or bi.inf is not None:
            raise Undecided("arithmetic on float('inf')", line)
        if isinstance(op, ast.Add):
            return VInt(ai.t + bi.t)
        if isinstance(op, ast.Sub):
            return VInt(ai.t - bi.t)
        if isinstance(op, ast.Mult):
            return VInt(ai.t * bi.t)
        if isinstance(op, ast.FloorDiv):
            self.may_raise("ZeroDivisionError", bi.t == 0, pc, line, "floordiv")
            # python floor division: z3 `/` on ints is euclidean-like (floor for positive divisor)
            q = z3.If(bi.t > 0, ai.t / bi.t, (-ai.t) / (-bi.t))
            return VInt(q)
        if isinstance(op, ast.Mod):
            self.may_raise("ZeroDivisionError", bi.t == 0, pc, line, "mod")
            r = z3.If(bi.t > 0, ai.t % bi.t, -((-ai.t) % (-bi.t)))
            return VInt(r)
        raise Undecided(f"binop {type(op).__name__}", line)

    def mk_array(self, k, term, pc=None):
        """array whose k-th entry is `term` (k a z3 Int constant occurring in term).  Proof mode: a lambda term (beta
        reduction for free).  Refutation mode (Engine.axiom_arrays): a fresh array constant with a quantified defining
        axiom, which keeps the query inside what z3's model finder can certify."""
        if not self.axiom_arrays:
            kc = z3.Int("k!lam")     # canonical bound-variable name: equal comprehensions give structurally equal terms
            return z3.Lambda([kc], z3.substitute(term, (k, kc)))
        arr = fresh("arr", z3.ArraySort(I, term.sort()))
        self.axioms.append(QAll([k], z3.Select(arr, k) == term))
        return arr

    def seq_concat(self, a, b):
        if a.shape is None:
            return b
        if b.shape is None:
            return a
        k = z3.Int(f"k!{next(_v._cnt)}")
        arrs = {p: self.mk_array(k, z3.If(k < a.len, z3.Select(a.arrs[p], k), z3.Select(b.arrs[p], k - a.len))) for p in a.arrs}
        if self.axiom_arrays and _v.BOUND is None:
            # instantiation-friendly consequences of the definition (triggers on reads of the operands)
            for p in a.arrs:
                self.axioms.append(z3.ForAll([k], z3.Implies(z3.And(0 <= k, k < b.len), z3.Select(arrs[p], a.len + k) == z3.Select(b.arrs[p], k)), patterns=[z3.Select(b.arrs[p], k)]))
                self.axioms.append(z3.ForAll([k], z3.Implies(z3.And(0 <= k, k < a.len), z3.Select(arrs[p], k) == z3.Select(a.arrs[p], k)), patterns=[z3.Select(a.arrs[p], k)]))
        return VSeq(arrs, a.len + b.len, a.shape)

    def cmp_int(self, op, a, b):
        ai = a.inf if a.inf is not None else None
        bi = b.inf if b.inf is not None else None
        base = {ast.Lt: lambda x, y: x < y, ast.LtE: lambda x, y: x <= y, ast.Gt: lambda x, y: x > y,
                ast.GtE: lambda x, y: x >= y, ast.Eq: lambda x, y: x == y, ast.NotEq: lambda x, y: x != y}[type(op)](a.t, b.t)
        if ai is None and bi is None:
            return base
        ai = ai if ai is not None else z3.BoolVal(False)
        bi = bi if bi is not None else z3.BoolVal(False)
        both = {ast.Lt: False, ast.LtE: True, ast.Gt: False, ast.GtE: True, ast.Eq: True, ast.NotEq: False}[type(op)]
        a_only = {ast.Lt: False, ast.LtE: False, ast.Gt: True, ast.GtE: True, ast.Eq: False, ast.NotEq: True}[type(op)]
        b_only = {ast.Lt: True, ast.LtE: True, ast.Gt: False, ast.GtE: False, ast.Eq: False, ast.NotEq: True}[type(op)]
        return z3.If(z3.And(ai, bi), z3.BoolVal(both), z3.If(ai, z3.BoolVal(a_only), z3.If(bi, z3.BoolVal(b_only), base)))

    def lex_cmp(self, op, xs, ys, pc, line):
        """lexicographic comparison of two equally long item lists (tuple / NamedTuple ordering)"""
        strict = isinstance(op, (ast.Lt, ast.Gt))
        less = isinstance(op, (ast.Lt, ast.LtE))
        lt_op, eq_op = (ast.Lt() if less else ast.Gt()), ast.Eq()
        result = z3.BoolVal(not strict)
        for x, y in reversed(list(zip(xs, ys))):
            result = z3.Or(self.compare(lt_op, x, y, pc, line), z3.And(self.compare(eq_op, x, y, pc, line), result))
        return result

    def compare(self, op, a, b, pc, line):
        if isinstance(op, (ast.Is, ast.IsNot)):
            if isinstance(b, VNone) or isinstance(a, VNone):
                other = a if isinstance(b, VNone) else b
                if isinstance(other, VNone):
                    r = z3.BoolVal(True)
                elif isinstance(other, VOpt):
                    r = other.isnone
                else:
                    r = z3.BoolVal(False)
            elif isinstance(a, VBool) and isinstance(b, VBool):
                r = a.t == b.t
            elif isinstance(a, (VObj, VStr)) and type(a) is type(b):
                r = a.t == b.t
            else:
                raise Undecided("`is` on non-None operands", line)
            return r if isinstance(op, ast.Is) else z3.Not(r)
        if isinstance(op, (ast.In, ast.NotIn)):
            if isinstance(b, VSet):
                if isinstance(a, VOpt):
                    raise Undecided("optional in set", line)
                if not hasattr(a, "t") or not z3.is_expr(a.t) or a.t.sort() != b.arr.sort().domain():
                    raise Undecided(f"`in` between {type(a).__name__} and a set of {b.shape}", line)
                r = z3.Select(b.arr, a.t)
            elif isinstance(b, VSeq) and is_leaf(b.shape):
                r = q_ex(1, lambda k: z3.And(0 <= k, k < b.len, z3.Select(b.arrs[()], k) == a.t))
            elif isinstance(b, VTuple):
                r = z3.Or(*[val_eq(a, it) for it in b.items]) if b.items else z3.BoolVal(False)
            elif isinstance(b, VDict):
                r = z3.Select(b.has, a.t)
            elif isinstance(b, VStr) and isinstance(a, VStr):
                # substring test: an uninterpreted predicate of (needle, haystack); reflexive
                f = self.uf("str_contains", [STR, STR], B)
                self.axioms_once(("str_contains-refl", str(a.t)), f(a.t, a.t))
                r = f(a.t, b.t)
            else:
                raise Undecided(f"`in` on {type(b).__name__}", line)
            return r if isinstance(op, ast.In) else z3.Not(r)
        if isinstance(op, (ast.Eq, ast.NotEq)):
            r = None
            for x, y in ((a, b), (b, a)):
                if isinstance(x, VInt) and getattr(x, "is_char", False) and isinstance(y, VStr) and y.lit is not None:
                    r = (x.t == ord(y.lit)) if len(y.lit) == 1 else z3.BoolVal(False)
            if r is None:
                r = val_eq(a, b)
            if r is None:
                raise Undecided(f"== between {type(a).__name__} and {type(b).__name__}", line)
            return r if isinstance(op, ast.Eq) else z3.Not(r)
        # ordering
        if isinstance(a, (VTuple, VRec)) and isinstance(b, (VTuple, VRec)):
            xs = a.items if isinstance(a, VTuple) else list(a.fields.values())
            ys = b.items if isinstance(b, VTuple) else list(b.fields.values())
            if len(xs) != len(ys):
                raise Undecided("ordering of tuples of different length", line)
            return self.lex_cmp(op, xs, ys, pc, line)
        if isinstance(a, VStr) and isinstance(b, VStr):
            # (str, <) is a countable linear order, hence embeds into the rationals: compare injective real ranks
            rank = self.uf("str_rank", [STR], z3.RealSort())
            self.assumptions.add("string ordering abstracted as an injective rank into the reals (sound: countable linear order)")
            x, y = z3.Consts("sx sy", STR)
            self.axioms_once("str_rank_inj", z3.ForAll([x, y], z3.Implies(rank(x) == rank(y), x == y)))
            ra, rb = rank(a.t), rank(b.t)
            return {ast.Lt: ra < rb, ast.Gt: ra > rb, ast.LtE: ra <= rb, ast.GtE: ra >= rb}[type(op)]
        ai, bi = self.as_int(a, pc, line, "comparison-operand"), self.as_int(b, pc, line, "comparison-operand")
        return self.cmp_int(op, ai, bi)

    def ev_Compare(self, e, env, pc):
        vals = [self.ev(e.left, env, pc)]
        out = []
        guard = []
        for op, c in zip(e.ops, e.comparators):
            # chained comparison short-circuits: later comparators are evaluated only if earlier links hold
            sub = list(pc) + guard
            n0 = len(sub)
            v = self.ev(c, env, sub)
            r = self.compare(op, vals[-1], v, sub, e.lineno)
            self._merge_guarded(pc, guard, sub[n0:])
            vals.append(v)
            out.append(r)
            guard = guard + [r]
        return VBool(z3.And(*out) if len(out) > 1 else out[0])

    def _merge_guarded(self, pc, guard, newfacts):
        for f in newfacts:
            pc.append(z3.Implies(z3.And(*guard), f) if guard else f)

    def ev_BoolOp(self, e, env, pc):
        # and/or return operand values; here operands are reduced to their truth unless all are the same kind
        guard = []
        vals = []
        for v in e.values:
            sub = list(pc) + guard
            n0 = len(sub)
            val = self.ev(v, env, sub)
            self._merge_guarded(pc, guard, sub[n0:])
            vals.append(val)
            t = self.truth(val)
            guard = guard + [t if isinstance(e.op, ast.And) else z3.Not(t)]
        ts = [self.truth(v) for v in vals]
        if all(isinstance(v, VInt) and v.inf is None for v in vals):
            r = vals[-1].t
            for v, t in reversed(list(zip(vals[:-1], ts[:-1]))):
                r = z3.If(t, r, v.t) if isinstance(e.op, ast.And) else z3.If(t, v.t, r)
            return VInt(r)
        return VBool(z3.And(*ts) if isinstance(e.op, ast.And) else z3.Or(*ts))

    def ite_val(self, c, a, b, line):
        if isinstance(a, VNone) and isinstance(b, VNone):
            return a
        if isinstance(a, VNone) or isinstance(b, VNone):
            other = b if isinstance(a, VNone) else a
            if isinstance(other, VOpt):
                return VOpt(z3.If(c, z3.BoolVal(True), other.isnone) if isinstance(a, VNone) else z3.If(c, other.isnone, z3.BoolVal(True)), other.val)
            return VOpt(c if isinstance(a, VNone) else z3.Not(c), other)
        if isinstance(a, VOpt) or isinstance(b, VOpt):
            ao = a if isinstance(a, VOpt) else VOpt(z3.BoolVal(False), a)
            bo = b if isinstance(b, VOpt) else VOpt(z3.BoolVal(False), b)
            return VOpt(z3.If(c, ao.isnone, bo.isnone), self.ite_val(c, ao.val, bo.val, line))
        if isinstance(a, VInt) and isinstance(b, VInt):
            inf = None
            if a.inf is not None or b.inf is not None:
                inf = z3.If(c, a.inf if a.inf is not None else z3.BoolVal(False), b.inf if b.inf is not None else z3.BoolVal(False))
            return VInt(z3.If(c, a.t, b.t), inf)
        if isinstance(a, VBool) and isinstance(b, VBool):
            return VBool(z3.If(c, a.t, b.t))
        if isinstance(a, (VObj, VStr)) and type(a) is type(b):
            return type(a)(z3.If(c, a.t, b.t))
        if isinstance(a, VRec) and isinstance(b, VRec) and a.cls == b.cls:
            return VRec(a.cls, {f: self.ite_val(c, a.fields[f], b.fields[f], line) for f in a.fields})
        if isinstance(a, VTuple) and isinstance(b, VTuple) and len(a.items) == len(b.items):
            return VTuple([self.ite_val(c, x, y, line) for x, y in zip(a.items, b.items)])
        if isinstance(a, VSeq) and isinstance(b, VSeq) and a.shape == b.shape:
            return VSeq({p: z3.If(c, a.arrs[p], b.arrs[p]) for p in a.arrs}, z3.If(c, a.len, b.len), a.shape)
        raise Undecided(f"conditional between {type(a).__name__} and {type(b).__name__}", line)

    def ev_IfExp(self, e, env, pc):
        t = self.truth(self.ev(e.test, env, pc))
        sub = list(pc) + [t]; n0 = len(sub)
        a = self.ev(e.body, env, sub); self._merge_guarded(pc, [t], sub[n0:])
        sub = list(pc) + [z3.Not(t)]; n0 = len(sub)
        b = self.ev(e.orelse, env, sub); self._merge_guarded(pc, [z3.Not(t)], sub[n0:])
        return self.ite_val(t, a, b, e.lineno)

    def ev_Lambda(self, e, env, pc):
        return VLambda(e, env)

    def ev_JoinedStr(self, e, env, pc):
        return VStr(fresh("fstr", STR))

    def seq_index(self, base, idxv, pc, line, what="index"):
        idx = self.as_int(idxv, pc, line, "index").t
        n = base.len
        self.may_raise("IndexError", z3.Not(z3.And(-n <= idx, idx < n)), pc, line, what)
        eff = z3.If(idx < 0, idx + n, idx)
        if base.shape is None:
            raise Undecided("read from empty list literal", line)
        return seq_read(base, eff)

    def clamp_slice(self, lo, hi, n):
        """python slice clamping for step 1: returns (start, length)"""
        def norm(x):
            x = z3.If(x < 0, x + n, x)
            return z3.If(x < 0, 0, z3.If(x > n, n, x))
        lo_c = norm(lo) if lo is not None else z3.IntVal(0)
        hi_c = norm(hi) if hi is not None else n
        ln = z3.If(hi_c > lo_c, hi_c - lo_c, 0)
        return lo_c, ln

    def ev_Subscript(self, e, env, pc):
        base = self.ev(e.value, env, pc)
        if isinstance(e.slice, ast.Slice):
            if e.slice.step is not None:
                raise Undecided("slice step", e.lineno)
            lo = self.as_int(self.ev(e.slice.lower, env, pc), pc, e.lineno).t if e.slice.lower is not None else None
            hi = self.as_int(self.ev(e.slice.upper, env, pc), pc, e.lineno).t if e.slice.upper is not None else None
            if isinstance(base, VSeq):
                lo_c, ln = self.clamp_slice(lo, hi, base.len)
                k = z3.Int(f"k!{next(_v._cnt)}")
                arrs = {p: self.mk_array(k, z3.Select(a, k + lo_c)) for p, a in base.arrs.items()}
                return VSeq(arrs, ln, base.shape)
            if isinstance(base, VStr):
                n = strlen(base.t)
                lo_c, ln = self.clamp_slice(lo, hi, n)
                r = substr(base.t, lo_c, lo_c + ln)
                self.axioms_once(("substr", str(r)), z3.And(strlen(r) == ln, q_all(1, lambda kk: z3.Implies(z3.And(0 <= kk, kk < ln), charat(r, kk) == charat(base.t, lo_c + kk)))))
                out = VStr(r)
                out.window = (base, lo_c, ln)
                return out
            h = self.unit.subscripts.get("slice:" + type(base).__name__)
            if h:
                return h(self, base, lo, hi, pc, e.lineno)
            raise Undecided(f"slice of {type(base).__name__}", e.lineno)
        idxv = self.ev(e.slice, env, pc)
        if isinstance(base, VSeq):
            return self.seq_index(base, idxv, pc, e.lineno, ast.unparse(e)[:40])
        if isinstance(base, (VTuple, VRec)):
            items = base.items if isinstance(base, VTuple) else list(base.fields.values())
            if isinstance(e.slice, ast.Constant) and isinstance(e.slice.value, int):
                return items[e.slice.value]
            if isinstance(e.slice, ast.UnaryOp) and isinstance(e.slice.op, ast.USub) and isinstance(e.slice.operand, ast.Constant):
                return items[-e.slice.operand.value]
            raise Undecided("symbolic index into tuple", e.lineno)
        if isinstance(base, VStr):
            idx = self.as_int(idxv, pc, e.lineno, "index").t
            n = strlen(base.t)
            self.may_raise("IndexError", z3.Not(z3.And(-n <= idx, idx < n)), pc, e.lineno, ast.unparse(e)[:40])
            # a *computed* index that may be negative silently wraps: separate safety obligation
            if not (isinstance(e.slice, ast.UnaryOp) or isinstance(e.slice, ast.Constant)):
                self.oblige("safety", f"index-nonneg:{ast.unparse(e)[:40]}", pc, idx >= 0, e.lineno)
            eff = z3.If(idx < 0, idx + n, idx)
            w = getattr(base, "window", None)
            ch = charat(w[0].t, w[1] + eff) if w is not None else charat(base.t, eff)
            r = VInt(ch)
            r.is_char = True
            return r
        if isinstance(base, VMap):
            return self.uf_call(f"lookup_{base.name}", [idxv], base.vshape)
        if isinstance(base, VDict):
            self.may_raise("KeyError", z3.Not(z3.Select(base.has, idxv.t)), pc, e.lineno, f"key:{ast.unparse(e)[:40]}")
            return wrap_leaf(base.vshape, z3.Select(base.val, idxv.t))
        h = self.unit.subscripts.get(type(base).__name__)
        if h:
            return h(self, base, idxv, pc, e.lineno)
        raise Undecided(f"subscript on {type(base).__name__}", e.lineno)

    # -- comprehensions over a single sequence
    def comp_source(self, gens, env, pc, line):
        if len(gens) != 1:
            raise Undecided("nested comprehension", line)
        g = gens[0]
        n, at, _ = self.iter_desc(g.iter, env, pc)
        return g, n, at

    def ev_GeneratorExp(self, e, env, pc):
        return self.ev_ListComp(e, env, pc)

    def ev_ListComp(self, e, env, pc):
        g, n, at = self.comp_source(e.generators, env, pc, e.lineno)
        if g.ifs:
            return self.filtered_comp(e, g, n, at, env, pc)
        k = z3.Int(f"k!{next(_v._cnt)}")
        rng = z3.And(0 <= k, k < n)
        env2 = dict(env)
        self.assign(g.target, at(k), env2, pc, e.lineno)
        sub = list(pc) + [rng]
        n0 = len(sub)
        self.binders.append(k)
        try:
            val = self.ev(e.elt, env2, sub)
        finally:
            self.binders.pop()
        # facts learnt while evaluating the element (callee postconditions) hold for every index in range
        for f in sub[n0:]:
            pc.append(QAll([k], z3.Implies(rng, f)))
        sh = shape_of(val)
        lv = leaves_of(val, sh)
        arrs = {p: self.mk_array(k, lv[p]) for p, _ in shape_leaves(sh)}
        return VSeq(arrs, n, sh)

    def filtered_comp(self, e, g, n, at, env, pc):
        """[elt for x in xs if cond]: a fresh sequence F that is the subsequence of the mapped elements whose condition
        holds: F[p] = elt(w(p)) with w strictly increasing and cond(w(p)); every index q with cond(q) occurs as w(u(q))."""
        k = z3.Int(f"k!{next(_v._cnt)}")
        rng = z3.And(0 <= k, k < n)
        env2 = dict(env)
        self.assign(g.target, at(k), env2, pc, e.lineno)
        sub = list(pc) + [rng]
        n0 = len(sub)
        self.binders.append(k)
        try:
            conds = [self.truth(self.ev(c, env2, sub)) for c in g.ifs]
            val = self.ev(e.elt, env2, sub)
        finally:
            self.binders.pop()
        for f in sub[n0:]:
            pc.append(QAll([k], z3.Implies(rng, f)))
        cond = z3.And(*conds)
        sh = shape_of(val)
        F = fresh_val("filtered", ("seq", sh))
        w = self.uf(f"filtw!{next(_v._cnt)}", [I], I)
        u = self.uf(f"filtu!{next(_v._cnt)}", [I], I)
        p, q = z3.Ints(f"p!{next(_v._cnt)} q!{next(_v._cnt)}")
        lv = leaves_of(val, sh)
        at_w = lambda idx: build_from_leaves(sh, lambda path, kind: z3.substitute(lv[path], (k, idx)))
        pc.append(z3.And(F.len >= 0, F.len <= n))
        pc.append(QAll([p], z3.Implies(z3.And(0 <= p, p < F.len), z3.And(0 <= w(p), w(p) < n, z3.substitute(cond, (k, w(p))), val_eq(seq_read(F, p), at_w(w(p)))))))
        pc.append(QAll([p, q], z3.Implies(z3.And(0 <= p, p < q, q < F.len), w(p) < w(q))))
        pc.append(QAll([q], z3.Implies(z3.And(0 <= q, q < n, z3.substitute(cond, (k, q))), z3.And(0 <= u(q), u(q) < F.len, w(u(q)) == q))))
        return F

    def ev_SetComp(self, e, env, pc):
        """{elt for x in xs}: a fresh sequence D of pairwise distinct elements with the same element set as the
        list comprehension (both inclusions via Skolem index functions); iteration order unspecified."""
        lst = self.ev_ListComp(e, env, pc)
        D = fresh_val("setcomp", ("seq", lst.shape))
        w = self.uf(f"setw!{next(_v._cnt)}", [I], I)
        u = self.uf(f"setu!{next(_v._cnt)}", [I], I)
        p, q = z3.Ints(f"p!{next(_v._cnt)} q!{next(_v._cnt)}")
        pc.append(z3.And(D.len >= 0, D.len <= lst.len, z3.Implies(lst.len > 0, D.len > 0)))
        pc.append(QAll([p], z3.Implies(z3.And(0 <= p, p < D.len), z3.And(0 <= w(p), w(p) < lst.len, val_eq(seq_read(D, p), seq_read(lst, w(p)))))))
        pc.append(QAll([q], z3.Implies(z3.And(0 <= q, q < lst.len), z3.And(0 <= u(q), u(q) < D.len, val_eq(seq_read(lst, q), seq_read(D, u(q)))))))
        pc.append(QAll([p, q], z3.Implies(z3.And(0 <= p, p < q, q < D.len), z3.Not(val_eq(seq_read(D, p), seq_read(D, q))))))
        D.is_set = True
        return D

    def quantified(self, kind, e, env, pc):
        """any(...) / all(...) over a generator expression"""
        g, n, at = self.comp_source(e.generators, env, pc, e.lineno)
        k = z3.Int(f"k!{next(_v._cnt)}")
        env2 = dict(env)
        self.assign(g.target, at(k), env2, pc, e.lineno)
        rng = z3.And(0 <= k, k < n)
        sub = list(pc) + [rng]
        conds = [self.truth(self.ev(c, env2, sub)) for c in g.ifs]
        body = self.truth(self.ev(e.elt, env2, sub + conds))
        if kind == "any":
            return VBool(QEx([k], z3.And(rng, *conds, body)))
        return VBool(QAll([k], z3.Implies(z3.And(rng, *conds), body)))

    # ------------------------------------------------------------------ calls
    def ev_Call(self, e, env, pc):
        # spec-only functions
        if isinstance(e.func, ast.Name) and e.func.id in SPEC_FUNCS and e.func.id not in env:
            return self.spec_call(e, env, pc)
        if isinstance(e.func, ast.Name) and e.func.id in ("any", "all") and len(e.args) == 1 and isinstance(e.args[0], (ast.GeneratorExp, ast.ListComp)):
            return self.quantified(e.func.id, e.args[0], env, pc)
        # logger calls are dropped by extraction (stated in evidence)
        if isinstance(e.func, ast.Attribute) and isinstance(e.func.value, ast.Name) and e.func.value.id == "logger" and "logger" not in env:
            self.dropped.add("logger.* calls (and the evaluation of their arguments)")
            return VNone()
        # method call on a value
        if isinstance(e.func, ast.Attribute) and not (isinstance(e.func.value, ast.Name) and e.func.value.id not in env and e.func.value.id not in self.unit.consts):
            recv = self.ev(e.func.value, env, pc)
            if not isinstance(recv, VFunc):
                args = [self.ev(a, env, pc) for a in e.args]
                kw = {k.arg: self.ev(k.value, env, pc) for k in e.keywords}
                return self.method_call(recv, e.func.attr, args, kw, e, env, pc)
        f = self.ev(e.func, env, pc)
        if any(isinstance(a, ast.Starred) for a in e.args):
            raise Undecided("starred call argument", e.lineno)
        if isinstance(f, VLambda):
            args = [self.ev(a, env, pc) for a in e.args]
            return self.apply_lambda(f, args, pc)
        if isinstance(f, VPy):
            args = [self.ev(a, env, pc) for a in e.args]
            kw = {k.arg: self.ev(k.value, env, pc) for k in e.keywords}
            return f.fn(self, args, kw, env, pc, e)
        if not isinstance(f, VFunc):
            h = self.unit.calls.get("<call-value>")
            if h:
                args = [self.ev(a, env, pc) for a in e.args]
                return h(self, f, args, {}, env, pc, e)
            raise Undecided(f"call of {type(f).__name__}", e.lineno)
        name = f.name
        lazy = self.unit.calls.get(name)
        if callable(lazy) and getattr(lazy, "lazy_args", False):
            return lazy(self, e, env, pc)
        args = [self.ev(a, env, pc) for a in e.args]
        kw = {k.arg: self.ev(k.value, env, pc) for k in e.keywords}
        return self.call_named(name, args, kw, env, pc, e.lineno, e)

    def apply_lambda(self, lam, args, pc):
        env2 = dict(lam.env)
        params = lam.node.args.args
        for p, a in zip(params, args):
            env2[p.arg] = a
        return self.ev(lam.node.body, env2, pc)

    def call_named(self, name, args, kw, env, pc, line, node=None):
        # ghost call counter: a unit that mentions `__calls_<name>__` gets that variable incremented at every call of <name>
        ck = "__calls_" + name.replace(".", "_") + "__"
        if ck in env and isinstance(env[ck], VInt):
            env[ck] = VInt(env[ck].t + 1)
        spec = self.unit.calls.get(name)
        if spec is None and name.startswith("self."):
            spec = self.unit.calls.get(name[5:])
        if spec is not None:
            if callable(spec):
                return spec(self, args, kw, env, pc, node if node is not None else line)
            kind = spec[0]
            if kind == "uf":
                return self.uf_call(name, args + list(kw.values()), spec[1])
            if kind == "havoc":
                self.assumptions.add(f"havoc:{name}")
                return fresh_val("ret_" + name, spec[1])
            if kind == "contract":
                return self.call_contract(name, spec[1], args, kw, env, pc, line)
            raise Undecided(f"call spec kind {kind}", line)
        b = getattr(self, "bi_" + name.replace(".", "_"), None)
        if b is not None:
            return b(args, kw, env, pc, line)
        if name in self.unit.records:
            fields = self.unit.records[name]
            vals = dict(zip(fields, args))
            vals.update(kw)
            if set(vals) != set(fields):
                raise Undecided(f"constructor {name} with missing fields", line)
            return VRec(name.split(".")[-1], {f: vals[f] for f in fields})
        raise Undecided(f"call {name}(...) has no contract/model", line)

    def call_contract(self, name, callee, args, kw, env, pc, line):
        """modular call: assert callee.requires, havoc result, assume callee.ensures (callee body never inlined)"""
        cenv = {}
        pnames = list(callee.params)
        for p, a in zip(pnames, args):
            cenv[p] = a
        for k, a in kw.items():
            cenv[k] = a
        for p in pnames:
            if p not in cenv:
                if p in callee.defaults:
                    cenv[p] = callee.defaults[p](self)
                else:
                    raise Undecided(f"call {name}: missing argument {p}", line)
        cenv = self.with_ghost(callee, cenv)
        for label, expr in callee.requires_items():
            self.oblige("pre@callsite", f"{name}:{label}", pc, self.spec(expr, cenv, pc), line)
        if callee.returns is None:
            res = VNone()
        elif callee.pure:
            res = self.uf_call(f"pure_{name}", [cenv[p] for p in pnames if not isinstance(cenv[p], (VFunc, VLambda, VPy))], callee.returns)
            self.assumptions.discard(f"uninterpreted:pure_{name}")
            self.assumptions.add(f"contract:{name} (deterministic function of its arguments; proved as its own unit)")
        elif self.binders:
            res = self.uf_call(f"ret_{name}!{next(_v._cnt)}", [VInt(b) for b in self.binders], callee.returns)
        else:
            res = fresh_val("ret_" + name, callee.returns)
        cenv["result"] = res
        if callee.raises_spec:
            for exc in callee.raises_spec:
                flag = fresh(f"raises_{exc}_{name}", B)
                self.may_raise(exc, flag, pc, line, f"call:{name}")
        for label, expr in callee.ensures_items():
            pc.append(self.spec(expr, cenv, pc))
        self.assumptions.discard(None)
        return res

    def with_ghost(self, unit, env):
        env = dict(env)
        for gname, gsrc in unit.ghost.items():
            if callable(gsrc):
                env[gname] = VPy(gsrc)
            else:
                env[gname] = VLambda(ast.parse(gsrc, mode="eval").body, env)
        return env

    def spec(self, expr, env, pc):
        """evaluate a spec expression (string or callable) to a z3 Bool"""
        if callable(expr):
            return expr(self, env, pc)
        node = ast.parse(expr, mode="eval").body
        self.spec_depth += 1
        try:
            return self.truth(self.ev(node, env, list(pc)))
        finally:
            self.spec_depth -= 1

    def spec_call(self, e, env, pc):
        name = e.func.id
        if name in ("forall", "exists", "forall_obj", "exists_obj", "forall_str"):
            lam = e.args[0]
            if not isinstance(lam, ast.Lambda):
                raise Undecided(f"{name} needs a lambda", e.lineno)
            sort = {"forall": I, "exists": I, "forall_obj": OBJ, "exists_obj": OBJ, "forall_str": STR}[name]
            wrap = {I: VInt, OBJ: VObj, STR: VStr}[sort]
            vs = [z3.Const(f"{a.arg}!{next(_v._cnt)}", sort) for a in lam.args.args]
            env2 = dict(env)
            for a, c in zip(lam.args.args, vs):
                env2[a.arg] = wrap(c)
            self.spec_depth += 1
            try:
                body = self.truth(self.ev(lam.body, env2, list(pc)))
            finally:
                self.spec_depth -= 1
            return VBool(QAll(vs, body) if name.startswith("forall") else QEx(vs, body))
        if name == "implies" and isinstance(e.args[0], ast.Call) and isinstance(e.args[0].func, ast.Name) and e.args[0].func.id == "defined":
            if not all(a.value in env for a in e.args[0].args):
                return VBool(True)
            return VBool(self.truth(self.ev(e.args[1], env, pc)))
        if name == "defined":
            return VBool(all(a.value in env and not isinstance(env[a.value], VNone) for a in e.args))
        if name == "implies":
            a0 = self.truth(self.ev(e.args[0], env, pc))
            if z3.is_false(z3.simplify(a0)):
                return VBool(True)          # lazy: the consequent may not even be well-typed on this path
            return VBool(z3.Implies(a0, self.truth(self.ev(e.args[1], env, list(pc) + [a0]))))
        args = [self.ev(a, env, pc) for a in e.args]
        if name == "iff":
            return VBool(self.truth(args[0]) == self.truth(args[1]))
        if name == "ite":
            return self.ite_val(self.truth(args[0]), args[1], args[2], e.lineno)
        if name == "old":
            if not isinstance(e.args[0], ast.Name):
                raise Undecided("old() of non-name", e.lineno)
            return env["__old__"][e.args[0].id]
        raise Undecided(f"spec function {name}")

    # -- semantic models of builtins (each states the CPython behaviour it encodes)
    def bi_len(self, args, kw, env, pc, line):
        a = args[0]
        if isinstance(a, VSeq):
            return VInt(a.len)
        if isinstance(a, VStr):
            return VInt(strlen(a.t))
        if isinstance(a, VTuple):
            return VInt(len(a.items))
        if isinstance(a, VObj):
            f = self.uf("len_obj", [OBJ], I)
            self.axioms_once(("len_obj>=0", str(a.t)), f(a.t) >= 0)
            return VInt(f(a.t))
        raise Undecided(f"len of {type(a).__name__}", line)

    def bi_tuple(self, args, kw, env, pc, line):
        if not args:
            return VTuple([])
        if isinstance(args[0], (VSeq, VTuple)):
            return args[0]
        raise Undecided("tuple(...)", line)

    bi_list = bi_tuple

    def bi_set(self, args, kw, env, pc, line):
        if not args and not kw:
            return VSeq({}, z3.IntVal(0), None)       # an empty collection of unknown element type: typed at the assignment (local_shapes)
        if args and isinstance(args[0], VSet):
            return args[0]
        raise Undecided("set(...)", line)

    def bi_frozenset(self, args, kw, env, pc, line):
        if args and isinstance(args[0], VSet):
            return args[0]
        raise Undecided("frozenset(...)", line)

    def bi_float(self, args, kw, env, pc, line):
        if isinstance(args[0], VStr) and args[0].lit == "inf":
            return VInt(0, inf=z3.BoolVal(True))
        raise Undecided("float(...)", line)

    def key_of(self, keyfn, v, pc):
        if keyfn is None:
            return v
        if isinstance(keyfn, VLambda):
            return self.apply_lambda(keyfn, [v], pc)
        raise Undecided("sort key is not a lambda")

    def sorted_model(self, src, keyfn, reverse, pc, line, distinct_keys=False):
        """sorted(src, key=keyfn, reverse=reverse) for a VSeq `src`: a fresh sequence R that is a permutation of src
        (both inclusions through Skolem index functions, equal length) and ordered by the key.  CPython: list.sort /
        sorted are stable and total for totally ordered keys; stability is not modelled (not needed by any contract)."""
        if src.shape is None:
            return src
        R = fresh_val("sorted", ("seq", src.shape))
        n = src.len
        w = self.uf(f"perm!{next(_v._cnt)}", [I], I)       # R[p] == src[w(p)]
        u = self.uf(f"perminv!{next(_v._cnt)}", [I], I)    # src[q] == R[u(q)]
        p, q = z3.Ints(f"p!{next(_v._cnt)} q!{next(_v._cnt)}")
        facts = [R.len == n,
                 QAll([p], z3.Implies(z3.And(0 <= p, p < n), z3.And(0 <= w(p), w(p) < n, val_eq(seq_read(R, p), seq_read(src, w(p))), u(w(p)) == p))),
                 QAll([q], z3.Implies(z3.And(0 <= q, q < n), z3.And(0 <= u(q), u(q) < n, val_eq(seq_read(src, q), seq_read(R, u(q))), w(u(q)) == q)))]
        kp = self.key_of(keyfn, seq_read(R, p), pc)
        kq = self.key_of(keyfn, seq_read(R, q), pc)
        op = ast.GtE() if reverse else ast.LtE()
        facts.append(QAll([p, q], z3.Implies(z3.And(0 <= p, p < q, q < n), self.compare(op, kp, kq, pc, line))))
        for f in facts:
            pc.append(f)
        return R

    def bi_sorted(self, args, kw, env, pc, line):
        src = args[0]
        rev = kw.get("reverse")
        reverse = bool(rev is not None and z3.is_true(z3.simplify(rev.t)))
        if rev is not None and not (z3.is_true(z3.simplify(rev.t)) or z3.is_false(z3.simplify(rev.t))):
            raise Undecided("sorted(reverse=<symbolic>)", line)
        if isinstance(src, VMap):
            src = src.keys
        if isinstance(src, VSeq):
            if kw.get("key") is None and src.shape is not None:
                # sorted() without a key is a FUNCTION of its argument (a total order has one sorted arrangement up to equal elements, and equal
                # elements are indistinguishable to the contracts): two calls on the same terms denote the same sequence
                try:
                    ck = (tuple(t.sexpr() for t in self.flatten(src)), reverse)
                except Exception:
                    ck = None
                memo = self.__dict__.setdefault("_sorted_memo", {})
                if ck is not None and ck in memo:
                    return memo[ck]
                out = self.sorted_model(src, None, reverse, pc, line)
                if ck is not None:
                    memo[ck] = out
                return out
            return self.sorted_model(src, kw.get("key"), reverse, pc, line)
        raise Undecided(f"sorted of {type(src).__name__}", line)

    def extremum(self, which, args, kw, env, pc, line):
        if len(args) == 2 and not kw:
            a, b = self.as_int(args[0], pc, line), self.as_int(args[1], pc, line)
            return VInt(z3.If(a.t <= b.t, a.t, b.t) if which == "min" else z3.If(a.t >= b.t, a.t, b.t))
        if len(args) == 1 and isinstance(args[0], VSeq):
            seq = args[0]
            if seq.shape is None:
                self.may_raise("ValueError", z3.BoolVal(True), pc, line, f"{which}-of-empty")
                return VInt(0)
            self.may_raise("ValueError", seq.len <= 0, pc, line, f"{which}-of-empty")
            if getattr(seq, "singleton", False) and seq.shape == "str":
                return seq_read(seq, z3.IntVal(0))
            keyfn = kw.get("key")
            # the extremum is a deterministic function of the sequence: index chosen by an uninterpreted function
            flat = self.flatten(seq)
            idx = self.uf(f"arg{which}", [t.sort() for t in flat], I)(*flat)
            k = z3.Int(f"k!{next(_v._cnt)}")
            self.axioms_once((f"arg{which}-range", str(idx)), z3.And(0 <= idx, idx < seq.len))
            best = seq_read(seq, idx)
            sub = list(pc) + [0 <= k, k < seq.len]
            kb = self.key_of_any(keyfn, best, env, sub, line)
            kk = self.key_of_any(keyfn, seq_read(seq, k), env, sub, line)
            op = ast.LtE() if which == "min" else ast.GtE()
            n0 = len(sub)
            cmpv = self.compare(op, kb, kk, sub, line)
            extra = sub[len(pc) + 2:]
            self.axioms_once((f"arg{which}", str(idx)), QAll([k], z3.Implies(z3.And(0 <= k, k < seq.len), z3.And(cmpv, *extra))))
            return best
        raise Undecided(f"{which}(...)", line)

    def key_of_any(self, keyfn, v, env, pc, line):
        if keyfn is None:
            return v
        if isinstance(keyfn, VLambda):
            return self.apply_lambda(keyfn, [v], pc)
        if isinstance(keyfn, VFunc):
            if keyfn.name == "len":
                return self.bi_len([v], {}, env, pc, line)
            return self.call_named(keyfn.name, [v], {}, env, pc, line)
        raise Undecided("key function", line)

    def bi_min(self, args, kw, env, pc, line):
        return self.extremum("min", args, kw, env, pc, line)

    def bi_max(self, args, kw, env, pc, line):
        return self.extremum("max", args, kw, env, pc, line)

    def bi_next(self, args, kw, env, pc, line):
        seq = args[0]
        if isinstance(seq, VSeq) and len(args) == 2 and seq.shape is not None:
            first = seq_read(seq, z3.IntVal(0))
            return self.ite_val(seq.len > 0, first, args[1], line)
        raise Undecided("next(...)", line)

    def bi_isinstance(self, args, kw, env, pc, line):
        h = self.unit.calls.get("<isinstance>")
        if h:
            return h(self, args, kw, env, pc, line)
        v, t = args
        names = [t.name] if isinstance(t, VFunc) else [x.name for x in t.items]
        def one(nm):
            if isinstance(v, VRec):
                return z3.BoolVal(v.cls == nm.split(".")[-1])
            if isinstance(v, VStr):
                return z3.BoolVal(nm == "str")
            if isinstance(v, VInt):
                return z3.BoolVal(nm in ("int",))
            if isinstance(v, VObj) and nm.startswith("ast.") and isinstance(getattr(ast, nm[4:], None), type):
                # AST classes: a type tag constrained by the REAL class hierarchy of the running ast module (classes are disjoint
                # unless one is a subclass of the other)
                cls = getattr(ast, nm[4:])
                ids = [AST_CLASS_IDS[c] for c in AST_CLASS_IDS if isinstance(c, type) and issubclass(c, cls)]
                return z3.Or(*[tag(v.t) == i_ for i_ in ids]) if ids else z3.BoolVal(False)
            if isinstance(v, VObj):
                f = self.uf("isinst_" + nm.replace(".", "_"), [OBJ], B)
                return f(v.t)
            raise Undecided(f"isinstance of {type(v).__name__}", line)
        return VBool(z3.Or(*[one(nm) for nm in names]))

    def bi_getattr(self, args, kw, env, pc, line):
        base, nm = args[0], args[1]
        if not (isinstance(nm, VStr) and nm.lit is not None):
            raise Undecided("getattr with computed name", line)
        if isinstance(base, VObj):
            sh = self.unit.attrs.get(nm.lit)
            if sh is None or callable(sh):
                raise Undecided(f"getattr .{nm.lit}: no declared shape", line)
            val = self.uf_call(f"attr_{nm.lit}", [base], sh)
            if len(args) == 3:
                has = self.uf(f"has_{nm.lit}", [OBJ], B)(base.t)
                return self.ite_val(has, val, args[2], line)
            return val
        if isinstance(base, VOpt):
            inner = self.bi_getattr([base.val] + list(args[1:]), kw, env, pc, line)
            if len(args) == 3:
                return self.ite_val(base.isnone, args[2], inner, line)       # None has none of the declared attributes: the default
            self.may_raise("AttributeError", base.isnone, pc, line, f"getattr-on-None:{nm.lit}")
            return inner
        raise Undecided(f"getattr on {type(base).__name__}", line)

    def bi_hasattr(self, args, kw, env, pc, line):
        base, nm = args
        if isinstance(base, VObj) and isinstance(nm, VStr) and nm.lit is not None:
            return VBool(self.uf(f"has_{nm.lit}", [OBJ], B)(base.t))
        raise Undecided("hasattr", line)

    def bi_bool(self, args, kw, env, pc, line):
        if not args:
            return VBool(z3.BoolVal(False))
        return VBool(self.truth(args[0]))

    def bi_callable(self, args, kw, env, pc, line):
        if isinstance(args[0], VObj):
            return VBool(self.uf("callable", [OBJ], B)(args[0].t))
        raise Undecided("callable", line)

    def method_call(self, recv, attr, args, kw, e, env, pc):
        line = e.lineno
        key = None
        if isinstance(recv, VOpt):
            # None has none of the methods modelled here: AttributeError on that path, the value's method otherwise
            self.may_raise("AttributeError", recv.isnone, pc, line, f"{attr}-of-None")
            return self.method_call(recv.val, attr, args, kw, e, env, pc)
        if isinstance(recv, VRec):
            key = f"{recv.cls}.{attr}"
        elif isinstance(recv, VStr):
            key = f"str.{attr}"
        elif isinstance(recv, VSeq):
            key = f"list.{attr}"
        elif isinstance(recv, VSet):
            key = f"set.{attr}"
        elif isinstance(recv, VObj):
            key = f"obj.{attr}"
        if key in self.unit.calls:
            return self.call_named(key, [recv] + args, kw, env, pc, line, e)
        # in-place mutators on a named list/set: value semantics, environment update
        if attr in MUTATORS and isinstance(e.func.value, ast.Name) and e.func.value.id in env:
            nm = e.func.value.id
            if isinstance(recv, VSeq):
                if attr == "append":
                    v = args[0]
                    sh = recv.shape if recv.shape is not None else shape_of(v)
                    base = recv if recv.shape is not None else fresh_val("empty", ("seq", sh))
                    lv = leaves_of(v, sh)
                    arrs = {p: z3.Store(base.arrs[p], recv.len, lv[p]) for p in base.arrs}
                    env[nm] = VSeq(arrs, recv.len + 1, sh)
                    return VNone()
                if attr == "extend":
                    add = args[0]
                    if isinstance(add, VSeq):
                        env[nm] = self.seq_concat(recv, add)
                        return VNone()
                if attr == "sort":
                    rev = kw.get("reverse")
                    reverse = bool(rev is not None and z3.is_true(z3.simplify(rev.t)))
                    env[nm] = self.sorted_model(recv, kw.get("key"), reverse, pc, line)
                    return VNone()
                if attr == "pop" and not args:
                    self.may_raise("IndexError", recv.len <= 0, pc, line, "pop-from-empty")
                    v = seq_read(recv, recv.len - 1)
                    env[nm] = VSeq(recv.arrs, recv.len - 1, recv.shape)
                    return v
            if isinstance(recv, VSet):
                if attr == "add":
                    env[nm] = VSet(z3.Store(recv.arr, args[0].t, z3.BoolVal(True)), recv.shape)
                    return VNone()
            raise Undecided(f"mutator .{attr} on {type(recv).__name__}", line)
        if isinstance(recv, VSeq) and attr == "copy":
            return recv
        if isinstance(recv, VStr) and attr in ("expandtabs", "strip", "rstrip", "lstrip", "lower", "upper", "replace", "format", "join", "title", "capitalize", "zfill", "center", "ljust", "rjust"):
            # str -> str methods whose result is not interpreted: an unconstrained string (over-approximation)
            self.assumptions.add(f"uninterpreted: str.{attr} returns some str")
            return VStr(self.uf(f"str_{attr}", [STR] + [t.sort() for a in args for t in self.flatten(a)], STR)(recv.t, *[t for a in args for t in self.flatten(a)]))
        if isinstance(recv, VStr) and attr in ("find", "rfind", "count"):
            # str -> int searches: an uninterpreted function of the receiver and the arguments, within the documented range
            flat = [t for a in args for t in self.flatten(a)]
            r = self.uf(f"str_{attr}", [STR] + [t.sort() for t in flat], I)(recv.t, *flat)
            pc.append(r >= (0 if attr == "count" else -1))
            pc.append(r <= strlen(recv.t))
            self.assumptions.add(f"uninterpreted: str.{attr} returns an int in [{0 if attr == 'count' else -1}, len]")
            return VInt(r)
        raise Undecided(f"method .{attr} on {type(recv).__name__} has no model", line)

    # ------------------------------------------------------------------ statements
    def assign(self, target, val, env, pc, line):
        if isinstance(target, ast.Name):
            if isinstance(val, VSeq) and val.shape is None and target.id in self.unit.local_shapes and self.unit.local_shapes[target.id][0] == "set":
                sh = self.unit.local_shapes[target.id]
                env[target.id] = VSet(z3.K(LEAF_SORT[sh[1]], z3.BoolVal(False)), sh[1])
                return
            if isinstance(val, VSeq) and val.shape is None and target.id in self.unit.local_shapes:
                sh = self.unit.local_shapes[target.id]
                typed = fresh_val(target.id, sh)
                val = VSeq(typed.arrs, z3.IntVal(0), sh[1])
            env[target.id] = val
        elif isinstance(target, (ast.Tuple, ast.List)):
            if any(isinstance(t, ast.Starred) for t in target.elts):
                if self.unit.lenient:
                    for n_ in ast.walk(target):
                        if isinstance(n_, ast.Name):
                            env[n_.id] = VObj(fresh("havoc", OBJ))
                    self.havocked.add(f"L{line}: starred unpacking target")
                    return
                raise Undecided("starred unpacking", line)
            if isinstance(val, VTuple):
                items = val.items
            elif isinstance(val, VRec):
                items = list(val.fields.values())
            elif self.unit.lenient and isinstance(val, VObj):
                items = [VObj(fresh("havoc", OBJ)) for _ in target.elts]
            else:
                raise Undecided(f"unpack of {type(val).__name__}", line)
            if len(items) != len(target.elts):
                raise Undecided("unpack arity", line)
            for t, v in zip(target.elts, items):
                self.assign(t, v, env, pc, line)
        elif isinstance(target, ast.Subscript) and isinstance(target.value, ast.Name) and target.value.id in env:
            base = env[target.value.id]
            h = self.unit.subscript_store.get(type(base).__name__)
            if h:
                env[target.value.id] = h(self, base, self.ev(target.slice, env, pc), val, pc, line)
                return
            if isinstance(base, VDict) and hasattr(val, "t"):
                key = self.ev(target.slice, env, pc)
                env[target.value.id] = VDict(z3.Store(base.has, key.t, z3.BoolVal(True)), z3.Store(base.val, key.t, val.t), base.kshape, base.vshape)
                return
            raise Undecided("subscript store", line)
        else:
            raise Undecided(f"assign target {ast.unparse(target)[:40]}", line)

    def event(self, name, value, env, pc, line):
        """ghost event (e.g. a file write): recorded, and the unit's event_ensures are obligations at that point"""
        self.events.append((name, value, list(pc), line))
        eenv = self.with_ghost(self.unit, dict(env))
        eenv["value"] = value
        for label, expr in self.unit.event_ensures:
            self.oblige("event", f"{name}:{label}", pc, self.spec(expr, eenv, pc), line)

    def flush_pending(self, env, outs):
        for exc, pc_, line in self.pending:
            outs.append(Outcome("raise", env, pc_, exc=exc, line=line))
        self.pending = []

    def run(self, stmts, env, pc):
        states = [(env, pc)]
        outs = []
        for st in stmts:
            nxt = []
            for env_, pc_ in states:
                for o in self.stmt(st, env_, pc_):
                    if o.kind == "fall":
                        nxt.append((o.env, o.pc))
                    else:
                        outs.append(o)
            states = nxt
            if len(states) > 4096:
                raise Undecided("path explosion", st.lineno)
        outs.extend(Outcome("fall", e_, p_) for e_, p_ in states)
        return outs

    def stmt(self, st, env, pc):
        if self.unit.lenient:
            try:
                return self.stmt_strict(st, env, pc)
            except Undecided as ex:
                if isinstance(st, (ast.If, ast.For, ast.While, ast.Try, ast.Return, ast.With)):
                    raise
                env = dict(env)
                for n in ast.walk(st):
                    if isinstance(n, ast.Name) and isinstance(n.ctx, ast.Store):
                        env[n.id] = VObj(fresh("havoc", OBJ))
                    elif isinstance(n, ast.Call) and isinstance(n.func, ast.Attribute) and n.func.attr in MUTATORS and isinstance(n.func.value, ast.Name) and n.func.value.id in env:
                        env[n.func.value.id] = VObj(fresh("havoc", OBJ))
                self.havocked.add(f"L{st.lineno}: statement `{ast.unparse(st)[:60]}`  [{ex.what[:60]}]")
                self.pending = []
                return [Outcome("fall", env, list(pc))]
        return self.stmt_strict(st, env, pc)

    def stmt_strict(self, st, env, pc):
        env = dict(env)
        pc = list(pc)
        outs = []
        hook = self.unit.stmt_hooks.get(type(st).__name__)
        if hook:
            r = hook(self, st, env, pc)
            if r is not None:
                return r
        if isinstance(st, (ast.Assign, ast.AnnAssign)):
            if st.value is None:
                return [Outcome("fall", env, pc)]
            pc_before = list(pc)
            v = self.ev(st.value, env, pc)
            self.flush_pending(env, outs)
            for t in (st.targets if isinstance(st, ast.Assign) else [st.target]):
                self.assign(t, v, env, pc, st.lineno)
                # cut point: prove the summary facts of the assigned name, then forget how it was computed
                if isinstance(t, ast.Name) and t.id in self.unit.cuts and isinstance(v, V) and self.unit.cuts[t.id]["when"](v):
                    cenv = self.with_ghost(self.unit, env)
                    facts = []
                    for k, (label, expr) in enumerate(self.unit.cuts[t.id]["facts"]):
                        g = self.spec(expr, cenv, pc)
                        self.oblige("cut", f"{t.id}:{label}", pc, g, st.lineno)
                        facts.append(g)
                    env[t.id] = fresh_val(t.id, shape_of(v))
                    cenv = self.with_ghost(self.unit, env)
                    pc = pc_before + [self.spec(expr, cenv, pc_before) for _, expr in self.unit.cuts[t.id]["facts"]]
                    if isinstance(env[t.id], VSeq):
                        pc.append(env[t.id].len >= 0)
            return outs + [Outcome("fall", env, pc)]
        if isinstance(st, ast.AugAssign):
            if isinstance(st.target, ast.Subscript) and isinstance(st.target.value, ast.Name) and isinstance(env.get(st.target.value.id), VDict):
                # d[k] op= v  ==  d[k] = d[k] op v   (k is evaluated once; it has no effect in the subset)
                load = ast.copy_location(ast.Subscript(value=st.target.value, slice=st.target.slice, ctx=ast.Load()), st)
                new_v = self.ev(ast.copy_location(ast.BinOp(left=load, op=st.op, right=st.value), st), env, pc)
                self.flush_pending(env, outs)
                self.assign(st.target, new_v, env, pc, st.lineno)
                return outs + [Outcome("fall", env, pc)]
            if not isinstance(st.target, ast.Name):
                raise Undecided("augmented assignment to non-name", st.lineno)
            cur = self.ev(ast.copy_location(ast.Name(id=st.target.id, ctx=ast.Load()), st), env, pc)
            v = self.ev(st.value, env, pc)
            if isinstance(st.op, ast.BitOr) and isinstance(cur, VBool):
                env[st.target.id] = VBool(z3.Or(cur.t, self.truth(v)))
            else:
                env[st.target.id] = self.binop(st.op, cur, v, pc, st.lineno, env)
            self.flush_pending(env, outs)
            return outs + [Outcome("fall", env, pc)]
        if isinstance(st, ast.Return):
            v = self.ev(st.value, env, pc) if st.value is not None else VNone()
            self.flush_pending(env, outs)
            return outs + [Outcome("return", env, pc, v, line=st.lineno)]
        if isinstance(st, ast.Break):
            return [Outcome("break", env, pc)]
        if isinstance(st, ast.Continue):
            return [Outcome("continue", env, pc)]
        if isinstance(st, (ast.Pass, ast.Nonlocal, ast.Global, ast.Import, ast.ImportFrom)):
            return [Outcome("fall", env, pc)]
        if isinstance(st, ast.Expr):
            if isinstance(st.value, ast.Constant):
                return [Outcome("fall", env, pc)]
            if isinstance(st.value, (ast.Yield,)):
                v = self.ev(st.value.value, env, pc) if st.value.value is not None else VNone()
                self.flush_pending(env, outs)
                self.yields.append((v, list(pc), dict(env), st.lineno))
                if self.unit.yield_ensures:
                    yenv = self.with_ghost(self.unit, dict(env))
                    yenv["value"] = v
                    for label, expr in self.unit.yield_ensures:
                        self.oblige("yield", label, pc, self.spec(expr, yenv, pc), st.lineno)
                ycount = env.get("__yields__")
                if ycount is not None:
                    env["__yields__"] = VInt(ycount.t + 1)
                return outs + [Outcome("fall", env, pc)]
            self.ev(st.value, env, pc)
            self.flush_pending(env, outs)
            return outs + [Outcome("fall", env, pc)]
        if isinstance(st, ast.If):
            t = self.truth(self.ev(st.test, env, pc))
            self.flush_pending(env, outs)
            t = z3.simplify(t)
            if z3.is_true(t):
                return outs + self.run(st.body, env, pc)
            if z3.is_false(t):
                return outs + self.run(st.orelse, env, pc)
            self.nforks += 1
            if self.feasible(pc + [t]):
                outs += self.run(st.body, env, pc + [t])
            if self.feasible(pc + [z3.Not(t)]):
                outs += self.run(st.orelse, env, pc + [z3.Not(t)])
            return outs
        if isinstance(st, ast.For):
            return self.for_loop(st, env, pc)
        if isinstance(st, ast.While):
            return self.while_loop(st, env, pc)
        if isinstance(st, ast.Raise):
            if st.exc is None and isinstance(env.get("__exc__"), VFunc):
                exc = env["__exc__"].name        # bare `raise` inside a handler re-raises the handled exception
            else:
                exc = self.exc_name(st.exc)
            return [Outcome("raise", env, pc, exc=exc, line=st.lineno)]
        if isinstance(st, ast.Try):
            return self.try_stmt(st, env, pc)
        if isinstance(st, ast.Assert):
            t = self.truth(self.ev(st.test, env, pc))
            self.flush_pending(env, outs)
            outs.append(Outcome("raise", env, pc + [z3.Not(t)], exc="AssertionError", line=st.lineno))
            return outs + [Outcome("fall", env, pc + [t])]
        if isinstance(st, (ast.FunctionDef,)):
            env[st.name] = VFunc(st.name)
            return [Outcome("fall", env, pc)]
        if isinstance(st, ast.With):
            # context managers are modelled by the value of the context expression (hooks); __exit__ is assumed not to
            # suppress exceptions and to have no effect on the verified state
            for item in st.items:
                v = self.ev(item.context_expr, env, pc)
                self.flush_pending(env, outs)
                if item.optional_vars is not None:
                    self.assign(item.optional_vars, v, env, pc, st.lineno)
            self.assumptions.add("with statements: __enter__ yields the context value, __exit__ neither suppresses exceptions nor changes the verified state")
            return outs + self.run(st.body, env, pc)
        raise Undecided(f"stmt {type(st).__name__}", st.lineno)

    def feasible(self, pc):
        if _v.BOUND is not None:
            return self._sat(pc)
        if self.nforks < self.unit.prune_after:
            return True
        s_ = z3.Solver()
        s_.set("timeout", 1000)
        s_.add(*self.axioms)
        s_.add(*pc)
        return s_.check() != z3.unsat

    def exc_name(self, node):
        if node is None:
            return "Exception"
        if isinstance(node, ast.Call):
            node = node.func
        if isinstance(node, ast.Name):
            return node.id
        if isinstance(node, ast.Attribute):
            return node.attr
        return "Exception"

    def try_stmt(self, st, env, pc):
        outs = []
        body_outs = self.run(st.body, env, pc)
        after = []
        for o in body_outs:
            if o.kind == "raise":
                handled = False
                for h in st.handlers:
                    names = ["BaseException"] if h.type is None else ([self.exc_name(x) for x in h.type.elts] if isinstance(h.type, ast.Tuple) else [self.exc_name(h.type)])
                    if exc_matches(o.exc, names):
                        henv = dict(o.env)
                        henv["__exc__"] = VFunc(o.exc)
                        if h.name:
                            henv[h.name] = VObj(fresh("exc", OBJ))
                        after.extend(self.run(h.body, henv, o.pc))
                        handled = True
                        break
                if not handled:
                    after.append(o)
            elif o.kind == "fall" and st.orelse:
                after.extend(self.run(st.orelse, o.env, o.pc))
            else:
                after.append(o)
        if st.finalbody:
            res = []
            for o in after:
                for fo in self.run(st.finalbody, o.env, o.pc):
                    if fo.kind == "fall":
                        res.append(Outcome(o.kind, fo.env, fo.pc, o.val, o.exc, o.line))
                    else:
                        res.append(fo)
            return res
        return after

    # ------------------------------------------------------------------ loops
    def iter_desc(self, it, env, pc):
        if not self.unit.lenient:
            return self.iter_desc_strict(it, env, pc)
        try:
            return self.iter_desc_strict(it, env, pc)
        except Undecided as ex:
            self.havocked.add(f"L{it.lineno}: iterable `{ast.unparse(it)[:60]}`  [{ex.what[:60]}]")
            s2 = fresh_val("havoc_iter", ("seq", "obj"))
            self.axioms.append(s2.len >= 0)
            return s2.len, (lambda i: seq_read(s2, i)), s2

    def iter_desc_strict(self, it, env, pc):
        """-> (length term, index -> element value, iterated VSeq or None)"""
        if isinstance(it, ast.Call) and isinstance(it.func, ast.Name) and it.func.id not in env:
            fn = it.func.id
            if fn == "enumerate":
                n, at, seq = self.iter_desc(it.args[0], env, pc)
                start = z3.IntVal(0)
                if len(it.args) > 1:
                    start = self.as_int(self.ev(it.args[1], env, pc), pc, it.lineno).t
                for k in it.keywords:
                    if k.arg == "start":
                        start = self.as_int(self.ev(k.value, env, pc), pc, it.lineno).t
                return n, (lambda i: VTuple([VInt(i + start), at(i)])), seq
            if fn == "range":
                args = [self.as_int(self.ev(a, env, pc), pc, it.lineno).t for a in it.args]
                if len(args) == 1:
                    lo, hi = z3.IntVal(0), args[0]
                elif len(args) == 2:
                    lo, hi = args
                else:
                    raise Undecided("range with step", it.lineno)
                return z3.If(hi > lo, hi - lo, 0), (lambda i: VInt(lo + i)), None
            if fn == "zip":
                descs = [self.iter_desc(a, env, pc) for a in it.args]
                n = descs[0][0]
                for d in descs[1:]:
                    n = z3.If(d[0] < n, d[0], n)
                return n, (lambda i: VTuple([d[1](i) for d in descs])), None
            if fn in ("list", "tuple", "iter") and len(it.args) == 1:
                return self.iter_desc(it.args[0], env, pc)
        seq = self.ev(it, env, pc)
        if isinstance(seq, VMap):
            # dict iteration = insertion order of the keys: distinct, but NOT sorted (nothing is assumed about the order)
            seq = seq.keys
        if isinstance(seq, VSeq):
            if seq.shape is None:
                return z3.IntVal(0), (lambda i: VNone()), seq
            return seq.len, (lambda i: seq_read(seq, i)), seq
        if isinstance(seq, VTuple):
            items = seq.items
            if not items:
                return z3.IntVal(0), (lambda i: VNone()), None
            s2 = seq_literal(shape_of(items[0]), items)
            return s2.len, (lambda i: seq_read(s2, i)), s2
        if self.unit.lenient and isinstance(seq, VObj):
            s2 = fresh_val("havoc_iter", ("seq", "obj"))
            self.axioms.append(s2.len >= 0)
            return s2.len, (lambda i: seq_read(s2, i)), s2
        raise Undecided(f"iteration over {type(seq).__name__}: {ast.unparse(it)[:50]}", it.lineno)

    def modified_names(self, body, env):
        mod = set()
        for s_ in body:
            for n in ast.walk(s_):
                if isinstance(n, ast.Name) and isinstance(n.ctx, ast.Store):
                    mod.add(n.id)
                elif isinstance(n, ast.Call) and isinstance(n.func, ast.Attribute) and n.func.attr in MUTATORS and isinstance(n.func.value, ast.Name):
                    mod.add(n.func.value.id)
                elif isinstance(n, ast.Subscript) and isinstance(n.ctx, (ast.Store, ast.Del)) and isinstance(n.value, ast.Name):
                    mod.add(n.value.id)
                elif isinstance(n, (ast.Yield,)):
                    mod.add("__yields__")
                elif isinstance(n, ast.Call):
                    mod.add("__calls_" + ast.unparse(n.func).replace(".", "_") + "__")
        return sorted(m for m in mod if m in env)

    def loop_spec(self, st):
        lid = self.loops.get(id(st))
        spec = self.unit.loops.get(lid)
        if spec is None and self.unit.lenient:
            spec = {"inv": []}
        if spec is None:
            raise Undecided(f"loop #{lid} needs an invariant", st.lineno)
        return lid, spec

    def unroll_const(self, st, env, pc):
        """`for x in <literal tuple/list of constants>`: unrolled completely (marked unrolled(k))"""
        outs = []
        states = [(env, pc)]
        for elt in st.iter.elts:
            nxt = []
            for env_, pc_ in states:
                env2 = dict(env_)
                self.assign(st.target, self.ev(elt, env2, pc_), env2, pc_, st.lineno)
                for o in self.run(st.body, env2, pc_):
                    if o.kind in ("fall", "continue"):
                        nxt.append((o.env, o.pc))
                    elif o.kind == "break":
                        outs.append(Outcome("fall", o.env, o.pc))
                    else:
                        outs.append(o)
            states = nxt
        for env_, pc_ in states:
            if st.orelse:
                outs += self.run(st.orelse, env_, pc_)
            else:
                outs.append(Outcome("fall", env_, pc_))
        return outs

    def inv_env(self, spec, env, entry_env, extra):
        e2 = self.with_ghost(self.unit, env)
        e2.update(extra)
        e2["_entry"] = VRec("_entry", {k: v for k, v in entry_env.items() if isinstance(v, V) and not isinstance(v, (VLambda, VPy, VFunc))})
        return e2

    # -- bounded (refutation) mode: loops are unrolled, no invariants are used
    def _sat(self, pc):
        import time as _t
        if self.deadline is not None and _t.time() > self.deadline:
            raise Undecided("bounded pass: generation budget exceeded")
        s_ = z3.Solver()
        s_.set("timeout", 500)
        s_.add(*self.axioms)
        s_.add(*pc)
        return s_.check() != z3.unsat

    def for_loop_bounded(self, st, env, pc):
        B_ = _v.BOUND
        outs = []
        lid = self.loops.get(id(st))
        spec = self.unit.loops.get(lid) or {}
        n, at, seq = self.iter_desc(st.iter, env, pc)
        self.flush_pending(env, outs)
        for nm, sh in spec.get("declare", {}).items():
            if nm not in env:
                env[nm] = fresh_val(nm, sh)
        pc = pc + [n >= 0, n <= B_]
        states = [(env, pc)]

        def leave(env_, pc_):
            if st.orelse:
                return self.run(st.orelse, env_, pc_)
            return [Outcome("fall", env_, pc_)]

        for i in range(B_ + 1):
            nxt = []
            for env_, pc_ in states:
                if self._sat(pc_ + [n == i]):
                    outs += leave(env_, pc_ + [n == i])
                if i == B_ or not self._sat(pc_ + [n > i]):
                    continue
                envb = dict(env_)
                envb["_i"] = VInt(i)
                if seq is not None:
                    envb["_iter"] = seq
                pcb = pc_ + [n > i]
                self.assign(st.target, at(z3.IntVal(i)), envb, pcb, st.lineno)
                body_outs = self.apply_body_contract(spec["body_contract"], envb, pcb, st) if spec.get("body_contract") else self.run(st.body, envb, pcb)
                for o in body_outs:
                    if o.kind in ("fall", "continue"):
                        nxt.append((o.env, o.pc))
                    elif o.kind == "break":
                        outs.append(Outcome("fall", o.env, o.pc))
                    else:
                        outs.append(o)
            states = nxt
            if len(states) > 512:
                raise Undecided("bounded unrolling: path explosion", st.lineno)
        return outs

    def while_loop_bounded(self, st, env, pc):
        B_ = _v.BOUND
        outs = []
        lid = self.loops.get(id(st))
        spec = self.unit.loops.get(lid) or {}
        for nm, sh in spec.get("declare", {}).items():
            if nm not in env:
                env[nm] = fresh_val(nm, sh)
        states = [(env, pc)]
        for it in range(B_ + 2):
            nxt = []
            for env_, pc_ in states:
                env_ = dict(env_)
                pc_ = list(pc_)
                t = self.truth(self.ev(st.test, env_, pc_))
                self.flush_pending(env_, outs)
                if self._sat(pc_ + [z3.Not(t)]):
                    if st.orelse:
                        outs += self.run(st.orelse, env_, pc_ + [z3.Not(t)])
                    else:
                        outs.append(Outcome("fall", env_, pc_ + [z3.Not(t)]))
                if it == B_ + 1 or not self._sat(pc_ + [t]):
                    continue
                for o in self.run(st.body, env_, pc_ + [t]):
                    if o.kind in ("fall", "continue"):
                        nxt.append((o.env, o.pc))
                    elif o.kind == "break":
                        outs.append(Outcome("fall", o.env, o.pc))
                    else:
                        outs.append(o)
            states = nxt
            if len(states) > 512:
                raise Undecided("bounded unrolling: path explosion", st.lineno)
        return outs

    def for_loop(self, st, env, pc):
        self._pc_at_stmt = list(pc)
        if _v.BOUND is not None and not (isinstance(st.iter, (ast.Tuple, ast.List)) and self.loops.get(id(st)) not in self.unit.loops):
            return self.for_loop_bounded(st, env, pc)
        if isinstance(st.iter, (ast.Tuple, ast.List)) and id(st) in self.loops and self.loops[id(st)] not in self.unit.loops:
            return self.unroll_const(st, env, pc)
        lid, spec = self.loop_spec(st)
        outs = []
        n, at, seq = self.iter_desc(st.iter, env, pc)
        self.flush_pending(env, outs)
        if spec.get("iter_facts") and seq is not None:
            # cut: prove the summary facts of the iterated sequence, then forget how it was computed
            pc_before = spec.get("_pc_before_iter", None)
            facts = spec["iter_facts"]
            e2 = self.inv_env(spec, env, env, {"_iter": seq, "_n": VInt(n)})
            for k, (label, expr) in enumerate(facts):
                self.oblige("cut", f"loop{lid}:iter:{label}", pc, self.spec(expr, e2, pc), st.lineno)
            seq = fresh_val("iter", ("seq", seq.shape))
            n = seq.len
            at = (lambda s_: (lambda i: seq_read(s_, i)))(seq)
            pc = list(self._pc_at_stmt) + [n >= 0]
            e2 = self.inv_env(spec, env, env, {"_iter": seq, "_n": VInt(n)})
            pc += [self.spec(expr, e2, pc) for _, expr in facts]
        for nm, sh in spec.get("declare", {}).items():
            if nm not in env:
                env[nm] = fresh_val(nm, sh)
        for nm, sh in spec.get("shapes", {}).items():
            # a variable whose shape widens inside the loop (int -> int-or-inf): widen it at loop entry
            if sh == "xint" and isinstance(env.get(nm), VInt) and env[nm].inf is None:
                env[nm] = VInt(env[nm].t, inf=z3.BoolVal(False))
        mod = self.modified_names(st.body, env)
        tag_ = f"loop{lid}"
        invs = spec.get("inv", [])
        if isinstance(invs, str):
            invs = [invs]
        extra0 = {"_n": VInt(n)}
        if seq is not None:
            extra0["_iter"] = seq

        def inv_at(env_, i, pc_):
            e2 = self.inv_env(spec, env_, env, dict(extra0, _i=VInt(i)))
            return [self.spec(x, e2, pc_) for x in invs]

        pc = pc + [n >= 0]
        for k, g in enumerate(inv_at(env, z3.IntVal(0), pc)):
            self.oblige("inv-init", f"{tag_}:{k}", pc, g, st.lineno)

        def havoc(env_):
            e2 = dict(env_)
            for m in mod:
                if isinstance(env_[m], VSeq) and env_[m].shape is None:
                    # an empty list literal of unknown element type modified in the loop
                    if not self.unit.lenient:
                        raise Undecided(f"list `{m}` of unknown element shape is modified in a loop (declare it in local_shapes)", st.lineno)
                    e2[m] = VObj(fresh("havoc", OBJ))
                else:
                    e2[m] = fresh_val(m, shape_of(env_[m]))
            return e2

        envh = havoc(env)
        i = fresh("i", I)
        pch = pc + [0 <= i, i < n] + inv_at(envh, i, pc)
        envb = dict(envh)
        envb["_i"] = VInt(i)
        if seq is not None:
            envb["_iter"] = seq
        self.assign(st.target, at(i), envb, pch, st.lineno)
        for o in (self.apply_body_contract(spec["body_contract"], envb, pch, st) if spec.get("body_contract") else self.run(st.body, envb, pch)):
            if o.kind in ("fall", "continue"):
                for k, g in enumerate(inv_at(o.env, i + 1, o.pc)):
                    self.oblige("inv-preserved", f"{tag_}:{k}", o.pc, g, st.lineno)
            elif o.kind == "break":
                outs.append(Outcome("fall", o.env, o.pc))
            else:
                outs.append(o)
        enve = havoc(env)
        pce = pc + inv_at(enve, n, pc)
        if st.orelse:
            outs += self.run(st.orelse, enve, pce)
        else:
            outs.append(Outcome("fall", enve, pce))
        return outs

    def apply_body_contract(self, callee, env, pc, st):
        """modular treatment of a loop body that is itself a unit under contract (a slice of the same function):
        assert its requires, havoc what it modifies, assume its ensures -- the body text is not re-executed here"""
        pc = list(pc)
        cenv = self.with_ghost(callee, {k: v for k, v in env.items()})
        for p in callee.params:
            if p not in env:
                raise Undecided(f"body contract {callee.name}: free variable {p} not bound at the loop body", st.lineno)
        for label, expr in callee.requires_items():
            self.oblige("pre@callsite", f"{callee.key}:{label}", pc, self.spec(expr, cenv, pc), st.lineno)
        post = dict(env)
        for m in callee.modifies:
            if m in env:
                post[m] = fresh_val(m, shape_of(env[m]))
                if isinstance(post[m], VSeq):
                    pc.append(post[m].len >= 0)
        penv = self.with_ghost(callee, post)
        penv["__old__"] = dict(env)
        for label, expr in callee.ensures_items():
            pc.append(self.spec(expr, penv, pc))
        self.assumptions.add(f"contract:{callee.key} (proved as its own unit)")
        return [Outcome("fall", post, pc)]

    def while_loop(self, st, env, pc):
        if _v.BOUND is not None:
            return self.while_loop_bounded(st, env, pc)
        lid, spec = self.loop_spec(st)
        outs = []
        for nm, sh in spec.get("declare", {}).items():
            if nm not in env:
                env[nm] = fresh_val(nm, sh)
        mod = self.modified_names(st.body, env)
        tag_ = f"loop{lid}"
        invs = spec.get("inv", [])
        if isinstance(invs, str):
            invs = [invs]
        variant = spec.get("variant")

        def inv_at(env_, pc_):
            e2 = self.inv_env(spec, env_, env, {})
            return [self.spec(x, e2, pc_) for x in invs]

        for k, g in enumerate(inv_at(env, pc)):
            self.oblige("inv-init", f"{tag_}:{k}", pc, g, st.lineno)

        def havoc(env_):
            e2 = dict(env_)
            for m in mod:
                if isinstance(env_[m], VSeq) and env_[m].shape is None:
                    # an empty list literal of unknown element type modified in the loop
                    if not self.unit.lenient:
                        raise Undecided(f"list `{m}` of unknown element shape is modified in a loop (declare it in local_shapes)", st.lineno)
                    e2[m] = VObj(fresh("havoc", OBJ))
                else:
                    e2[m] = fresh_val(m, shape_of(env_[m]))
            return e2

        envh = havoc(env)
        pch = pc + inv_at(envh, pc)
        t = self.truth(self.ev(st.test, envh, pch))
        self.flush_pending(envh, outs)
        v0 = None
        if variant is not None:
            e2 = self.inv_env(spec, envh, env, {})
            self.spec_depth += 1
            v0 = self.as_int(self.ev(ast.parse(variant, mode="eval").body, e2, pch), pch, st.lineno).t
            self.spec_depth -= 1
        for o in self.run(st.body, envh, pch + [t]):
            if o.kind in ("fall", "continue"):
                for k, g in enumerate(inv_at(o.env, o.pc)):
                    self.oblige("inv-preserved", f"{tag_}:{k}", o.pc, g, st.lineno)
                if variant is not None:
                    e2 = self.inv_env(spec, o.env, env, {})
                    self.spec_depth += 1
                    v1 = self.as_int(self.ev(ast.parse(variant, mode="eval").body, e2, o.pc), o.pc, st.lineno).t
                    self.spec_depth -= 1
                    self.oblige("variant-decreases", tag_, o.pc, z3.And(v0 >= 0, v1 < v0), st.lineno)
            elif o.kind == "break":
                outs.append(Outcome("fall", o.env, o.pc))
            else:
                outs.append(o)
        enve = havoc(env)
        pce = pc + inv_at(enve, pc)
        te = self.truth(self.ev(st.test, enve, pce))
        pce = pce + [z3.Not(te)]
        if st.orelse:
            outs += self.run(st.orelse, enve, pce)
        else:
            outs.append(Outcome("fall", enve, pce))
        return outs
