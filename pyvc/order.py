"""Iteration-order typing (C06): the order in which a set is iterated never reaches a result.

Python fixes neither the iteration order of a set of strings (string-hash seed) nor that of a set of AST nodes (addresses).  A function's
result is independent of both if no value whose ORDER or CHOICE derives from iterating a set reaches what it returns or yields.  This module
decides that by a flow-sensitive abstract interpretation of every function of the package over the real AST, inter-procedural through
summaries (result of a function, kinds of the arguments it is called with).

Abstract values
    CLEAN            no dependence on an iteration order
    UNORD            a set / frozenset (contents order-free; iterating it is where order is born)
    TAINT(origins)   a sequence, iterator, mapping or scalar whose order / choice derives from iterating an UNORD value at the `origins`
                     (site = module.function:<text of the iterated expression>)
Order is FORGOTTEN by: sorted(), set(), frozenset(), len, any, all, sum (one argument), min, max, membership, set comprehensions,
set algebra, `.update/.add/.discard` on sets, collections.Counter.  Order ESCAPES through: a for loop / list, dict or generator comprehension
over UNORD or TAINT whose body yields, returns a non-constant, breaks, appends, extends, inserts, stores into a mapping, re-assigns a
variable from its previous value (a fold), or calls anything not known to commute; list(), tuple(), iter(), next(), enumerate(), zip(), map(),
filter(), reversed(), str.join(), .pop(), star-unpacking of such a value.

One obligation per (root function, origin site): "the iteration order at <origin> does not reach the result of <root>" where the roots
are the functions of the package that no other function of the package calls by name (rules, entry points) plus every function wrapped by
the scheduler decorators.  Verdicts: no tainted value reaches a result -> discharged;  a tainted value reaches a result and the site is
not in the reviewed list -> refuted (the flow is reported: origin, the statements it went through);  anything the interpretation cannot
classify (dynamic calls, attribute stores of sets, values of unknown type iterated) is not an origin -> stays with the bounded hash-seed runs.

Assumptions (stated, not mechanised): sort keys are total on the elements that occur (sorted / min / max with key=: recorded per site);
objects reached through attributes (self.x) and module globals are not sets built in this function; the abstract transfer functions above.
"""
import ast
import os

REPO = os.environ.get("PYREFACT_REPO", "/repo")
MODULES = ["core", "processing", "fixes", "performance", "performance_numpy", "performance_pandas", "object_oriented", "abstractions", "symbolic_math", "tracing",
           "parsing", "main", "formatting", "style", "pattern_matching", "constants", "logs"]

FORGET = {"sorted", "set", "frozenset", "len", "any", "all", "min", "max", "bool", "isinstance", "collections.Counter", "Counter", "hash", "id", "type", "print", "repr_",
          "issubclass", "callable", "hasattr"}
SET_MAKERS = {"set", "frozenset"}
SET_METHODS = {"union", "intersection", "difference", "symmetric_difference", "copy"}
SET_COMMUTING_METHODS = {"add", "update", "discard", "difference_update", "intersection_update", "symmetric_difference_update"}
SEQ_MUTATORS = {"append", "extend", "insert", "appendleft", "extendleft", "setdefault", "write", "writelines"}
# effect-free calls that may appear as statements / in conditions inside a loop without making the loop order-sensitive
LOG_CALLS = ("logger.",)


class V:
    __slots__ = ("kind", "origins")

    def __init__(self, kind, origins=frozenset()):
        self.kind = kind
        self.origins = frozenset(origins)

    def __repr__(self):
        return self.kind if self.kind != "TAINT" else f"TAINT{sorted(self.origins)}"

    def __eq__(self, o):
        return isinstance(o, V) and self.kind == o.kind and self.origins == o.origins

    def __hash__(self):
        return hash((self.kind, self.origins))


CLEAN = V("CLEAN")
UNORD = V("UNORD")
MAPSET = V("MAPSET")        # a mapping whose VALUES are sets (collections.defaultdict(set)): its items are reached in insertion order, each value is UNORD


def TAINT(origins):
    return V("TAINT", origins)


def join(a, b):
    if a is None:
        return b
    if b is None:
        return a
    if a.kind == "TAINT" or b.kind == "TAINT":
        return TAINT((a.origins if a.kind == "TAINT" else frozenset()) | (b.origins if b.kind == "TAINT" else frozenset()))
    if a.kind == "UNORD" or b.kind == "UNORD":
        return UNORD
    if a.kind == "MAPSET" or b.kind == "MAPSET":
        return MAPSET
    return CLEAN


def is_set_annotation(a):
    if a is None:
        return False
    t = ast.unparse(a).replace("typing.", "")
    return t in ("set", "frozenset", "Set", "FrozenSet", "AbstractSet") or t.startswith(("Set[", "set[", "FrozenSet[", "frozenset[", "AbstractSet["))


def dotted(e):
    try:
        return ast.unparse(e)
    except Exception:
        return "?"


class Func:
    def __init__(self, mod, qual, node, decorators):
        self.mod, self.qual, self.node = mod, qual, node
        self.key = f"{mod}.{qual}"
        self.decorators = decorators
        self.ret = CLEAN                    # summary: join of everything returned / yielded
        self.flows = {}                     # origin -> list of (line, text) it went through on the way to a result
        self.param_in = {}                  # parameter name -> join of the argument kinds at the package's call sites
        self.callers = set()
        self.waived = []                    # yields of explicitly numbered transactions inside an order-dependent loop
        self.key_sites = []                 # (line, text): sorted / min / max with key= applied to an unordered value


class Package:
    def __init__(self):
        self.funcs = {}          # "mod.qual" -> Func
        self.by_name = {}        # simple name -> [Func]
        self.sources = {}
        for m in MODULES:
            p = os.path.join(REPO, "pyrefact", m + ".py")
            if not os.path.exists(p):
                continue
            text = open(p).read()
            self.sources[m] = text
            tree = ast.parse(text)
            self._collect(m, tree, "")

    def _collect(self, mod, node, prefix):
        for ch in ast.iter_child_nodes(node):
            if isinstance(ch, (ast.FunctionDef, ast.AsyncFunctionDef)):
                q = prefix + ch.name
                f = Func(mod, q, ch, [dotted(d) for d in ch.decorator_list])
                self.funcs[f.key] = f
                self.by_name.setdefault(ch.name, []).append(f)
                self._collect(mod, ch, q + ".")
            elif isinstance(ch, ast.ClassDef):
                self._collect(mod, ch, prefix + ch.name + ".")
            elif isinstance(ch, (ast.If, ast.Try, ast.With, ast.For, ast.While)):
                self._collect(mod, ch, prefix)

    def resolve(self, mod, call):
        """package function a call expression refers to (by simple or module-qualified name), or None"""
        f = call.func
        if isinstance(f, ast.Name):
            c = [x for x in self.by_name.get(f.id, []) if x.mod == mod] or self.by_name.get(f.id, [])
            return c[0] if len(c) == 1 else None
        if isinstance(f, ast.Attribute) and isinstance(f.value, ast.Name) and f.value.id in self.sources:
            return self.funcs.get(f"{f.value.id}.{f.attr}")
        return None


class Interp:
    def __init__(self, pkg, fn):
        self.pkg, self.fn = pkg, fn
        self.ctx = []            # stack of order contexts: frozenset of origins of the loops we are inside
        self.rebound = []        # per order-dependent loop: the names re-bound in its body
        self.loop_names = []     # per order-dependent loop: its targets and every name stored in its body
        self.ret = CLEAN
        self.flows = {}
        self.changed_params = False

    # ------------------------------------------------------------------ helpers
    def site(self, e):
        return f"{self.fn.key}:{dotted(e)[:70]}"

    def ctx_origins(self):
        out = frozenset()
        for c in self.ctx:
            out |= c
        return out

    def note(self, origins, node, what):
        for o in origins:
            if o.startswith("@"):
                continue
            self.flows.setdefault(o, [])
            rec = (getattr(node, "lineno", 0), what)
            if rec not in self.flows[o] and len(self.flows[o]) < 12:
                self.flows[o].append(rec)

    def born(self, v, e):
        """origins of iterating a value of kind v at expression e"""
        if v.kind == "UNORD":
            return frozenset([self.site(e)])
        if v.kind == "TAINT":
            # '@param:p' = derived from the VALUE of parameter p; iterating such a value adds '@iter:p' = derived from the ORDER in which p is iterated
            return v.origins | {"@iter:" + o[7:] for o in v.origins if o.startswith("@param:")}
        return frozenset()

    # ------------------------------------------------------------------ expressions
    def ev(self, e, env):
        if e is None:
            return CLEAN
        m = getattr(self, "e_" + type(e).__name__, None)
        if m:
            return m(e, env)
        # default: join of the sub-expressions' taint (a value computed from an order-dependent value is order-dependent)
        out = CLEAN
        for ch in ast.iter_child_nodes(e):
            if isinstance(ch, ast.expr):
                v = self.ev(ch, env)
                if v.kind == "TAINT":
                    out = join(out, v)
        return out

    def e_Constant(self, e, env):
        return CLEAN

    def e_Name(self, e, env):
        return env.get(e.id, CLEAN)

    def e_Set(self, e, env):
        for x in e.elts:
            self.ev(x, env)
        return UNORD

    def e_SetComp(self, e, env):
        self.comp(e, env, forget=True)
        return UNORD

    def e_ListComp(self, e, env):
        return self.comp(e, env)

    def e_GeneratorExp(self, e, env):
        return self.comp(e, env)

    def e_DictComp(self, e, env):
        return self.comp(e, env)

    def comp(self, e, env, forget=False):
        env = dict(env)
        origins = frozenset()
        for g in e.generators:
            it = self.ev(g.iter, env)
            o = self.born(it, g.iter)
            origins |= o
            for n in ast.walk(g.target):
                if isinstance(n, ast.Name):
                    env[n.id] = CLEAN
            for c in g.ifs:
                v = self.ev(c, env)
                if v.kind == "TAINT":
                    origins |= v.origins
        elts = [e.key, e.value] if isinstance(e, ast.DictComp) else [e.elt]
        for x in elts:
            v = self.ev(x, env)
            if v.kind == "TAINT":
                origins |= v.origins
        if forget or not origins:
            return UNORD if forget else CLEAN
        self.note(origins, e, f"{type(e).__name__} over it")
        return TAINT(origins)

    def e_BinOp(self, e, env):
        l, r = self.ev(e.left, env), self.ev(e.right, env)
        if isinstance(e.op, (ast.BitOr, ast.BitAnd, ast.Sub, ast.BitXor)) and "UNORD" in (l.kind, r.kind):
            return UNORD            # set algebra with a set gives a set, whatever the other operand's order depended on
        if l.kind == "TAINT" or r.kind == "TAINT":
            return join(l if l.kind == "TAINT" else CLEAN, r if r.kind == "TAINT" else CLEAN)
        return CLEAN

    def e_IfExp(self, e, env):
        t = self.ev(e.test, env)
        v = join(self.ev(e.body, env), self.ev(e.orelse, env))
        return join(v, t) if t.kind == "TAINT" else v

    def e_BoolOp(self, e, env):
        out = CLEAN
        for x in e.values:
            out = join(out, self.ev(x, env))
        return out

    def e_Compare(self, e, env):
        # membership and comparisons of sets are order-free; a tainted operand taints the result
        out = CLEAN
        for x in [e.left] + e.comparators:
            v = self.ev(x, env)
            if v.kind == "TAINT":
                out = join(out, v)
        return out

    def e_NamedExpr(self, e, env):
        v = self.ev(e.value, env)
        env[e.target.id] = v
        return v

    def e_Starred(self, e, env):
        v = self.ev(e.value, env)
        o = self.born(v, e.value)
        if o:
            self.note(o, e, "star-unpacked")
            return TAINT(o)
        return CLEAN

    def e_Subscript(self, e, env):
        v = self.ev(e.value, env)
        if v.kind == "MAPSET":
            self.ev(e.slice, env)
            return UNORD
        s = self.ev(e.slice, env)
        out = CLEAN
        if v.kind == "TAINT":
            out = join(out, v)
        if s.kind == "TAINT":
            out = join(out, s)
        return out

    def e_Attribute(self, e, env):
        v = self.ev(e.value, env)
        return v if v.kind == "TAINT" else CLEAN

    def e_Lambda(self, e, env):
        return CLEAN

    def e_Await(self, e, env):
        return self.ev(e.value, env)

    def e_Call(self, e, env):
        name = dotted(e.func)
        args = [self.ev(a, env) for a in e.args]
        kws = {k.arg: self.ev(k.value, env) for k in e.keywords}
        allv = args + list(kws.values())
        simple = name.split(".")[-1]
        # set constructors and order-forgetting consumers
        if name in SET_MAKERS:
            return UNORD
        if name in ("collections.defaultdict", "defaultdict") and len(e.args) == 1 and dotted(e.args[0]) in ("set", "frozenset"):
            return MAPSET
        if name in FORGET or name == "sum" and len(e.args) == 1:
            if name in ("sorted", "min", "max") and "key" in kws and any(v.kind == "UNORD" or any(not o.startswith("@") for o in v.origins) for v in args):
                self.fn.key_sites.append((e.lineno, dotted(e)[:90]))
            if name == "sorted" and any(v.kind in ("UNORD", "TAINT") for v in args) and not e.keywords:
                pass
            return CLEAN
        if isinstance(e.func, ast.Attribute):
            recv = self.ev(e.func.value, env)
            if recv.kind == "UNORD":
                if e.func.attr in SET_METHODS:
                    return UNORD
                if e.func.attr in SET_COMMUTING_METHODS or e.func.attr in ("issubset", "issuperset", "isdisjoint", "__contains__"):
                    return CLEAN
                if e.func.attr == "pop":
                    o = self.born(recv, e.func.value)
                    self.note(o, e, "an arbitrary element is popped")
                    return TAINT(o)
            if e.func.attr == "join" and args:
                o = self.born(args[0], e.args[0])
                if o:
                    self.note(o, e, "joined into a string")
                    return TAINT(o)
            if e.func.attr in SET_METHODS and any(v.kind == "UNORD" for v in allv) and recv.kind != "TAINT" and not any(v.kind == "TAINT" for v in allv):
                return UNORD            # frozenset().union(*sets)
            if e.func.attr in ("keys", "values", "items", "get", "copy") and recv.kind == "TAINT":
                return recv
        if name == "tuple" and len(e.args) == 1 and isinstance(e.args[0], ast.Set) and all(
                isinstance(x.value if isinstance(x, ast.Starred) else x, ast.Attribute) and dotted(x.value if isinstance(x, ast.Starred) else x).startswith(("constants.", "ast."))
                for x in e.args[0].elts):
            return CLEAN        # a tuple of node TYPES (isinstance / walk filters): its order is never observed  [stated assumption]
        # sequence makers: order of an unordered argument is born here
        if name in ("list", "tuple", "iter", "next", "enumerate", "zip", "map", "filter", "reversed", "dict", "dict.fromkeys", "collections.deque", "deque",
                    "itertools.chain", "itertools.chain.from_iterable", "itertools.islice", "itertools.zip_longest", "itertools.product", "itertools.combinations",
                    "itertools.permutations", "collections.OrderedDict", "sum", "str", "repr", "ast.Tuple", "ast.List", "ast.Set"):
            o = frozenset()
            for v, a in zip(args, e.args):
                o |= self.born(v, a)
            for v in kws.values():
                if v.kind == "TAINT":
                    o |= v.origins
            if o:
                self.note(o, e, f"{name}() of it")
                return TAINT(o)
            return CLEAN
        callee = self.pkg.resolve(self.fn.mod, e)
        if callee is not None:
            callee.callers.add(self.fn.key)
            params = [a.arg for a in callee.node.args.posonlyargs + callee.node.args.args]
            for i, v in enumerate(args):
                if i < len(params):
                    self.pass_arg(callee, params[i], v)
            for k, v in kws.items():
                if k is not None:
                    self.pass_arg(callee, k, v)
            out = CLEAN if callee.ret.kind == "TAINT" else callee.ret
            if callee.ret.kind == "TAINT":
                # the callee's summary is parametric: '@param:p' stands for "whatever order the argument for p depends on"
                bound = {}
                for i, v in enumerate(args):
                    if i < len(params):
                        bound[params[i]] = v
                for k, v in kws.items():
                    if k is not None:
                        bound[k] = v
                got = frozenset()
                for o in callee.ret.origins:
                    if o.startswith("@param:"):
                        v = bound.get(o[7:])
                        if v is not None and v.kind == "TAINT":
                            got |= v.origins
                    elif o.startswith("@iter:"):
                        v = bound.get(o[6:])
                        if v is not None and v.kind == "UNORD":
                            # the callee's result depends on the order of this argument, and the argument is a set: order is born here
                            pos = [a for a, b in zip(e.args, args) if b is v] + [k.value for k in e.keywords if kws.get(k.arg) is v]
                            site = self.site(pos[0] if pos else e)
                            self.note([site], e, f"passed to {callee.key}, whose result follows the order in which `{o[6:]}` is iterated")
                            got |= {site}
                        elif v is not None and v.kind == "TAINT":
                            got |= {"@iter:" + x[7:] for x in v.origins if x.startswith("@param:")}
                    else:
                        got |= {o}
                        for rec in callee.flows.get(o, []):
                            self.note([o], ast.Constant(value=0, lineno=rec[0]), rec[1])
                        self.note([o], e, f"returned by {callee.key}")
                if got:
                    out = TAINT(got)
            return out
        # unknown callee: UNORD arguments stay inside (contents are order-free); TAINT arguments taint the result
        out = CLEAN
        for v in allv:
            if v.kind == "TAINT":
                out = join(out, v)
        if isinstance(e.func, ast.Attribute):
            recv = self.ev(e.func.value, env)
            if recv.kind == "TAINT":
                out = join(out, recv)
        return out

    def pass_arg(self, callee, pname, v):
        return                  # arguments are accounted for through the parametric summary ('@param:p'), not merged over call sites
        if v.kind != "UNORD":
            return
        old = callee.param_in.get(pname)
        new = join(old, v)
        if new != old:
            callee.param_in[pname] = new
            self.changed_params = True

    # ------------------------------------------------------------------ statements
    def assign(self, target, v, env, node):
        ctx = self.ctx_origins()
        if isinstance(target, ast.Name):
            if ctx and v.kind != "UNORD" and not self.is_constant_like(getattr(node, "value", None)) and self.rebound:
                # a variable re-bound inside an order-dependent loop keeps the value of the LAST (or, with break, some) iteration: what it holds
                # AFTER the loop depends on the order (inside one iteration it is a function of the current element)
                self.rebound[-1].add((target.id, node))
            env[target.id] = v
        elif isinstance(target, (ast.Tuple, ast.List)):
            for t in target.elts:
                self.assign(t.value if isinstance(t, ast.Starred) else t, v if v.kind == "TAINT" else CLEAN, env, node)
        elif isinstance(target, ast.Subscript):
            base = target.value
            if isinstance(base, ast.Name):
                cur = env.get(base.id, CLEAN)
                if cur.kind == "UNORD":
                    return
                add = frozenset(ctx) | (v.origins if v.kind == "TAINT" else frozenset())
                if add:
                    self.note(add, node, f"stored into `{base.id}[...]`")
                    env[base.id] = join(cur, TAINT(add))
        elif isinstance(target, ast.Attribute):
            pass

    @staticmethod
    def is_constant_like(e):
        return e is None or isinstance(e, ast.Constant) or (isinstance(e, ast.UnaryOp) and isinstance(e.operand, ast.Constant))

    def block(self, stmts, env):
        for s in stmts:
            self.stmt(s, env)

    def stmt(self, s, env):
        m = getattr(self, "s_" + type(s).__name__, None)
        if m:
            return m(s, env)
        for ch in ast.iter_child_nodes(s):
            if isinstance(ch, ast.expr):
                self.ev(ch, env)

    def s_Assign(self, s, env):
        v = self.ev(s.value, env)
        for t in s.targets:
            self.assign(t, v, env, s)

    def s_AnnAssign(self, s, env):
        v = self.ev(s.value, env) if s.value else CLEAN
        if is_set_annotation(s.annotation) and v.kind != "TAINT":
            v = UNORD
        self.assign(s.target, v, env, s)

    def s_AugAssign(self, s, env):
        v = self.ev(s.value, env)
        if isinstance(s.target, ast.Name):
            cur = env.get(s.target.id, CLEAN)
            if cur.kind == "UNORD" and v.kind != "TAINT":
                return
            ctx = self.ctx_origins()
            commut = isinstance(s.op, (ast.BitOr, ast.BitAnd, ast.BitXor)) or (isinstance(s.op, (ast.Add, ast.Sub, ast.Mult)) and isinstance(s.value, ast.Constant) and isinstance(s.value.value, (int, float)))
            add = (v.origins if v.kind == "TAINT" else frozenset()) | (frozenset() if commut else ctx)
            if add:
                self.note(add, s, f"`{s.target.id}` accumulated in loop order")
                env[s.target.id] = join(cur, TAINT(add))
        else:
            self.assign(s.target, v, env, s)

    def s_Expr(self, s, env):
        e = s.value
        if isinstance(e, (ast.Yield, ast.YieldFrom)):
            return self.do_yield(e, env)
        if isinstance(e, ast.Call) and isinstance(e.func, ast.Attribute) and isinstance(e.func.value, ast.Name):
            recv_name = e.func.value.id
            recv = env.get(recv_name, CLEAN)
            args = [self.ev(a, env) for a in e.args]
            if recv.kind == "UNORD" and e.func.attr in SET_COMMUTING_METHODS | {"remove", "clear"}:
                return
            if e.func.attr in SEQ_MUTATORS or (e.func.attr == "update" and recv.kind != "UNORD"):
                add = self.ctx_origins()
                for v, a in zip(args, e.args):
                    add |= self.born(v, a) if e.func.attr in ("extend", "extendleft", "update", "writelines") else (v.origins if v.kind == "TAINT" else frozenset())
                if add:
                    self.note(add, s, f"`{recv_name}.{e.func.attr}(...)` in loop order")
                    env[recv_name] = join(recv if recv.kind == "TAINT" else CLEAN, TAINT(add))
                return
            if e.func.attr == "sort" and not e.keywords:
                env[recv_name] = CLEAN
                return
        if isinstance(e, ast.Call) and dotted(e.func).startswith(LOG_CALLS):
            return
        v = self.ev(e, env)
        ctx = self.ctx_origins()
        if ctx and isinstance(e, ast.Call):
            # a call statement in an order-dependent loop: an effect performed in set order (unknown callee)
            self.note(ctx, s, f"call `{dotted(e.func)}(...)` performed in loop order")
            self.effect = join(getattr(self, "effect", CLEAN), TAINT(ctx))

    def do_yield(self, e, env):
        v = self.ev(e.value, env) if e.value is not None else CLEAN
        add = frozenset()
        if isinstance(e, ast.YieldFrom):
            add |= self.born(v, e.value)
        elif v.kind == "TAINT":
            add |= v.origins
        ctx = self.ctx_origins()
        # an item `(old, new, transaction)` with an explicit transaction number: the scheduler's result does not depend on the order in which the
        # items of one numbered transaction arrive (final-sort contract) - whether the yield stands in a rule or in a helper the rule draws from
        # (`yield from helper(...)`).  The transaction number itself must not be order-dependent (a parameter is judged at the call site).
        third = self.ev(e.value.elts[2], env) if isinstance(e, ast.Yield) and isinstance(e.value, ast.Tuple) and len(e.value.elts) == 3 else None
        explicit = third is not None and (third.kind != "TAINT" or all(o.startswith("@param:") for o in third.origins))
        if ctx and explicit:
            self.fn.waived.append((e.lineno, dotted(e)[:80]))
        elif ctx:
            add |= ctx
        if add:
            self.note(add, e, "yielded in loop order" if ctx else "an order-dependent value is yielded")
            self.ret = join(self.ret, TAINT(add))

    def s_Return(self, s, env):
        v = self.ev(s.value, env) if s.value is not None else CLEAN
        add = v.origins if v.kind == "TAINT" else frozenset()
        ctx = self.ctx_origins()
        # leaving from inside an order-dependent loop: WHICH element triggers it depends on the order, but a returned expression that mentions
        # neither the loop variables nor anything assigned in the loop is the same whichever element it was (the shape of any() / all())
        mentioned = {n.id for n in ast.walk(s.value) if isinstance(n, ast.Name)} if s.value is not None else set()
        loop_names = set().union(*self.loop_names) if self.loop_names else set()
        if ctx and not self.is_constant_like(s.value) and (mentioned & loop_names):
            add |= ctx
            self.note(ctx, s, "returns from inside the loop (the first element that qualifies wins)")
        elif add:
            self.note(add, s, "an order-dependent value is returned")
        if v.kind == "UNORD" and self.ret.kind == "CLEAN":
            self.ret = UNORD
        if add:
            self.ret = join(self.ret, TAINT(add))

    def loop_over(self, target, it_expr, body, orelse, env, node):
        it = self.ev(it_expr, env)
        o = self.born(it, it_expr)
        for n in ast.walk(target):
            if isinstance(n, ast.Name):
                env[n.id] = CLEAN
        if isinstance(it_expr, ast.Call) and isinstance(it_expr.func, ast.Attribute) and it_expr.func.attr in ("items", "values") and self.ev(it_expr.func.value, env).kind == "MAPSET":
            tv = target.elts[1] if it_expr.func.attr == "items" and isinstance(target, ast.Tuple) and len(target.elts) == 2 else target if it_expr.func.attr == "values" else None
            if isinstance(tv, ast.Name):
                env[tv.id] = UNORD
        if o:
            self.ctx.append(o)
            self.rebound.append(set())
            self.loop_names.append({n.id for n in ast.walk(target) if isinstance(n, ast.Name)} | {n.id for st in body for n in ast.walk(st) if isinstance(n, ast.Name) and isinstance(n.ctx, ast.Store)})
        # two rounds so that values assigned late in the body reach its start
        self.block(body, env)
        self.block(body, env)
        if o:
            self.ctx.pop()
            self.loop_names.pop()
            for name, where in sorted(self.rebound.pop(), key=lambda t: t[0]):
                self.note(o, where, f"`{name}` re-bound in the loop (its value after the loop is that of the last iteration)")
                env[name] = join(env.get(name, CLEAN), TAINT(o))
            has_break = any(isinstance(n, ast.Break) for st in body for n in ast.walk(st))
            if has_break:
                self.note(o, node, "loop left by break (which element ends it depends on the order)")
                for n in ast.walk(target):
                    if isinstance(n, ast.Name):
                        env[n.id] = TAINT(o)
                for st in body:
                    for n in ast.walk(st):
                        if isinstance(n, ast.Assign):
                            for t in n.targets:
                                if isinstance(t, ast.Name):
                                    env[t.id] = join(env.get(t.id, CLEAN), TAINT(o))
        self.block(orelse, env)

    def s_For(self, s, env):
        self.loop_over(s.target, s.iter, s.body, s.orelse, env, s)

    s_AsyncFor = s_For

    def s_While(self, s, env):
        self.ev(s.test, env)
        self.block(s.body, env)
        self.block(s.body, env)
        self.block(s.orelse, env)

    def s_If(self, s, env):
        t = self.ev(s.test, env)
        pushed = False
        if t.kind == "TAINT":
            self.ctx.append(t.origins)
            pushed = True
        e1, e2 = dict(env), dict(env)
        self.block(s.body, e1)
        self.block(s.orelse, e2)
        if pushed:
            self.ctx.pop()
        # a branch that always leaves (continue / break / return / raise) does not reach the statements after the `if`
        live = [e for e, blk in ((e1, s.body), (e2, s.orelse)) if not (blk and isinstance(blk[-1], (ast.Continue, ast.Break, ast.Return, ast.Raise)))] or [e1, e2]
        for k in set().union(*[set(e) for e in live]):
            v = None
            for e in live:
                v = join(v, e.get(k, CLEAN))
            env[k] = v

    def s_Try(self, s, env):
        self.block(s.body, env)
        for h in s.handlers:
            self.block(h.body, env)
        self.block(s.orelse, env)
        self.block(s.finalbody, env)

    s_TryStar = s_Try

    def s_With(self, s, env):
        for it in s.items:
            v = self.ev(it.context_expr, env)
            if it.optional_vars is not None:
                self.assign(it.optional_vars, v, env, s)
        self.block(s.body, env)

    s_AsyncWith = s_With

    def s_FunctionDef(self, s, env):
        pass            # nested functions are analysed as functions of their own

    s_AsyncFunctionDef = s_FunctionDef
    s_ClassDef = s_FunctionDef

    def s_Delete(self, s, env):
        pass

    def s_Match(self, s, env):
        self.ev(s.subject, env)
        for c in s.cases:
            self.block(c.body, env)

    # ------------------------------------------------------------------ driver
    def run(self):
        env = {}
        a = self.fn.node.args
        for p in a.posonlyargs + a.args + a.kwonlyargs:
            v = self.fn.param_in.get(p.arg)
            if is_set_annotation(p.annotation):
                v = join(v, UNORD)
            env[p.arg] = v if v is not None else TAINT(["@param:" + p.arg])
        # yields used as expressions (x = yield ...) do not occur in the package; generators are statements
        self.block(self.fn.node.body, env)
        return self.ret, self.flows


# summaries that are ASSUMED, not derived (each is listed in the evidence as an assumption)
ASSUMED_CLEAN = {
    "core.match_template": "set-valued templates are alternatives tried in set order: which alternative matches first is assumed not to change the "
                           "captures (the package's set templates hold wildcard-free node types / constants)",
}

SCHEDULER_DECORATORS = ("processing.fix", "fix", "processing.chain")


def analyse():
    pkg = Package()
    pkg.scheduled = {f.key for f in pkg.funcs.values() if any(d.split("(")[0] in SCHEDULER_DECORATORS for d in f.decorators)}
    for _ in range(8):
        changed = False
        for f in pkg.funcs.values():
            it = Interp(pkg, f)
            f.key_sites = []
            f.waived = []
            ret, flows = it.run()
            if f.key in ASSUMED_CLEAN:
                ret, flows = CLEAN, {}
            if ret != f.ret or flows != f.flows:
                f.ret, f.flows = ret, flows
                changed = True
            changed = changed or it.changed_params
        if not changed:
            break
    return pkg


def roots(pkg):
    out = []
    for f in pkg.funcs.values():
        decorated = any(d.split("(")[0] in SCHEDULER_DECORATORS for d in f.decorators)
        if decorated or not (f.callers - {f.key}):
            out.append(f)
    return out


if __name__ == "__main__":
    pkg = analyse()
    n = 0
    for f in sorted(pkg.funcs.values(), key=lambda f: f.key):
        if f.ret.kind == "TAINT":
            isroot = f in roots(pkg)
            for o in sorted(x for x in f.ret.origins if not x.startswith("@")):
                n += 1
                print(("ROOT " if isroot else "     ") + f.key, "<-", o)
                for line, what in f.flows.get(o, []):
                    print("        L%s %s" % (line, what))
    print(n, "tainted (function, origin) pairs;", len(pkg.funcs), "functions")
