"""Bounded stand-in for C09: x, F(x), F(F(x)), ... for F = pyrefact.format_code with every option combination.

Contract: the sequence reaches a fixed point within 5 applications (x_k == x_{k+1} for some k <= 5), stays there (x_{k+2} == x_{k+1}),
and never returns to an earlier, different text (no cycle).  6 applications are made per input.
Inputs: corpus sample + targeted modules (if/else orientation with early exits and dead code inside while / for-else bodies, literal vs
comprehension forms, blank-line layouts, nested abstractions).
"""
import itertools
import textwrap
import random

from . import pipeline as P

TARGETED = [
    "def f(xs):\n    while xs:\n        x = xs.pop()\n        if x:\n            a = 1\n            b = 2\n            c = 3\n            raise ValueError(a, b, c)\n        continue\n        if x > 2:\n            print(x)\n\n    return 1\n",
    "def f(xs):\n    for x in xs:\n        if x:\n            a = 1\n            b = 2\n            c = 3\n            return a + b + c\n        else:\n            continue\n    else:\n        if xs:\n            return 2\n        return 3\n        if xs:\n            pass\n\n    return 1\n",
    "def f(x):\n    if x:\n        return 1\n    else:\n        y = 2\n        z = 3\n        w = 4\n        return y + z + w\n",
    "def f(x, y):\n    if x:\n        if y:\n            return 1\n        else:\n            return 2\n    else:\n        if y:\n            return 3\n        return 4\n",
    "def f(x):\n    out = []\n    for i in x:\n        if i:\n            out.append(i * 2)\n    return out\n\n\ndef g(x):\n    return list(i * 2 for i in x if i)\n",
    "x = [1, 2, 3]\n\n\n\n\ny = 2\nif x:\n\n    print(y)\n\n\n\nprint(x)\n",
    "def f(a):\n    if a == 1:\n        return 'a'\n    elif a == 2:\n        return 'b'\n    elif a == 3:\n        return 'c'\n    else:\n        return 'd'\n\n\nprint(f(1))\n",
    "import os\n\n\ndef main():\n    values = []\n    for name in os.listdir('.'):\n        if name.endswith('.py'):\n            values.append(name)\n    print(values)\n\n\nif __name__ == '__main__':\n    main()\n",
    "class A:\n    def f(self, x):\n        return x + 1\n\n    def g(self, y):\n        return y + 1\n\n    @staticmethod\n    def h(z):\n        return z + 1\n\n\nprint(A().f(1), A().g(2), A.h(3))\n",
    "def f(x):\n    for i in range(10):\n        if i in x:\n            continue\n        else:\n            print(i)\n            print(i + 1)\n            print(i + 2)\n            print(i + 3)\n",
    "def f(x):\n    y = x * 1000\n    z = x * 1000\n    w = x * 1000\n    q = x * 1000\n    r = x * 1000\n    return y, z, w, q, r, 1000, 1000, 1000\n\n\nprint(f(3))\n",
    "def f(a, b):\n    if not a:\n        if not b:\n            return 0\n    return 1\n\n\ndef g(a, b):\n    if a:\n        pass\n    else:\n        return b\n    return a\n\n\nprint(f(1, 2), g(1, 2))\n",
]


def orientation_family():
    """if-with-blocking-body followed by an early exit and stale code, inside loop / loop-else bodies: the orientation heuristic of the
    if/else swap can prefer both orientations of such an `if` (an inner 2-cycle of the rule pipeline that the history logic must absorb)"""
    out = []
    for n_stmts, exit_kw, tail_exit, host, blank in itertools.product((3, 4, 5), ("continue", "break", "return 1"), ("raise ValueError(limit)", "return limit"), ("while", "forelse"), (True, False)):
        body = "".join(f'            sys.stdout.write("{chr(97 + k)}")\n' for k in range(n_stmts))
        if host == "while":
            if exit_kw == "return 1" and False:
                continue
            src = ("import sys\n\n\ndef _drain(queue, limit):\n    while queue:\n        item = queue.pop()\n        if item is None and limit < 2:\n" + body
                   + f"            {tail_exit}\n        {exit_kw}\n        if item == 8:\n            sys.stdout.write(\"e\")\n" + ("\n" if blank else "") + "    return limit\n\n\nprint(_drain([1], 2))\n")
        else:
            if exit_kw in ("continue", "break"):
                continue
            src = ("import sys\n\n\ndef _drain(queue, limit):\n    for item in queue:\n        sys.stdout.write(str(item))\n    else:\n        if queue and limit < 2:\n" + body
                   + f"            {tail_exit}\n        {exit_kw}\n        if limit == 8:\n            sys.stdout.write(\"e\")\n" + ("\n" if blank else "") + "    return limit\n\n\nprint(_drain([1], 2))\n")
        out.append(src)
    return out


def fallback_family():
    """a fast path of several statements ending in an exit, followed by ONE compound statement that always exits (with / while True / try /
    if-else) and contains a nested `if`; the fast path holds something the layout stage spells differently from ast.unparse (a power, an
    over-long call), so that a swap of the two branches is not absorbed by whitespace minimisation.  As explicit else and as fall-through."""
    out = []
    spice = {"power": "entry.weight = entry.hits ** 2", "long": "entry.note(entry.title, entry.body, entry.author, entry.reviewers, entry.attachments, entry.flags, entry.more, 1)", "plain": "entry.note(1)"}
    fallbacks = {
        "with": ["with lock:", "    if loader.ready():", "        loader.refresh(key)", "    {exit}"],
        "while-true": ["while True:", "    if loader.ready():", "        {exit}", "    loader.sleep(1)"],
        "try-finally": ["try:", "    if loader.ready():", "        loader.refresh(key)", "    {exit}", "finally:", "    loader.close()"],
        "if-else": ["if loader.ready():", "    loader.refresh(key)", "    {exit}", "else:", "    {exit}"],
    }
    for n_fast, (host, ex, ex2), (fname, fb), (sname, sp), explicit_else in itertools.product(
            (4, 5), (("def", "return entry.value", "return loader.load(key)"), ("for", "continue", "continue")), fallbacks.items(), spice.items(), (False, True)):
        if host == "for" and fname == "while-true":
            continue
        fast = ["entry = cache[key]", "entry.hits += 1", sp, "cache.touch(key)", "cache.mark(key)"][:n_fast] + [ex]
        fbl = [l.replace("{exit}", ex2) for l in fb]
        if explicit_else:
            block = ["if key in cache:"] + ["    " + l for l in fast] + ["else:"] + ["    " + l for l in fbl]
        else:
            block = ["if key in cache:"] + ["    " + l for l in fast] + [""] + fbl
        if host == "def":
            src = "def fetch(cache, key, loader, lock):\n" + "\n".join("    " + l if l else "" for l in block) + "\n\n\nprint(fetch({}, 1, None, None))\n"
        else:
            src = "def drain(cache, keys, loader, lock):\n    for key in keys:\n" + "\n".join("        " + l if l else "" for l in block) + "\n\n\ndrain({}, [], None, None)\n"
        out.append(src)
    return out


def wrapping_family():
    """nested statements whose lines are a little longer than a short line-length setting: the wrapping step sees an enclosing statement at the
    full width and its nested statements at the width left after their indentation"""
    out = []
    for limit in (60, 79):
        for depth in (1, 2, 3, 4):
            indent = 4 * (depth + 1)
            for extra in sorted({1, 2, indent - 1, indent, indent + 1}):
                target = limit + extra
                prefix = "result = compute(first, "
                k = target - indent - len(prefix) - 1
                if k < 1:
                    continue
                arg = "a" * k
                head = "".join("    " * (d + 1) + f"if flag_{d}:\n" for d in range(depth))
                body = " " * indent + prefix + arg + ")\n" + " " * indent + "return result\n"
                out.append("def run(" + ", ".join(f"flag_{d}" for d in range(depth)) + f", first, {arg}=0):\n" + head + body + "    return None\n\n\nprint(run)\n")
    return out


def literal_layout_family():
    """module constants that are multi-line strings (either triple quote, ending their statement or followed by code) holding blank-line runs,
    trailing blanks and tabs, next to unsorted imports and an over-long line: what the closing layout stages (import sorting, wrapping, blank
    line limiting, whitespace minimisation) do to the text around a literal must settle, with the blank-line cap switched off by a literal
    (keep_syntax_tree rejects the whole-module substitution) or not"""
    out = []
    for q1, run, second, long_line in itertools.product(("\'\'\'", '"""'), (0, 3, 5), ("none", "\'\'\'", '"""', "call"), (False, True)):
        usage = f"USAGE = {q1}usage: tool [options] FILE\n" + "\n" * run + f"options:\n  -h   show this text  \n\t-q   be quiet\n{q1}\n"
        banner = {"none": "", "call": "BANNER = str(\'\'\'\n  tool 1.0\n\'\'\')\n"}.get(second, f"BANNER = {second}\n  tool 1.0\n{second}\n")
        longl = "    print(USAGE, QUIET, argv, len(argv), sorted(argv), reversed(argv), list(argv), tuple(argv), set(argv), 1000)\n" if long_line else ""
        out.append("import sys\nimport os\n\n" + usage + "\n" + banner + "QUIET = \"-q\" in sys.argv\n\n\ndef main(argv):\n    if not QUIET:\n        print(os.sep" + (", BANNER" if banner else "")
                   + ")\n" + longl + "    if \"-h\" in argv:\n        print(USAGE)\n        return 0\n    return len(argv)\n\n\nsys.exit(main(sys.argv))\n")
    return out


def boolean_operand_family():
    """one and / or with many operands that are not plain names (attributes, calls, comparisons, subscripts): the symbolic simplifier gives such
    operands placeholder symbols and writes the operands back in the order of those symbols; with enough operands the text is wrapped by the
    layout stage, so a rule that merely reorders is not recognised as 'nothing changed' by a comparison of texts"""
    out = []
    kinds = {"attr": lambda k: f"cfg{k}.enabled_flag", "call": lambda k: f"check_{k}(value)", "cmp": lambda k: f"value.part{k} > {k}", "sub": lambda k: f"table[{k}]", "neg": lambda k: f"not cfg{k}.skip"}
    for n in (3, 9, 10, 11, 12, 13, 16):
        for op in ("and", "or"):
            for kind in ("attr", "cmp", "mixed"):
                ops = [(kinds[kind] if kind != "mixed" else kinds[list(kinds)[k % len(kinds)]])(k) for k in range(n)]
                expr = f" {op} ".join(ops)
                out.append(f"def decide(value, table, *cfgs):\n    ready = {expr}\n    return ready\n\n\nprint(decide)\n")
                if n in (11, 12):
                    out.append(f"def decide(value, table, *cfgs):\n    if {expr}:\n        return 1\n    return 0\n\n\nprint(decide)\n")
                    dup = f" {op} ".join(ops + ops[:2])
                    out.append(f"def decide(value, table, *cfgs):\n    return {dup}\n\n\nprint(decide)\n")
    return out


# unreachable statements after a return inside nested if blocks: both orientations of the if/else swap were "preferred" (alternated forever)
TARGETED = TARGETED + ["import sys\n\n\ndef run(a, b, log):\n    if log:\n        if a:\n            if b:\n                return 1\n                print(a)\n                print(b)\n                log(a)\n"
                       "            return 2\n            print(b)\n            print(a)\n            log(b)\n        log(a, b)\n    return 3\n\n\nsys.exit(run(*sys.argv))\n"]
TARGETED = TARGETED + orientation_family() + fallback_family() + wrapping_family() + literal_layout_family() + boolean_operand_family()
OPTS = [{}, {"safe": True}, {"keep_imports": True}, {"safe": True, "keep_imports": True}, {"max_line_length": 60}, {"max_line_length": 79, "safe": True}]
N_APPLICATIONS = 6
BUDGET = 5


def work(args):
    import pyrefact
    P.quiet()
    x, kw = args
    seq = [x]
    for _ in range(N_APPLICATIONS):
        r = P.guarded(lambda s: pyrefact.format_code(s, **kw), seq[-1], 180)
        if r[0] != "ok":
            return {"skip": f"{r[0]}: {r[1]}"}
        seq.append(r[1])
        if len(seq) >= 3 and seq[-1] == seq[-2] == seq[-3]:
            break
    out = seq[1:]            # out[k] = F^(k+1)(x)
    fails = []
    # fixed point within the budget
    fixed_at = next((k for k in range(len(seq) - 1) if seq[k] == seq[k + 1]), None)
    if fixed_at is None or fixed_at > BUDGET:
        cyc = [(i, j) for i, j in itertools.combinations(range(len(seq)), 2) if seq[i] == seq[j] and j > i + 1]
        if cyc:
            i, j = cyc[0]
            fails.append({"cls": "cycle", "what": f"application {j} returns to the text of application {i} (period {j - i}) without being a fixed point", "seq": seq[i:j + 1]})
        else:
            fails.append({"cls": "no-fixed-point-within-budget", "what": f"{len(seq) - 1} applications and still changing", "seq": seq[-3:]})
    else:
        later = [k for k in range(fixed_at, len(seq) - 1) if seq[k] != seq[k + 1]]
        if later:
            fails.append({"cls": "leaves-fixed-point", "what": f"text was unchanged by application {fixed_at + 1} but changed again at application {later[0] + 1}", "seq": seq[later[0]:later[0] + 2]})
    return {"fails": fails, "n": len(seq) - 1, "fixed_at": fixed_at}


def run(tier, seed):
    rnd = random.Random(seed)
    corpus = P.corpus()
    n = 110 if tier == "quick" else len(corpus)
    inputs = TARGETED + rnd.sample(corpus, n)
    jobs = [(x, kw) for x in inputs for kw in (OPTS if tier == "thorough" else OPTS[:1] + [rnd.choice(OPTS[1:])])]
    jobs += [(x, kw) for x in wrapping_family() for kw in OPTS[4:] if (x, kw) not in jobs]
    res = P.pool_map(work, jobs, chunksize=1)
    fl = []
    evals = 0
    skipped = 0
    hist = {}
    for (x, kw), r in zip(jobs, res):
        if "skip" in r:
            skipped += 1
            continue
        evals += r["n"]
        hist[r["fixed_at"]] = hist.get(r["fixed_at"], 0) + 1
        tag = ",".join(sorted(kw)) or "default"
        for f in r["fails"]:
            fl.append({"id": f"{f['cls']}::{tag}::{P.sha(x)}", "cls": f["cls"], "input": x, "observed": f"format_code({tag}): {f['what']}: " + " ==> ".join(repr(t) for t in f["seq"])[:3000],
                       "required": "fixed point within 5 applications, then unchanged; never a cycle"})
    return [{"name": "c09-iterated-format-code", "function": "main.format_code", "contract": "x, F(x), ..., F^6(x): fixed point within 5 applications, stable afterwards, no cycle",
             "space": f"{len(inputs)} inputs ({len(TARGETED)} targeted + corpus sample) x {'all 4' if tier == 'thorough' else '2 of the 4'} option combinations x up to {N_APPLICATIONS} applications; "
                      f"applications until fixed point (histogram) {dict(sorted((str(k), v) for k, v in hist.items()))}; {skipped} skipped (raises / timeout: C04's subject)",
             "bound": "corpus sample, 6 applications", "evaluations": evals, "distinct_nontrivial": len(inputs), "exhaustive": False, "failures": P.cap(fl), "samples": [TARGETED[0]]}]


if __name__ == "__main__":
    import collections
    import json
    import sys
    for r in run(sys.argv[1] if len(sys.argv) > 1 else "quick", 0):
        print(json.dumps({k: v for k, v in r.items() if k not in ("failures", "samples")}, indent=1)[:900])
        print(collections.Counter(f["cls"] for f in r["failures"]))
        seen = collections.Counter()
        for f in r["failures"]:
            seen[f["cls"]] += 1
            if seen[f["cls"]] <= 6:
                print("  ", f["id"], "|", f["observed"][:1500])
