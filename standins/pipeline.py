"""Shared drivers for the pipeline-level bounded stand-ins (C03, C04, C05, C06, C09): corpus, rule discovery, isolated runs."""
import ast
import contextlib
import hashlib
import importlib
import inspect
import io
import json
import multiprocessing as mp
import os
import signal
import textwrap

VERIF = os.path.dirname(os.path.dirname(os.path.abspath(__file__)))
REPO = os.environ.get("PYREFACT_REPO", "/repo")
RULE_MODULES = ("fixes", "abstractions", "object_oriented", "performance", "performance_numpy", "performance_pandas", "symbolic_math", "tracing")


def corpus():
    return [c["src"] for c in json.load(open(os.path.join(VERIF, "corpus", "snippets.json")))]


def sha(s):
    return hashlib.sha1(s.encode("utf-8", "replace")).hexdigest()[:10]


def rule_names():
    """public rules = what main._multi_run_fixes and main.format_code call on the rule modules (read from the real source)"""
    path = os.path.join(REPO, "pyrefact", "main.py")
    tree = ast.parse(open(path, encoding="utf-8").read())
    out = []
    for fn in tree.body:
        if isinstance(fn, ast.FunctionDef) and fn.name in ("_multi_run_fixes", "format_code"):
            for n in ast.walk(fn):
                if isinstance(n, ast.Attribute) and isinstance(n.value, ast.Name) and n.value.id in RULE_MODULES and isinstance(n.ctx, ast.Load):
                    q = f"{n.value.id}.{n.attr}"
                    if q not in out:
                        out.append(q)
    return out


def get_rule(q):
    mod, fn = q.split(".")
    f = getattr(importlib.import_module("pyrefact." + mod), fn)
    params = inspect.signature(f).parameters
    kw = {}
    if "preserve" in params:
        kw["preserve"] = frozenset()
    if "root_is_static" in params:
        kw["root_is_static"] = True
    if kw:
        return lambda s: f(s, **kw)
    return f


class Timeout(BaseException):
    pass


ARMED = [False]


def _alarm(*a):
    if ARMED[0]:
        ARMED[0] = False
        raise Timeout()


def guarded(fn, arg, seconds):
    """-> ('ok', value) | ('raises', 'Type: msg') | ('timeout', seconds)   (stdout/stderr of the tool are swallowed)"""
    signal.signal(signal.SIGALRM, _alarm)
    try:
        ARMED[0] = True
        signal.setitimer(signal.ITIMER_REAL, seconds)
        with contextlib.redirect_stdout(io.StringIO()), contextlib.redirect_stderr(io.StringIO()):
            v = fn(arg)
        return ("ok", v)
    except Timeout:
        return ("timeout", seconds)
    except BaseException as ex:  # noqa: BLE001
        return ("raises", f"{type(ex).__name__}: {str(ex)[:120]}")
    finally:
        ARMED[0] = False
        signal.setitimer(signal.ITIMER_REAL, 0)


def is_valid(s):
    try:
        ast.parse(s)
        return True
    except (SyntaxError, ValueError, RecursionError, MemoryError):
        return False


def quiet():
    import warnings
    from pyrefact import logs
    logs.set_level(100)
    warnings.simplefilter("ignore", SyntaxWarning)


def pool_map(fn, items, chunksize=4, procs=16, maxtasks=200):
    ctx = mp.get_context("fork")
    with ctx.Pool(procs, maxtasksperchild=maxtasks) as pool:
        return pool.map(fn, items, chunksize=chunksize)


def cap(fl, per_cls=4):
    seen, out = {}, []
    for f in fl:
        seen[f["cls"]] = seen.get(f["cls"], 0) + 1
        if seen[f["cls"]] <= per_cls:
            out.append(f)
    return out


def fragments(srcs, rnd, n):
    """indented fragments: a corpus snippet indented by 4 or 8 spaces (format_code dedents, formats and re-indents them)"""
    out = []
    for s in rnd.sample(srcs, min(n, len(srcs))):
        out.append(textwrap.indent(s.strip("\n") + "\n", " " * rnd.choice((4, 8))))
    return out
