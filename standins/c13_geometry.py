"""Bounded stand-in for C13: run-time contract of core.get_charnos / core.Match / pattern_matching API on real text.

This is where the parser-position contract ASSUMED by the deductive part is confronted with CPython: for every
positioned node of every source, source[get_charnos(node)] must be the node's text as ast.get_source_segment (an
independent, byte-aware implementation in the standard library) gives it (from the first decorator's '@' for decorated
definitions); every Match must lie inside the source, have string == source[span], lineno/col of the span start; and
findall/search/match/fullmatch must be coherent with finditer.
"""
import ast
import io
import json
import multiprocessing as mp
import os
import random
import re

VERIF = os.path.dirname(os.path.dirname(os.path.abspath(__file__)))


def corpus():
    return [c["src"] for c in json.load(open(os.path.join(VERIF, "corpus", "snippets.json")))]


def decorate(src, rnd):
    """variants of a source with features named in C13's quantifier"""
    out = []
    out.append(("nonascii-comment-earlier-line", "# caf\u00e9 \u4e2d\u6587\n" + src))
    out.append(("nonascii-string-same-line", "s = '\u00e9\u00e8\u4e2d'; " + src if not src.startswith((" ", "\n", "@", "def ", "class ", "if ", "for ", "while ", "with ", "try", "async ")) else "s = '\u00e9'\n" + src))
    out.append(("crlf", src.replace("\n", "\r\n")))
    out.append(("cr-only", src.replace("\n", "\r")))
    out.append(("stray-cr-in-a-crlf-file", src.replace("\n", "\r\n").replace("\r\n", "\r", 1)))
    out.append(("cr-in-earlier-string-and-comment", 'doc = """a\rb"""  # note\rmark = 1\n' + src))
    out.append(("formfeed-in-earlier-string", 'doc = """a\x0cb"""\n' + src))
    out.append(("u2028-in-earlier-string", "sep = '\u2028x'\n" + src))
    out.append(("no-trailing-newline", src.rstrip("\n")))
    out.append(("decorated", "import functools\n\n\n@functools.lru_cache(maxsize=None)\n@staticmethod\ndef deco_target(a, b=1):\n    return a\n\n\n" + src))
    out.append(("trailing-at-comment", src + "# @"))
    out.append(("formfeed-between-defs", "def a():\n    pass\n\x0c\n" + src))
    out.append(("decorated-async-and-spaced-at", DECORATOR_FORMS + src))
    out.append(("fstring-fragments", FSTRING_FORMS + src))
    return out


# decorators on async definitions, '@' separated from the decorator by a space / a parenthesis / a continuation line, '@' as an operator
DECORATOR_FORMS = ("import functools\n\n\n@functools.wraps(print)\n@ functools.lru_cache\nasync def deco_async(a):\n    return a\n\n\n"
                   "@(\n    functools.lru_cache\n)\ndef deco_paren(b):\n    return b\n\n\n@ \\\n  functools.cache\nclass DecoClass:\n"
                   "    @ staticmethod\n    async def m():\n        return 1\n\n\nm = a @ b\n")
# literal parts of f-strings that begin / end with spaces (positions of their Constant nodes on Python >= 3.12)
FSTRING_FORMS = ("name = 'x'\nmsg = f'  leading {name} middle  {name!r}  trailing  '\nprint(f\"from {name} import \", f'  {name}  ')\nw = 3\nprint(f'{name:  }', f'{name:{w} }', f'{name: >{w}}  ', f'{w:  d}')\n")


def parser_line_starts(src):
    """line starts as the parser counts lines: \\n, \\r\\n, \\r only"""
    starts = [0]
    for m in re.finditer(r"\r\n|\n|\r", src):
        starts.append(m.end())
    return starts


def oracle_span(src, node):
    """(start, end) character offsets of the node text, from the standard library's byte-aware segment extraction"""
    seg = ast.get_source_segment(src, node)
    if seg is None:
        return None
    first = node
    if getattr(node, "decorator_list", None):
        first = min(node.decorator_list, key=lambda d: (d.lineno, d.col_offset))
    starts = parser_line_starts(src)
    if first.lineno - 1 >= len(starts):
        return None
    line_start = starts[first.lineno - 1]
    line = src[line_start:starts[first.lineno] if first.lineno < len(starts) else len(src)]
    col_chars = len(line.encode("utf-8")[:first.col_offset].decode("utf-8", errors="replace"))
    start = line_start + col_chars
    if first is not node:
        # decorators: text starts at the '@' before the first decorator expression
        k = src.rfind("@", 0, start)
        if k >= 0 and re.fullmatch(r"[\s(\\]*", src[k + 1:start]):       # "@foo", "@ foo", "@(<newline>foo)", "@<backslash newline>foo"
            start = k
        endseg = seg
        end = src.find(endseg, start)
        if end < 0:
            return None
        return start, end + len(endseg)
    if src[start:start + len(seg)] != seg:
        return None
    return start, start + len(seg)


def check_source(args):
    cls, src = args
    from pyrefact import core, logs
    logs.set_level(100)
    fails = []
    try:
        tree = ast.parse(src)
    except (SyntaxError, ValueError):
        return {"nodes": 0, "fails": []}
    n = 0
    for node in ast.walk(tree):
        if not hasattr(node, "lineno") or getattr(node, "end_lineno", None) is None:
            continue
        want = oracle_span(src, node)
        if want is None:
            continue
        n += 1
        try:
            r = core.get_charnos(node, src)
        except Exception as ex:
            fails.append({"cls": f"{cls}:raises:{type(ex).__name__}", "what": f"get_charnos raised {type(ex).__name__}: {ex} on {type(node).__name__} at L{node.lineno}"})
            continue
        ws, we = want
        # the node text is exactly the standard library's segment: no trimming (the literal parts of an f-string may begin / end with spaces)
        if not (0 <= r.start <= r.end <= len(src)) or (r.start, r.end) != (ws, we):
            fails.append({"cls": f"{cls}:span", "what": f"{type(node).__name__} at L{node.lineno}:{node.col_offset}: span {tuple(r)} text {src[r.start:r.end][:40]!r}, node text is {src[ws:we][:40]!r} at {(ws, we)}"})
            if len(fails) > 3:
                break
    return {"nodes": n, "fails": fails}


def patterns_for(src, rnd):
    tree = ast.parse(src)
    names = sorted({n.id for n in ast.walk(tree) if isinstance(n, ast.Name)})
    pats = [rnd.choice(names)] if names else []
    if names and len(names) > 1:
        pats.append(rnd.choice(names))
    pats += ["{{x}} = {{y}}", "{{f}}({{a}})", "return {{v}}"]
    stmts = [s for s in tree.body if s.end_lineno == s.lineno]
    if stmts:
        seg = ast.get_source_segment(src, rnd.choice(stmts))
        if seg and "{" not in seg and len(seg) < 80:
            pats.append(seg)
    if tree.body:
        seg = ast.get_source_segment(src, tree.body[0])
        if seg and "{" not in seg and len(seg) < 200 and len(tree.body) > 1:
            pats.append(seg)
    return pats


def check_api(args):
    src, pats = args
    from pyrefact import core, logs, pattern_matching as pm
    logs.set_level(100)
    fails = []
    evals = 0
    try:
        tree = ast.parse(src)
    except SyntaxError:
        return {"evals": 0, "fails": []}
    starts = parser_line_starts(src)
    for pat in pats:
        try:
            ms = list(pm.finditer(pat, src))
        except Exception as ex:
            if isinstance(ex, SyntaxError):
                continue
            fails.append({"cls": f"api:finditer-raises:{type(ex).__name__}", "what": f"finditer({pat!r}) raised {type(ex).__name__}: {ex}"})
            continue
        evals += 1
        try:
            for m in ms:
                if not (0 <= m.start <= m.end <= len(src)):
                    fails.append({"cls": "api:outside-source", "what": f"{pat!r}: span {tuple(m.span)} outside source of length {len(src)}"})
                if m.string != src[m.start:m.end]:
                    fails.append({"cls": "api:string", "what": f"{pat!r}: Match.string != source[span]"})
                # line / column of the span start, computed independently
                ln = max(i for i, s_ in enumerate(starts) if s_ <= m.start) + 1
                col = m.start - starts[ln - 1]
                if src.isascii() and not re.search(r"[\x0b\x0c\x1c\x1d\x1e\x85]", src) and (m.lineno, m.col_offset) != (ln, col):
                    fails.append({"cls": "api:lineno-col", "what": f"{pat!r}: lineno/col {(m.lineno, m.col_offset)} but span start {m.start} is at {(ln, col)}"})
            if pm.findall(pat, src) != [m.string for m in ms]:
                fails.append({"cls": "api:findall", "what": f"{pat!r}: findall != texts of finditer"})
            s_ = pm.search(pat, src)
            if (s_ is None) != (not ms) or (ms and (tuple(s_.span), s_.source) != (tuple(ms[0].span), ms[0].source)):
                fails.append({"cls": "api:search", "what": f"{pat!r}: search is not the first finditer result"})
            if tree.body:
                ranges = [core.get_charnos(nd, src) for nd in tree.body]
                bs, be = min(r.start for r in ranges), max(r.end for r in ranges)
                mm = pm.match(pat, src)
                want = [m for m in ms if m.start == bs]
                if (mm is None) != (not want) or (mm is not None and mm.start != bs):
                    fails.append({"cls": "api:match", "what": f"{pat!r}: match() returned {mm and tuple(mm.span)} but matches starting at the first statement: {[tuple(w.span) for w in want]}"})
                fm = pm.fullmatch(pat, src)
                want = [m for m in ms if (m.start, m.end) == (bs, be)]
                if (fm is None) != (not want) or (fm is not None and tuple(fm.span) != (bs, be)):
                    fails.append({"cls": "api:fullmatch", "what": f"{pat!r}: fullmatch() returned {fm and tuple(fm.span)} but matches spanning the body: {[tuple(w.span) for w in want]}"})
        except Exception as ex:
            fails.append({"cls": f"api:raises:{type(ex).__name__}", "what": f"{pat!r}: {type(ex).__name__}: {ex}"})
    return {"evals": evals, "fails": fails[:4]}


EXTRA_API = [
    ("x.y = 1\nx = 2\n", ["x", "{{a}} = {{b}}"]),
    ("foo.bar.baz()\nfoo\n", ["foo", "{{f}}()"]),
    ("a = f(g(1))\nb = g(2)\n", ["g({{x}})", "{{f}}({{x}})", "a = f(g(1))"]),
    ("@dec\ndef f():\n    return 1\n", ["return {{v}}", "def {{n}}():\n    return 1", "@dec\ndef f():\n    return 1"]),
    ("if a:\n    x = 1\nx = 1\n", ["x = 1", "a"]),
    ("x = 1\n", ["x = 1", "x", "1"]),
    ("(a,\n b) = c\nd = (a)\n", ["a", "{{x}} = {{y}}"]),
    # opt-out comments concern rewriting, not searching: every entry point of the search API sees the same matches on such lines
    ("x = 1  # pyrefact: ignore\ny = 2\n", ["x = {{value}}", "{{a}} = {{b}}", "x = 1", "1"]),
    ("x = 1\ny = 2  # pyrefact: ignore\n", ["{{a}} = {{b}}", "y = 2", "x = 1\ny = 2"]),
    ("def f():  # pyrefact: ignore\n    return 1\n", ["return {{v}}", "def {{n}}():\n    return 1", "def f():\n    return 1"]),
    ("# pyrefact: skip_file\nx = 1\ny = x\n", ["x", "{{a}} = {{b}}", "x = 1\ny = x"]),
    ("x = (1,  # pyrefact: ignore\n     2)\nz = 3\n", ["{{a}} = {{b}}", "2", "x = (1, 2)"]),
]


def cli_check(samples):
    """the command line finder prints the same locations as finditer"""
    import contextlib
    import tempfile
    from pyrefact import pattern_matching as pm
    fails, evals = [], 0
    with tempfile.TemporaryDirectory() as d:
        for i, (src, pats) in enumerate(samples):
            path = os.path.join(d, f"m{i}.py")
            with open(path, "w", encoding="utf-8") as f:
                f.write(src)
            for pat in pats[:2]:
                try:
                    ms = list(pm.finditer(pat, src))
                    buf = io.StringIO()
                    with contextlib.redirect_stdout(buf):
                        pm.main(["find", pat, path])
                    evals += 1
                    lines = [l for l in buf.getvalue().splitlines() if l.startswith(path)]
                    got = [tuple(map(int, l[len(path) + 1:].split(":")[:2])) for l in lines]
                    want = [(m.lineno, m.col_offset) for m in ms]
                    if got != want:
                        fails.append({"cls": "cli:locations", "what": f"pyrefind {pat!r}: printed {got}, finditer gives {want}", "src": src})
                except SystemExit:
                    pass
                except Exception as ex:
                    if not isinstance(ex, SyntaxError):
                        fails.append({"cls": f"cli:raises:{type(ex).__name__}", "what": f"{pat!r}: {ex}", "src": src})
        # the same module with a byte order mark in front (which is no part of the code): same locations, no exception
        for i, (src, pats) in enumerate(samples[:6]):
            try:
                ast.parse(src)
            except SyntaxError:
                continue
            path = os.path.join(d, f"bom{i}.py")
            with open(path, "w", encoding="utf-8-sig") as f:
                f.write(src)
            for pat in pats[:2]:
                try:
                    want = [(m.lineno, m.col_offset) for m in pm.finditer(pat, src)]
                except Exception:  # noqa: BLE001
                    continue
                evals += 1
                try:
                    buf = io.StringIO()
                    with contextlib.redirect_stdout(buf):
                        pm.main(["find", pat, path])
                    got = [tuple(map(int, l[len(path) + 1:].split(":")[:2])) for l in buf.getvalue().splitlines() if l.startswith(path)]
                    if got != want:
                        fails.append({"cls": "cli:locations:byte-order-mark", "what": f"pyrefind {pat!r} on the file with a byte order mark: printed {got}, finditer on the code gives {want}", "src": src})
                except SystemExit:
                    pass
                except Exception as ex:  # noqa: BLE001
                    fails.append({"cls": f"cli:raises:{type(ex).__name__}:byte-order-mark", "what": f"{pat!r} on a file with a byte order mark: {ex}", "src": src})
    return evals, fails


def run(tier, seed):
    rnd = random.Random(seed)
    srcs = corpus()
    base = srcs if tier == "thorough" else rnd.sample(srcs, 200)
    span_inputs = [("plain", s) for s in srcs]
    for s in (base if tier == "thorough" else base[:80]):
        span_inputs += decorate(s, rnd)
    api_inputs = [(s, patterns_for(s, rnd)) for s in base] + list(EXTRA_API)
    api_inputs += [(v, patterns_for(v, rnd)) for s in base[:40] for c, v in decorate(s, rnd) if c in ("crlf", "no-trailing-newline", "decorated")]
    ctx = mp.get_context("fork")
    with ctx.Pool(16) as pool:
        r1 = pool.map(check_source, span_inputs, chunksize=20)
        r2 = pool.map(check_api, api_inputs, chunksize=10)
    out = []
    fl, nodes = [], 0
    for (cls, src), r in zip(span_inputs, r1):
        nodes += r["nodes"]
        for f in r["fails"][:2]:
            fl.append({"id": f"{f['cls']}::{hash(src) & 0xffffffff:x}", "cls": f["cls"].split(":raises")[0] if False else f["cls"], "input": src, "observed": f["what"], "required": "source[get_charnos(node)] is the node's text (ast.get_source_segment oracle)"})
    out.append({"name": "c13-span-oracle", "function": "core.get_charnos (+ _get_line_start_charnos, _get_position)", "contract": "0 <= start <= end <= len(source) and source[start:end] == node text",
                "space": f"every positioned node of {len(srcs)} corpus snippets, plus 14 generated variants (non-ASCII comment/string, CRLF, CR only, a stray CR, CR inside a string and after a comment, form feed, U+2028, no trailing newline, decorators, trailing '# @') of {len(base) if tier == 'thorough' else 80} of them",
                "bound": "corpus + variants", "evaluations": nodes, "distinct_nontrivial": len({s for _, s in span_inputs}), "exhaustive": False,
                "failures": _cap(fl), "samples": [span_inputs[0][1][:200], span_inputs[-1][1][:200]]})
    fl, evals = [], 0
    for (src, pats), r in zip(api_inputs, r2):
        evals += r["evals"]
        for f in r["fails"]:
            fl.append({"id": f"{f['cls']}::{f['what'][:80]}::{hash(src) & 0xffffffff:x}", "cls": f["cls"], "input": src, "observed": f["what"], "required": "C13 API coherence"})
    ce, cf = cli_check(list(EXTRA_API) + api_inputs[:12])
    for f in cf:
        fl.append({"id": f"{f['cls']}::{f['what'][:80]}", "cls": f["cls"], "input": f.get("src"), "observed": f["what"], "required": "pyrefind prints the finditer locations"})
    out.append({"name": "c13-api-coherence", "function": "pattern_matching.finditer/findall/search/match/fullmatch/main, core.Match",
                "contract": "match inside source; string == source[span]; lineno/col of span start; findall/search/match/fullmatch coherent with finditer; CLI prints the same locations",
                "space": f"{len(api_inputs)} sources x 3-7 patterns derived from each source (names, wildcard statements, literal statements) + {len(EXTRA_API)} hand-written nesting cases; CLI on {ce} (pattern, file) pairs",
                "bound": "corpus sample", "evaluations": evals + ce, "distinct_nontrivial": len(api_inputs), "exhaustive": False, "failures": _cap(fl), "samples": [repr(api_inputs[0])[:300]]})
    return out


def _cap(fl, per_cls=4):
    seen, out = {}, []
    for f in fl:
        seen[f["cls"]] = seen.get(f["cls"], 0) + 1
        if seen[f["cls"]] <= per_cls:
            out.append(f)
    return out


if __name__ == "__main__":
    import sys
    for r in run(sys.argv[1] if len(sys.argv) > 1 else "quick", 0):
        print(json.dumps({k: v for k, v in r.items() if k not in ("failures", "samples")}, indent=1)[:900])
        import collections
        print(collections.Counter(f["cls"] for f in r["failures"]))
        seen = set()
        for f in r["failures"]:
            if f["cls"] not in seen:
                print("  ", f["cls"], "|", f["observed"][:300])
                seen.add(f["cls"])
