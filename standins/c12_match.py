"""Bounded stand-in for C12: core.match_template / pattern_matching against the declarative (regular-expression) reading.

(1) list templates: ALL templates of length <= 4 over {a, b, a?, a*, a+, .?, .*, .+} against ALL node lists of length <= 5 over
    {a, b, c}: match_template(list, template) is non-empty  <=>  re.fullmatch(regex(template), letters(list)).
(2) named wildcards: the same tree for every occurrence ({{x}} + {{x}}); a named wildcard under a quantifier ({{x*}}, {{x+}}) is the
    named wildcard repeated, so all its elements are the same tree (this reading is pinned by the repository's own test
    test_oneormore_import_from: `from foo import {{something+}}` matches `bar, bar, bar` and not `bar, spam`); {{...*}} is anonymous.
(3) search: finditer reports every occurrence of an expression / statement pattern (reference: independent walk with ast.dump
    equality) and every piece of code matches itself, on the corpus.
"""
import ast
import itertools
import random
import re

from . import pipeline as P

ELEMS = ["a", "b", "a?", "a*", "a+", ".?", ".*", ".+"]


def build_template(spec):
    from pyrefact import core
    out = []
    for s in spec:
        base = object if s[0] == "." else ast.Name(id=s[0])
        q = s[1:] if len(s) > 1 else ""
        out.append({"": base, "?": core.ZeroOrOne(base), "*": core.ZeroOrMany(base), "+": core.OneOrMany(base)}[q] if q else base)
    return out


def regex_of(spec):
    return "".join(s for s in spec)


def work_lists(specs):
    from pyrefact import core
    fails = []
    n = 0
    lists = [list(t) for k in range(0, 6) for t in itertools.product("abc", repeat=k)]
    for spec in specs:
        tpl = build_template(spec)
        rx = re.compile(regex_of(spec))
        for letters in lists:
            nodes = [ast.Name(id=c) for c in letters]
            n += 1
            try:
                got = bool(core.match_template(nodes, tpl))
            except Exception as ex:  # noqa: BLE001
                fails.append({"cls": f"list:raises:{type(ex).__name__}", "what": f"match_template({letters}, {spec}) raised {type(ex).__name__}: {ex}"})
                break
            want = bool(rx.fullmatch("".join(letters)))
            if got != want:
                fails.append({"cls": "list:disagrees-with-regex", "what": f"template {spec} (regex {regex_of(spec)!r}) on {''.join(letters)!r}: match_template says {got}, the regular-expression reading says {want}"})
                break
    return n, fails


# ---- lists with NAMED wildcards (repeated names, names under quantifiers): brute-force reference matcher
NAMED_ELEMS = ["a", ".", ".*", ".?", "x", "y", "x*", "x+", "x?", "y*"]


def build_named_template(spec):
    from pyrefact import core
    out = []
    for s in spec:
        head, q = (s[0], s[1:])
        if head == "a":
            base = ast.Name(id="a")
        elif head == ".":
            base = object
        else:
            base = core.Wildcard(head, object, common=(q == ""))
        out.append({"": base, "?": core.ZeroOrOne(base), "*": core.ZeroOrMany(base), "+": core.OneOrMany(base)}[q] if q else base)
    return out


def reference_named(spec, letters):
    """declarative reading: choose a count per element (1 / 0..1 / 0.. / 1..), expand, and require every occurrence of a name to be the same letter"""
    def go(i, j, env):
        if i == len(spec):
            return j == len(letters)
        head, q = spec[i][0], spec[i][1:]
        lo, hi = {"": (1, 1), "?": (0, 1), "*": (0, len(letters) - j), "+": (1, len(letters) - j)}[q]
        for c in range(lo, min(hi, len(letters) - j) + 1):
            e = dict(env)
            ok = True
            for ch in letters[j:j + c]:
                if head == "a":
                    ok = ok and ch == "a"
                elif head != ".":
                    if e.setdefault(head, ch) != ch:
                        ok = False
                if not ok:
                    break
            if ok and go(i + 1, j + c, e):
                return True
        return False
    return go(0, 0, {})


def work_named_lists(specs):
    from pyrefact import core
    fails = []
    n = 0
    lists = [list(t) for k in range(0, 5) for t in itertools.product("ab", repeat=k)]
    for spec in specs:
        tpl = build_named_template(spec)
        for letters in lists:
            nodes = [ast.Name(id=c) for c in letters]
            n += 1
            try:
                got = bool(core.match_template(nodes, tpl))
            except Exception as ex:  # noqa: BLE001
                fails.append({"cls": f"named-list:raises:{type(ex).__name__}", "what": f"match_template({letters}, {spec}) raised {type(ex).__name__}: {ex}"})
                break
            want = reference_named(spec, letters)
            if got != want:
                fails.append({"cls": "named-list:disagrees-with-reference", "what": f"template {spec} on {''.join(letters)!r}: match_template says {got}, the declarative reading (some consistent expansion exists) says {want}"})
                break
    return n, fails


NAMED = [
    ("{{x}} + {{x}}", "a + a", True), ("{{x}} + {{x}}", "a + b", False), ("{{x}} + {{y}}", "a + b", True), ("{{x}} + {{y}}", "a + a", True),
    ("f({{x}}, {{x}})", "f(1, 1)", True), ("f({{x}}, {{x}})", "f(1, 2)", False), ("f({{x}}, {{y}})", "f(1, 2)", True),
    ("f({{x?}})", "f()", True), ("f({{x?}})", "f(1)", True), ("f({{x?}})", "f(1, 2)", False),
    ("f({{x*}})", "f()", True), ("f({{x*}})", "f(1)", True), ("f({{x*}})", "f(1, 1)", True), ("f({{x*}})", "f(1, 2)", False), ("f({{x*}})", "f(2, 2, 2)", True),
    ("f({{x+}})", "f()", False), ("f({{x+}})", "f(1)", True), ("f({{x+}})", "f(1, 2)", False), ("f({{x+}})", "f(2, 2)", True),
    ("f({{...}})", "f(g(1))", True), ("f({{...*}})", "f(1, 2)", True), ("f(1, {{y*}})", "f(1, 2, 3)", False), ("f(1, {{y*}})", "f(1, 2, 2)", True), ("f(1, {{...*}})", "f(1, 2, 3)", True),
    ("f({{x}}, {{y*}})", "f(1)", True), ("f({{x}}, {{y*}})", "f()", False), ("[{{x}}, {{y?}}, {{z}}]", "[1, 2]", True), ("[{{x}}, {{y?}}, {{z}}]", "[1, 2, 3]", True),
    ("[{{x}}, {{y?}}, {{z}}]", "[1]", False), ("x = 1.0", "x = 1.0", True), ("x = 0.0", "x = 0.0", True), ("p = 0j", "p = 0j", True), ("x = 1", "x = 1", True), ("x = None", "x = None", True),
    ("x = True", "x = True", True), ("x = True", "x = 1", False), ("x = 1", "x = True", False), ("x = 1", "x = 1.0", False), ("x = 0", "x = False", False), ("x = 0", "x = 0j", False),
    ("f(1)", "f(1.0)", False), ("x = 1.0", "x = 1", False), ("x = 'a'", "x = b'a'", False), ("x = ...", "x = ...", True), ("x = 'a'", "x = 'a'", True), ("x = 'a'", "x = 'b'", False), ("def f(a, s=1.0):\n    return a", "def f(a, s=1.0):\n    return a", True),
    ("{{a}} if {{c}} else {{b}}", "1 if x else 2", True), ("{{f}}({{a}})", "g(h(1))", True), ("return {{v}}", "def q():\n    return 3", True),
    ("for {{i}} in {{it}}:\n    {{body*}}", "for k in y:\n    a()\n    b()", False), ("for {{i}} in {{it}}:\n    {{body*}}", "for k in y:\n    a()\n    a()", True), ("for {{i}} in {{it}}:\n    {{...*}}", "for k in y:\n    a()\n    b()", True),
    ("if {{c}}:\n    {{s}}", "if x:\n    a()\n    b()", False), ("if {{c}}:\n    {{s+}}", "if x:\n    a()\n    b()", False), ("if {{c}}:\n    {{...+}}", "if x:\n    a()\n    b()", True),
    # a wildcard stands for some syntax tree: not for an absent optional child; a pattern that is one wildcard; type parameters are part of a definition
    ("return {{x}}", "def f():\n    return", False), ("return {{x}}", "def f():\n    return 1", True), ("raise {{e}}", "try:\n    pass\nexcept E:\n    raise", False), ("{{s}}[{{a}}:{{b}}]", "z[1:]", False),
    ("{{s}}[{{a}}:{{b}}]", "z[1:2]", True), ("assert {{c}}, {{m}}", "assert x", False), ("yield {{x}}", "def f():\n    yield", False), ("{{a}}: int = {{v}}", "x: int", False), ("{{x}}", "a + b", True),
    ("def {{f}}():\n    return 1", "def g[T]():\n    return 1", False), ("def {{f}}[T]():\n    return 1", "def g[T]():\n    return 1", True), ("class C:\n    pass", "class C[T]:\n    pass", False),
    ("from foo import {{n+}}", "from foo import bar, bar", True), ("from foo import {{n+}}", "from foo import bar, spam", False), ("from foo import {{...+}}", "from foo import bar, spam", True),
]


def work_named(case):
    from pyrefact import pattern_matching as pm
    P.quiet()
    pat, src, want = case
    try:
        got = bool(pm.findall(pat, src))
    except Exception as ex:  # noqa: BLE001
        return [{"cls": f"named:raises:{type(ex).__name__}", "what": f"findall({pat!r}, {src!r}) raised {type(ex).__name__}: {ex}"}]
    if got != want:
        cls = "named:disagrees"
        return [{"cls": cls, "what": f"pattern {pat!r} on {src!r}: found={got}, declarative reading says {want}"}]
    return []


def reference_find(src, pat_node):
    """independent reference: all nodes whose dump equals the pattern's dump (no wildcards)"""
    def norm(n):
        # the expression context (Load / Store / Del) is not part of the code text: `y` occurs in `y = 1` as well
        return re.sub(r", ctx=(Load|Store|Del)\(\)", "", ast.dump(n))
    want = norm(pat_node)
    return sum(1 for n in ast.walk(ast.parse(src)) if type(n) is type(pat_node) and norm(n) == want)


def work_search(src):
    from pyrefact import pattern_matching as pm
    P.quiet()
    fails = []
    n = 0
    try:
        tree = ast.parse(src)
    except SyntaxError:
        return 0, []
    cands = []
    for node in ast.walk(tree):
        if isinstance(node, (ast.expr, ast.stmt)) and hasattr(node, "lineno"):
            seg = ast.get_source_segment(src, node)
            if seg and "{" not in seg and "\n" not in seg and len(seg) < 60 and not isinstance(node, (ast.Constant, ast.JoinedStr)) and not seg.startswith(("@", "elif", "else")):
                cands.append((node, seg))
    rnd = random.Random(len(src))
    for node, seg in rnd.sample(cands, min(6, len(cands))):
        try:
            pat_tree = ast.parse(seg).body[0]
        except SyntaxError:
            continue
        pat_node = pat_tree.value if isinstance(pat_tree, ast.Expr) and isinstance(node, ast.expr) else pat_tree
        if type(pat_node) is not type(node):
            continue
        try:
            found = pm.findall(seg, src)
        except Exception as ex:  # noqa: BLE001
            fails.append({"cls": f"search:raises:{type(ex).__name__}", "what": f"findall({seg!r}) raised {type(ex).__name__}: {ex}"})
            continue
        n += 1
        want = reference_find(src, pat_node)
        if len(found) == 0:
            fails.append({"cls": "search:code-does-not-match-itself", "what": f"{seg!r} occurs in the source but findall reports nothing"})
        elif len(found) != want and isinstance(node, ast.expr):
            fails.append({"cls": "search:occurrence-count", "what": f"{seg!r}: findall reports {len(found)} occurrences, an independent walk finds {want}"})
    return n, fails


# ---- statement-sequence patterns: every window of consecutive statements in every searched block
SEQ_PATTERNS = [("{{a}} = 10\n{{b}} = 5", 2), ("{{a}} = 10\n{{b}} = 5\n{{c}} = {{a}}", 3), ("{{a}} = 10", 1)]
FILL = {"M": ["p = 10", "q = 5"], "M3": ["p = 10", "q = 5", "r = p"], "H": ["p = 10"], "T": ["q = 5"], "F": ["z = 0"], "FF": ["z = 0", "w = 1"], "FM": ["z = 0", "p = 10", "q = 5"],
        "MF": ["p = 10", "q = 5", "z = 0"], "MM": ["p = 10", "q = 5", "p = 10", "q = 5"], "FFM3": ["z = 0", "w = 1", "p = 10", "q = 5", "r = p"]}
BLOCK_FRAMES = [
    # {0}, {1}, {2} are statement lists; every block of the frame is one the property names: module, definitions, if / for / while / with
    "{0}\nif cond:\n{1:4}\nelse:\n{2:4}\n",
    "if cond:\n{0:4}\nelif other:\n{1:4}\nelse:\n{2:4}\n",
    "for i in it:\n{0:4}\nelse:\n{1:4}\n{2}\n",
    "while cond:\n{0:4}\nelse:\n{1:4}\n{2}\n",
    "def f():\n{0:4}\n    for i in it:\n{1:8}\n    else:\n{2:8}\n",
    "class K:\n{0:4}\n\n    def m(self):\n{1:8}\n        with ctx:\n{2:12}\n",
    "async def f():\n{0:4}\n    if cond:\n{1:8}\n    else:\n{2:8}\n",
    "with ctx:\n{0:4}\n    while cond:\n{1:8}\n    else:\n{2:8}\n",
    "def f():\n    if a:\n{0:8}\n    elif b:\n{1:8}\n    elif c:\n{2:8}\n    else:\n{0:8}\n",
    "async def f():\n    async for i in it:\n{0:8}\n    else:\n{1:8}\n    async with ctx:\n{2:8}\n",
]


class _Stmts:
    def __init__(self, key):
        self.lines = FILL[key]

    def __format__(self, spec):
        ind = " " * int(spec or 0)
        return "\n".join(ind + l for l in self.lines)


def _window_oracle(tree, k):
    """independent reading of the property: windows of k consecutive statements `NAME = 10; NAME = 5[; NAME = <first name>]` in the body / orelse
    lists of modules, definitions, if / for / while / with blocks"""
    def is_assign(st, value):
        return isinstance(st, ast.Assign) and len(st.targets) == 1 and isinstance(st.targets[0], ast.Name) and isinstance(st.value, ast.Constant) and st.value.value == value
    found = []
    kinds = (ast.Module, ast.FunctionDef, ast.AsyncFunctionDef, ast.ClassDef, ast.If, ast.For, ast.AsyncFor, ast.While, ast.With, ast.AsyncWith)
    for node in ast.walk(tree):
        if not isinstance(node, kinds):
            continue
        for field in ("body", "orelse"):
            body = getattr(node, field, None) or []
            for i in range(len(body) - k + 1):
                w = body[i:i + k]
                ok = is_assign(w[0], 10) and (k < 2 or is_assign(w[1], 5))
                if ok and k == 3:
                    ok = isinstance(w[2], ast.Assign) and isinstance(w[2].value, ast.Name) and w[2].value.id == w[0].targets[0].id and isinstance(w[2].targets[0], ast.Name)
                if ok:
                    found.append(w[0].lineno)
    return sorted(found)


def work_sequences(frame_idx):
    from pyrefact import core, processing
    P.quiet()
    fails, n = [], 0
    frame = BLOCK_FRAMES[frame_idx]
    keys = list(FILL)
    for a in keys:
        for b in keys:
            for c in keys:
                src = frame.format(_Stmts(a), _Stmts(b), _Stmts(c))
                try:
                    tree = ast.parse(src)
                except SyntaxError:
                    continue
                for pat, k in SEQ_PATTERNS:
                    n += 1
                    want = _window_oracle(tree, k)
                    try:
                        templates = core.compile_template(pat)
                        templates = templates if isinstance(templates, (list, tuple)) else [templates]
                        got = sorted(m[0][0].lineno for m in core.walk_sequence(core.parse(src), *templates))
                    except Exception as ex:  # noqa: BLE001
                        fails.append({"cls": f"sequence:raises:{type(ex).__name__}", "what": f"walk_sequence({pat!r}) on {src!r} raised {type(ex).__name__}: {ex}"})
                        continue
                    if got != want:
                        cls = "sequence:missed" if set(want) - set(got) else ("sequence:reported-twice" if len(got) != len(set(got)) else "sequence:spurious")
                        fails.append({"cls": cls, "what": f"walk_sequence({pat!r}) on {src!r}: occurrences start at lines {got}, every window of the searched blocks gives {want}"})
                        continue
                    if k == 2:
                        try:
                            rewrites = sorted(core.get_charnos(x[0], src).start if hasattr(x[0], "lineno") else x[0].start for x in processing.find_replace(src, pat, "{{b}} = 6\n{{a}} = 11"))
                        except Exception as ex:  # noqa: BLE001
                            fails.append({"cls": f"sequence:find_replace-raises:{type(ex).__name__}", "what": f"find_replace({pat!r}) on {src!r} raised {type(ex).__name__}: {ex}"})
                            continue
                        if len(rewrites) != len(want):
                            fails.append({"cls": "sequence:find_replace-count", "what": f"find_replace({pat!r}) on {src!r}: {len(rewrites)} rewrites, {len(want)} occurrences"})
    return n, fails


# ---- "every piece of code matches itself" - and not its near miss: one statement per kind of the grammar (the corpus has no coroutines, no match
# statements, no type parameters ...), each searched for in itself, inside a module, and against the construct that differs in one keyword
CONSTRUCTS = [
    "async def f(a):\n    return a\n", "def f(a):\n    return a\n", "async def f(a):\n    async for x in a:\n        await x\n", "def f(a):\n    for x in a:\n        print(x)\n",
    "async def f(a):\n    async with a as b:\n        return b\n", "def f(a):\n    with a as b:\n        return b\n", "async def f(a):\n    return [x async for x in a]\n", "def f(a):\n    return [x for x in a]\n",
    "async def f(a):\n    return await a\n", "def f(a):\n    yield a\n", "def f(a):\n    yield from a\n", "def f(a):\n    return (yield)\n", "lambda a, *b, c=1, **d: a\n", "lambda a, b, c=1: a\n",
    "def f(a, /, b, *, c):\n    pass\n", "def f(a, b, c):\n    pass\n", "def f(*a, **b):\n    pass\n", "def f(a: int = 1) -> str:\n    pass\n", "def f(a=1):\n    pass\n", "def f[T](a: T) -> T:\n    return a\n", "class K[T]:\n    pass\n",
    "type Alias = int\n", "class K(Base, metaclass=Meta):\n    x: int = 1\n", "class K(Base):\n    x = 1\n", "@deco\nclass K:\n    pass\n", "@deco(1)\ndef f():\n    pass\n", "@deco\ndef f():\n    pass\n",
    "global g\n", "def f():\n    nonlocal g\n", "def f():\n    global g\n", "del a, b[0], c.d\n", "del a\n", "assert a, 'm'\n", "assert a\n", "raise E from None\n", "raise E\n", "raise\n",
    "try:\n    a()\nexcept E as e:\n    b(e)\nelse:\n    c()\nfinally:\n    d()\n", "try:\n    a()\nexcept E:\n    b()\n", "try:\n    a()\nexcept* E:\n    b()\n", "try:\n    a()\nfinally:\n    d()\n",
    "match v:\n    case [a, *rest]:\n        pass\n    case {'k': b, **more}:\n        pass\n    case K(x=1) | None:\n        pass\n    case _ if v:\n        pass\n", "match v:\n    case 1:\n        pass\n",
    "for a, b in c:\n    pass\nelse:\n    d()\n", "for a in c:\n    pass\n", "while a:\n    break\nelse:\n    b()\n", "while a:\n    continue\n", "with a as b, c as d:\n    pass\n", "with a, c:\n    pass\n", "with (a as b):\n    pass\n",
    "if a:\n    b()\nelif c:\n    d()\nelse:\n    e()\n", "if a:\n    b()\n", "import a.b as c, d\n", "import a.b\n", "from . import a\n", "from .. import a\n", "from a import *\n", "from a import b as c\n", "from a import b\n",
    "x = y = 1\n", "x = 1\n", "x: int\n", "x: int = 1\n", "x += 1\n", "x -= 1\n", "x @= y\n", "x //= y\n", "x **= y\n", "(x := 1)\n", "x, *y = z\n", "x, y = z\n", "[x, y] = z\n",
    "a if b else c\n", "a and b or c\n", "a or b and c\n", "not a\n", "-a\n", "+a\n", "~a\n", "a is b\n", "a is not b\n", "a == b\n", "a != b\n", "a in b\n", "a not in b\n", "a < b <= c\n", "a < b < c\n",
    "a @ b\n", "a * b\n", "a // b\n", "a / b\n", "a ** b\n", "a << b\n", "a >> b\n", "a | b\n", "a ^ b\n", "a & b\n", "a % b\n", "a[1:2:3]\n", "a[1:2]\n", "a[1:]\n", "a[:]\n", "a[1, 2]\n", "a[1]\n", "a[...]\n", "a.b.c\n", "a.b\n",
    "f(a, *b, c=1, **d)\n", "f(a, b, c=1)\n", "f(a)(b)\n", "f(*a)\n", "f(**a)\n", "[a, *b]\n", "[a, b]\n", "(a, *b)\n", "(a,)\n", "()\n", "[]\n", "{}\n", "{a, *b}\n", "{a}\n", "{a: b, **c}\n", "{a: b}\n",
    "[x for x in y if x if y]\n", "[x for x in y if x]\n", "[x for x in y for z in x]\n", "{x for x in y}\n", "{x: 1 for x in y}\n", "(x for x in y)\n", "f'{a!r:>{w}} {b=}'\n", "f'{a}'\n", "f'{a!r}'\n", "f'{a:>3}'\n",
    "1\n", "1.0\n", "1j\n", "True\n", "None\n", "...\n", "'s'\n", "b's'\n", "'a' 'b'\n", "1_000\n", "0x10\n", "-1\n",
]


def work_constructs(i):
    from pyrefact import pattern_matching as pm
    P.quiet()
    src = CONSTRUCTS[i]
    fails = []
    n = 0

    def spans(pattern, source):
        try:
            return [m.string for m in pm.finditer(pattern, source)]
        except Exception as ex:  # noqa: BLE001
            return f"raises {type(ex).__name__}: {str(ex)[:80]}"
    first = ast.parse(src).body[0]
    text = ast.get_source_segment(src, first.value if isinstance(first, ast.Expr) else first)      # the node's own text (parentheses around an expression are not part of it)
    if getattr(first, "decorator_list", None):
        text = src.rstrip("\n")                                                                   # the span of a decorated definition starts at its first decorator (C13)
    n += 1
    own = spans(src, src)
    if isinstance(own, str):
        fails.append({"cls": "construct:raises", "what": f"finditer({src!r}, itself) {own}"})
        return n, fails
    if text not in own:
        fails.append({"cls": "construct:code-does-not-match-itself", "what": f"{src!r} searched in itself: {own!r}"})
    module = "first = 0\n" + src + "last = 0\n"
    n += 1
    inside = spans(src, module)
    if isinstance(inside, str) or inside.count(text) != 1:
        fails.append({"cls": "construct:not-found-once-in-a-module", "what": f"{src!r} searched in {module!r}: {inside!r}"})
    # near misses: no OTHER construct of the list may be reported as an occurrence of this one where the trees differ
    tree = ast.dump(ast.parse(src))
    for j, other in enumerate(CONSTRUCTS):
        if j == i or ast.dump(ast.parse(other)) == tree:
            continue
        if abs(len(other) - len(src)) > 12:
            continue
        n += 1
        got = spans(src, other)
        if isinstance(got, str):
            continue
        ofirst = ast.parse(other).body[0]
        if (other.rstrip("\n") if getattr(ofirst, "decorator_list", None) else ast.get_source_segment(other, ofirst.value if isinstance(ofirst, ast.Expr) else ofirst)) in got:
            fails.append({"cls": "construct:matches-a-different-construct", "what": f"pattern {src!r} matches the whole of {other!r}"})
    return n, fails


def run(tier, seed):
    rnd = random.Random(seed)
    specs = [list(t) for k in range(0, 5) for t in itertools.product(ELEMS, repeat=k)]
    if tier == "quick":
        specs = [s for s in specs if len(s) <= 3] + rnd.sample([s for s in specs if len(s) == 4], 600)
    chunks = [specs[i::32] for i in range(32)]
    r1 = P.pool_map(work_lists, chunks, chunksize=1)
    r2 = P.pool_map(work_named, NAMED, chunksize=4)
    nspecs = [list(t) for k in range(1, 5) for t in itertools.product(NAMED_ELEMS, repeat=k) if any(e[0] in "xy" for e in t)]
    if tier == "quick":
        nspecs = [s for s in nspecs if len(s) <= 3] + rnd.sample([s for s in nspecs if len(s) == 4], 800)
    r4 = P.pool_map(work_named_lists, [nspecs[i::32] for i in range(32)], chunksize=1)
    srcs = P.corpus()
    sin = rnd.sample(srcs, 150 if tier == "quick" else len(srcs))
    r3 = P.pool_map(work_search, sin, chunksize=4)
    r5 = P.pool_map(work_sequences, list(range(len(BLOCK_FRAMES))), chunksize=1)
    out = []
    fl, n = [], 0
    for cnt, fs in r5:
        n += cnt
        for f in fs:
            fl.append({"id": f"{f['cls']}::{f['what'][:160]}", "cls": f["cls"], "input": f["what"], "observed": f["what"], "required": "every window of consecutive statements of every searched block, once"})
    out.append({"name": "c12-statement-sequences", "function": "core.walk_sequence, processing.find_replace", "contract": "occurrences of a statement-sequence pattern == windows of consecutive statements in the body / orelse lists of modules, definitions, if / for / while / with blocks (independent ast walk)",
                "space": f"{len(BLOCK_FRAMES)} block frames (module, def, async def, class, if/elif/else, for/else, while/else, with, nested) x {len(FILL)}^3 fillings of three statement lists (pattern at the start / middle / end / twice / absent, blocks shorter and longer than the pattern) x {len(SEQ_PATTERNS)} patterns",
                "bound": "enumerated frames and fillings", "evaluations": n, "distinct_nontrivial": len(BLOCK_FRAMES) * len(FILL) ** 3, "exhaustive": True, "failures": P.cap(fl), "samples": [BLOCK_FRAMES[2].format(_Stmts("FM"), _Stmts("M"), _Stmts("F"))]})
    fl, n = [], 0
    for k, (cnt, fs) in enumerate(r1):
        n += cnt
        for f in fs:
            fl.append({"id": f"{f['cls']}::{f['what'][:100]}", "cls": f["cls"], "input": f["what"], "observed": f["what"], "required": "matches <=> regular-expression reading of the quantifier list"})
    out.append({"name": "c12-list-quantifiers-vs-regex", "function": "core.match_template (list templates), _match_list, _iter_template_permutations",
                "contract": "match_template(nodes, template) non-empty <=> re.fullmatch(regex(template), letters(nodes))",
                "space": f"{len(specs)} templates of length <= 4 over {ELEMS} ({'all' if tier == 'thorough' else 'all of length <= 3, 600 of length 4'}) x all 364 node lists of length <= 5 over a, b, c",
                "bound": "template length <= 4, list length <= 5", "evaluations": n, "distinct_nontrivial": len(specs), "exhaustive": tier == "thorough", "failures": P.cap(fl), "samples": [str(specs[5]), str(specs[-1])]})
    fl = []
    for c, fs in zip(NAMED, r2):
        for f in fs:
            fl.append({"id": f"{f['cls']}::{c[0]}::{c[1]}", "cls": f["cls"], "input": f"{c[0]!r} on {c[1]!r}", "observed": f["what"], "required": "declarative reading of named / quantified wildcards"})
    out.append({"name": "c12-named-wildcards", "function": "core.compile_template, match_template, pattern_matching.findall", "contract": "same tree for every occurrence of a named wildcard; ?, *, + in argument / element / body lists; literals match themselves",
                "space": f"{len(NAMED)} hand-written (pattern, source, expected) cases", "bound": "enumerated cases", "evaluations": len(NAMED), "distinct_nontrivial": len(NAMED), "exhaustive": True, "failures": P.cap(fl), "samples": [repr(NAMED[0])]})
    fl, n = [], 0
    for cnt, fs in r4:
        n += cnt
        for f in fs:
            fl.append({"id": f"{f['cls']}::{f['what'][:100]}", "cls": f["cls"], "input": f["what"], "observed": f["what"], "required": "matches <=> some consistent expansion exists"})
    out.append({"name": "c12-named-wildcards-in-lists", "function": "core.match_template, _match_list (backtracking over expansions), merge_matches", "contract": "match_template(nodes, template) non-empty <=> brute-force reference (all count vectors, consistent bindings)",
                "space": f"{len(nspecs)} templates of length <= 4 over {NAMED_ELEMS} containing a named wildcard ({'all' if tier == 'thorough' else 'all of length <= 3, 800 of length 4'}) x all 31 lists of length <= 4 over a, b",
                "bound": "template length <= 4, list length <= 4", "evaluations": n, "distinct_nontrivial": len(nspecs), "exhaustive": tier == "thorough", "failures": P.cap(fl), "samples": [str(nspecs[7]), str(nspecs[-1])]})
    fl, n = [], 0
    for s, (cnt, fs) in zip(sin, r3):
        n += cnt
        for f in fs:
            fl.append({"id": f"{f['cls']}::{f['what'][:80]}::{P.sha(s)}", "cls": f["cls"], "input": s, "observed": f["what"], "required": "every occurrence reported; code matches itself"})
    out.append({"name": "c12-search-completeness", "function": "pattern_matching.findall / finditer, core.walk_wildcard", "contract": "a wildcard-free expression / statement pattern taken from the source is found; expression occurrence count equals an independent ast.dump walk",
                "space": f"{len(sin)} corpus modules x up to 6 single-line expressions / statements taken from each", "bound": "corpus sample", "evaluations": n, "distinct_nontrivial": len(sin), "exhaustive": False, "failures": P.cap(fl), "samples": [sin[0][:200]]})
    r9 = P.pool_map(work_constructs, list(range(len(CONSTRUCTS))), chunksize=4)
    fl, n = [], 0
    for i, (cnt, fs) in enumerate(r9):
        n += cnt
        for f in fs:
            fl.append({"id": f"{f['cls']}::{CONSTRUCTS[i][:40]}::{P.sha(f['what'])}", "cls": f["cls"], "input": CONSTRUCTS[i], "observed": f["what"], "required": "a piece of code matches itself, once, and not a construct with a different tree"})
    out.append({"name": "c12-constructs-match-themselves", "function": "core.compile_template, match_template, pattern_matching.finditer", "contract": "every construct of the grammar, used as a pattern, is found in itself and once in a module around it, and does not match a near miss (def / async def, for / async for, is / ==, ...)",
                "space": f"{len(CONSTRUCTS)} constructs (one or more per statement / expression class of Python 3.12) x themselves, a surrounding module, and the other constructs of similar length", "bound": "enumerated constructs",
                "evaluations": n, "distinct_nontrivial": len(CONSTRUCTS), "exhaustive": True, "failures": P.cap(fl), "samples": [CONSTRUCTS[0], CONSTRUCTS[40]]})
    return out


if __name__ == "__main__":
    import collections
    import json
    import sys
    for r in run(sys.argv[1] if len(sys.argv) > 1 else "quick", 0):
        print(json.dumps({k: v for k, v in r.items() if k not in ("failures", "samples")}, indent=1)[:600])
        print(collections.Counter(f["cls"] for f in r["failures"]))
        seen = set()
        for f in r["failures"]:
            if f["cls"] not in seen or True:
                print("  ", f["cls"], "|", f["observed"][:300])
                seen.add(f["cls"])
