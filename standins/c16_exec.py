"""Bounded stand-in for C16: is_blocking / has_side_effect and their consumers against execution.

Statement shapes (exactly the property's quantifier) are enumerated up to a nesting bound; each is placed in a function
inside a loop, followed by an observable statement, and executed under ALL valuations of the unknown conditions with a
trace hook.  Contracts on the real functions:
  * is_blocking(s)                 =>  no valuation reaches the follower;
  * not has_side_effect(s)         =>  executing s records nothing, raises nothing, binds nothing observable;
  * each consumer rule / format_code keeps the recorded trace and outcome of the program for every valuation.
"""
import ast
import itertools
import multiprocessing as mp
import random
import signal
import textwrap

CONDS = ["True", "False", "u1", "u2", "0", "1"]
SIMPLE = ["pass", "return 7", "raise E()", "break", "continue", "obs(1)", "assert False", "assert u1", "x = obs(2)"]


def ind(b):
    return ["    " + l for l in b]


def blocks(depth, rnd=None, cap=None):
    out = [[s] for s in SIMPLE]
    if depth == 0:
        return out
    inner = blocks(depth - 1)
    pairs = [a + b for a in [["obs(1)"], ["pass"]] for b in inner] + [b + a for a in [["obs(3)"]] for b in inner]
    bodies = inner + (pairs if depth == 1 else [])
    if cap and len(bodies) > cap:
        bodies = rnd.sample(bodies, cap)
    heads = inner[:9]
    for c in CONDS:
        for b in bodies:
            out.append([f"if {c}:"] + ind(b))
            out.append([f"while {c}:"] + ind(b))
            out.append([f"while {c}:"] + ind(b) + ["else:", "    obs(4)"])
        for b1 in heads:
            for b2 in heads:
                out.append([f"if {c}:"] + ind(b1) + ["else:"] + ind(b2))
    out.extend(elif_shapes())
    for b in bodies:
        for it in ("it", "[1, 2]", "[]", "5"):
            out.append([f"for v in {it}:"] + ind(b))
        # iterables literal_value evaluates to iterator objects (always truthy, possibly empty)
        for it in ("enumerate(())", "zip([1, 2], [])", "zip()", "reversed([])", 'enumerate("")', "enumerate([1])", "zip([1], [2])", "reversed([1])"):
            out.append([f"for v in {it}:"] + ind(b))
        out.append(["for v in [1]:"] + ind(b) + ["else:", "    break"])
        out.append(["for v in [1, 2]:"] + ind(b) + ["else:", "    obs(5)"])
        out.append(["with ctx:"] + ind(b))
        out.append(["with sup:"] + ind(b))
        out.append(["try:"] + ind(b) + ["except E:", "    pass"])
        out.append(["try:"] + ind(b) + ["finally:", "    obs(6)"])
        out.append(["try:"] + ind(b) + ["except E:", "    raise"])
        # exits that sit only in a handler / else / finally clause of a try statement
        for ex in ("break", "continue", "return 2"):
            out.append(["try:"] + ind(b) + ["except E:", f"    {ex}"])
        out.append(["try:"] + ind(b) + ["except E:", "    pass", "else:", "    break"])
        out.append(["try:"] + ind(b) + ["finally:", "    break"])
    return out


def elif_shapes():
    """elif chains: a constant condition in the middle of a chain still depends on the conditions before it"""
    out = []
    for c in CONDS:
        for c2 in CONDS:
            for b1, b2, b3 in (("obs(1)", "obs(2)", "obs(3)"), ("return 1", "obs(2)", "obs(3)"), ("obs(1)", "return 2", "obs(3)"), ("obs(1)", "obs(2)", "break")):
                out.append([f"if {c}:", "    " + b1, f"elif {c2}:", "    " + b2, "else:", "    " + b3])
                out.append([f"if {c}:", "    " + b1, f"elif {c2}:", "    " + b2])
                out.append([f"if {c}:", "    " + b1, f"elif {c2}:", "    " + b2, "elif u2:", "    " + b3, "else:", "    obs(4)"])
    return out


def raising_purpose_shapes():
    """statements whose only purpose is the exception they may raise, or the state they advance"""
    return [
        ["try:", "    int('x')", "except ValueError:", "    obs(9)"], ["try:", "    int('x')", "except ValueError:", "    return 5"], ["try:", "    1 / 0", "except ZeroDivisionError:", "    obs(9)"],
        ["try:", "    {}['k']", "except KeyError:", "    obs(9)"], ["try:", "    next(iter(()))", "except StopIteration:", "    obs(9)"], ["try:", "    ctx.missing", "except AttributeError:", "    obs(9)"],
        ["try:", "    iter(5)", "except TypeError:", "    obs(9)"], ["try:", "    [1][3]", "except IndexError:", "    obs(9)", "else:", "    obs(8)"], ["try:", "    len(5)", "except TypeError:", "    return 4", "finally:", "    obs(7)"],
        ["it2 = iter([1, 2])", "next(it2)", "obs(next(it2))"], ["it2 = iter([1, 2])", "next(it2, None)", "obs(list(it2))"],
    ]


class E(Exception):
    pass


class Ctx:
    def __enter__(self):
        return self

    def __exit__(self, *a):
        return False


class Sup:
    """context manager that suppresses exceptions (like contextlib.suppress(Exception)); the harness's fuel signal passes"""
    def __enter__(self):
        return self

    def __exit__(self, *a):
        return a[0] is not None and issubclass(a[0], Exception)


class Fuel(BaseException):
    pass


ARMED = [False]


def _alarm(*a):
    if ARMED[0]:          # a late signal from an already finished run is ignored
        ARMED[0] = False
        raise Fuel()


def program(shape_src):
    """the function the shape runs in.  A first line `#frame:<name>` selects what FOLLOWS the shape: by default a statement of the same block;
    `last` / `last2`: the shape ends its block(s) and the next line is indented one / two levels less; `eof`: nothing follows at all;
    `module`: the next line is a module-level statement"""
    frame = "next"
    if shape_src.startswith("#frame:"):
        first, _, shape_src = shape_src.partition("\n")
        frame = first[len("#frame:"):]
    head = "def f(u1, u2, it, obs, ctx, sup, E):\n    for _outer in [0]:\n"
    if frame == "next":
        return head + textwrap.indent(shape_src, "        ") + "\n        obs('F')\n    return 'end'\n"
    if frame == "last":
        return head + textwrap.indent(shape_src, "        ") + "\n    obs('F')\n    return 'end'\n"
    if frame == "last2":
        return head + "        if not obs:\n            return 0\n        else:\n" + textwrap.indent(shape_src, "            ") + "\n    obs('F')\n    return 'end'\n"
    if frame == "eof":
        return head + textwrap.indent(shape_src, "        ")
    if frame == "genfn":
        # the shape is the body of an inner function; f reports what calling it gives (a generator object or not) and what iterating it yields
        return ("def f(u1, u2, it, obs, ctx, sup, E):\n    def inner():\n" + textwrap.indent(shape_src, "        ")
                + "\n    try:\n        made = inner()\n        kind = type(made).__name__\n        items = list(made) if kind == 'generator' else made\n    except E:\n        return 'raised'\n    return (kind, items)\n")
    if frame == "module":
        # the line after the function is a call at column 0 whose name is long enough for a column inside the function to fall into it
        return "def observe_result(g):\n    return g\n\n\n" + head + textwrap.indent(shape_src, "        ") + "\nobserve_result(f)\nobserve_result(observe_result)\n"
    raise ValueError(frame)


def generator_kind_shapes():
    """`return` followed by a `yield` that is never reached (the idiom for an empty generator), `raise` followed by one: deleting the yield as
    unreachable would turn the generator into a plain function (calling it would run the body / return None instead of an iterator)"""
    return [["#frame:genfn", "return", "yield"], ["#frame:genfn", "obs(1)", "return", "yield 5"], ["#frame:genfn", "if u1:", "    return", "    yield 1", "obs(2)"],
            ["#frame:genfn", "raise E()", "yield"], ["#frame:genfn", "while True:", "    obs(1)", "    break", "return", "yield from it"]]


def else_spelling_shapes():
    """two if / else statements in a row, the second one's else written `else :` / `else  :` / with a comment: a text search for `else:` must
    not take the else of the first statement"""
    out = []
    for spelling in ("else:", "else :", "else  :", "else: # note", "else :  # note", "else\\\n:"):
        for first_else in ("else:", "else :"):
            out.append(["if u1:", "    x = obs(1)", first_else, "    x = obs(2)", "if u2:", "    return x", spelling, "    obs(3)", "obs(4)"])
            out.append(["if u1:", "    x = obs(1)", first_else, "    x = obs(2)", "for a in it:", "    if u2:", "        continue", "    " + spelling, "        obs(a)", "obs(4)"])
    return out


def moved_code_shapes():
    """if / else (elif, nested) whose branches start or end with the same statement - what breakout_common_code_in_ifs moves in front of or behind
    the `if` - in every frame: the position the moved statement gets is computed from the line AFTER the if"""
    bodies = [
        ["if u1:", "    obs(1)", "    obs(9)", "else:", "    obs(2)", "    obs(9)"],
        ["if u1:", "    obs(9)", "    obs(1)", "else:", "    obs(9)", "    obs(2)"],
        ["if u1:", "    obs(1)", "    obs(8)", "    obs(9)", "else:", "    obs(2)", "    obs(8)", "    obs(9)"],
        ["if u1:", "    obs(1)", "    obs(9)", "elif u2:", "    obs(2)", "    obs(9)", "else:", "    obs(3)", "    obs(9)"],
        ["if u1:", "    obs(1)", "    obs(9)", "else:", "    if u2:", "        obs(2)", "        obs(9)", "    else:", "        obs(3)", "        obs(9)"],
        ["if u1:", "    obs(1)", "    obs(", "        9", "    )", "else:", "    obs(2)", "    obs(", "        9", "    )"],
        ["if u1:", "    obs(1)", "    x = obs(9)", "else:", "    obs(2)", "    x = obs(9)"],
        ["if u1:", "    obs(1)", "    return 9", "else:", "    obs(2)", "    return 9"],
        ["if u1:", "    obs(1)", "    for a in it:", "        obs(a)", "else:", "    obs(2)", "    for a in it:", "        obs(a)"],
    ]
    return [[f"#frame:{fr}"] + b for fr in ("next", "last", "last2", "eof", "module") for b in bodies]


def execute(src, u1, u2, it):
    """-> (trace tuple, outcome) or None when the run exceeds its fuel (possible non-termination)"""
    ns = {}
    try:
        exec(compile(src, "<s>", "exec"), ns)
    except SyntaxError:
        return "invalid"
    except Exception as ex:  # noqa: BLE001
        return (), ("module-level-code-raises", type(ex).__name__)
    trace = []

    def obs(k):
        trace.append(k)
        if len(trace) > 40:
            raise Fuel()
        return k
    import sys
    steps = [0]

    def tracer(frame, event, arg):
        if event == "line":
            steps[0] += 1
            if steps[0] > 400:      # deterministic fuel: a run that executes more than 400 lines is treated as non-terminating
                raise Fuel()
        return tracer
    try:
        sys.settrace(tracer)
        r = ns["f"](u1, u2, it, obs, Ctx(), Sup(), E)
        out = ("returns", r)
    except Fuel:
        return None
    except RecursionError:
        return None
    except BaseException as ex:  # noqa: BLE001
        out = ("raises", type(ex).__name__)
    finally:
        sys.settrace(None)
    return tuple(trace), out


VALUATIONS = list(itertools.product([False, True], [False, True], [[], [1, 2]]))


def check_blocking(shape):
    from pyrefact import core, logs
    logs.set_level(100)
    src = "\n".join(shape)
    try:
        node = ast.parse("def f():\n  for _o in [0]:\n" + textwrap.indent(src, "    ")).body[0].body[0].body[0]
    except SyntaxError:
        return None
    try:
        b = core.is_blocking(node)
    except Exception as ex:  # noqa: BLE001
        return {"cls": f"is_blocking:raises:{type(ex).__name__}", "what": f"is_blocking raised {type(ex).__name__}: {ex}", "shape": src}
    if not b:
        return {"blocking": False}
    prog = program(src)
    for u1, u2, it in VALUATIONS:
        r = execute(prog, u1, u2, it)
        if r and r != "invalid" and "F" in r[0]:
            first = shape[0].split(" ")[0].rstrip(":")
            cls = "is_blocking:unsound:with-suppressing-manager" if "with sup:" in src else f"is_blocking:unsound:{first}"
            return {"cls": cls, "what": f"is_blocking says nothing after this statement runs, but with u1={u1} u2={u2} it={it} the follower is reached", "shape": src}
    return {"blocking": True}


EXPRS = ["obs(1)", "[obs(1) for a in [1, 2]]", "{obs(1) for a in [1]}", "{obs(1): 0 for a in [1]}", "{0: obs(1) for a in [1]}", "[a for a in obs([1])]", "[a for a in [1] if obs(1)]",
         "(obs(1) for a in [1])", "obs(1) if u1 else 2", "2 if obs(1) else 3", "f'{obs(1)}'", "f'{1:{obs(2)}}'", "[1, 2][::obs(1)]", "[1, 2][obs(0)]", "[1, 2][obs(0):]", "(lambda q=obs(1): q)",
         "(lambda: obs(1))", "(lambda: obs(1))()", "1 + obs(1)", "-obs(1)", "not obs(1)", "1 < obs(2)", "u1 and obs(1)", "[obs(1)]", "(obs(1),)", "{1: obs(1)}", "{obs(1): 1}", "{**{1: obs(2)}}", "[*[obs(1)]]",
         "obs", "obs.__name__", "getobs()(1)",
         # a function handed to a builtin that calls it
         "list(map(obs, [1]))", "list(filter(obs, [1]))", "sorted([1, 2], key=obs)", "max([1, 2], key=obs)", "min([1, 2], key=obs)", "list(map(lambda q: obs(q), [1]))", "sorted([2, 1], key=lambda q: obs(q))",
         "any(map(obs, [1]))", "sum(map(obs, [1]))", "tuple(filter(lambda q: obs(q), [1]))", "list(map(str, [1]))", "sorted([1, 2], key=abs)", "list(filter(None, [0, 1]))", "(z := 3)", "len([obs(1)])", "len([1])", "str(obs(1))", "''.join([str(obs(1))])", "1", "'doc'", "u1", "u1 + 1", "[u1, u2]", "u1.real", "...", "None"]
STMTS = ["x = obs(1)", "x = 1", "_ = 1", "_ = obs(1)", "x: int = 1", "x: obs(1) = 1", "x += 1", "del ctx", "import os", "global g", "pass",
         "for a in [1]:\n    pass", "for a in [1]:\n    pass\nelse:\n    obs(1)", "for a in [1]:\n    obs(1)", "for a in obs([1]):\n    pass", "if u1:\n    obs(1)", "if obs(1):\n    pass", "if u1:\n    pass\nelse:\n    obs(1)",
         "while obs(0):\n    pass", "with ctx:\n    pass", "try:\n    pass\nfinally:\n    obs(1)", "def _():\n    pass", "def _(q=obs(1)):\n    pass", "@obs\ndef _():\n    pass", "class _:\n    obs(1)", "class _(getobs()):\n    pass",
         "class _:\n    pass", "def h():\n    pass", "assert u1", "assert True", "raise E()", "return 3", "yield 1", "await u1" if False else "pass"]


def check_pointless(stmt_src):
    from pyrefact import core, logs
    logs.set_level(100)
    body = textwrap.indent(stmt_src, "    ")
    prog = ("def f(u1, u2, it, obs, ctx, sup, E):\n    def getobs():\n        return obs\n    x = 0\n" + body + "\n    return ('end', x)\n")
    try:
        node = ast.parse(prog).body[0].body[2]
    except SyntaxError:
        return None
    try:
        # with the whitelist the deleting rule really uses (the builtins and definitions it infers to be harmless), not the empty default
        from pyrefact import parsing
        h = core.has_side_effect(node, parsing.safe_callable_names(ast.parse(prog))) and core.has_side_effect(node)
    except Exception as ex:  # noqa: BLE001
        return {"cls": f"has_side_effect:raises:{type(ex).__name__}", "what": f"has_side_effect raised {type(ex).__name__}", "shape": stmt_src}
    if h:
        return {"pointless": False}
    for u1, u2, it in VALUATIONS[:4]:
        r = execute(prog, u1, u2, it)
        if r in (None, "invalid"):
            continue
        if r[0] or r[1] != ("returns", ("end", 0)):
            return {"cls": "has_side_effect:unsound", "what": f"has_side_effect is False but executing the statement gives trace {r[0]} outcome {r[1]} (u1={u1})", "shape": stmt_src}
    return {"pointless": True}


CONSUMERS = ["fixes.delete_unreachable_code", "fixes.delete_pointless_statements", "fixes.remove_redundant_else", "fixes.swap_if_else", "fixes.breakout_common_code_in_ifs", "fixes.remove_dead_ifs", "format_code"]


def check_consumers(shape):
    import importlib
    import pyrefact
    from pyrefact import logs
    logs.set_level(100)
    src = "\n".join(shape)
    if "for v in 5:" in src:
        # ill-typed program (TypeError at run time): outside the property's class of programs; the shape is still used for the
        # is_blocking crash check, but the consumers are not required to preserve the TypeError of a pure expression
        return []
    prog = program(src)
    try:
        ast.parse(prog)
    except SyntaxError:
        return []
    want = None
    fails = []
    for cn in CONSUMERS:
        try:
            if cn == "format_code":
                out = pyrefact.format_code(prog, preserve={"f"})
            else:
                mod, fn = cn.split(".")
                out = getattr(importlib.import_module("pyrefact." + mod), fn)(prog)
        except BaseException as ex:  # noqa: BLE001
            fails.append({"cls": f"{cn}:raises:{type(ex).__name__}", "what": f"{cn} raised {type(ex).__name__}: {str(ex)[:80]}", "shape": src})
            continue
        if out == prog:
            continue
        if want is None:
            want = [execute(prog, *v) for v in VALUATIONS]
        for v, w in zip(VALUATIONS, want):
            if w is None:
                continue
            got = execute(out, *v)
            if got is None:
                got = "no-result-within-fuel"
            if got != w:
                sup = ":with-suppressing-manager" if "with sup:" in src else ""
                fails.append({"cls": f"{cn}:behaviour{sup}", "what": f"{cn}: with u1={v[0]} u2={v[1]} it={v[2]} the program gave {w} before and {got} after", "shape": src, "output": out})
                break
    return fails


# ---- calls of functions defined in the module: a call statement is pointless only if running the callee does nothing observable
CALLEE_PREFIX = [[], ["x = 1"], ["obs(0)"], ["if u1:", "    return 5"]]
CALLEE_LAST = [
    ["return 1"], ["return obs(1)"], ["return [obs(1) for a in [1]]"], ["raise E()"], ["assert u1"], ["pass"], ["obs(1)"],
    ["if u1:", "    obs(1)", "    return 1", "else:", "    return 2"], ["if u1:", "    return 1", "else:", "    obs(1)", "    return 2"],
    ["if u1:", "    return 1", "else:", "    raise E()"], ["if u1:", "    return 1", "raise E()"], ["if u1:", "    return 1", "else:", "    return 2"],
    ["while True:", "    obs(1)", "    if u1:", "        return 1", "    return 2"], ["while True:", "    return obs(1)"], ["while True:", "    raise E()"],
    ["for v in [1]:", "    obs(1)", "    return 1"], ["for v in [1, 2]:", "    raise E()"], ["for v in enumerate(()):", "    return 1", "obs(1)"],
    ["try:", "    return 1", "finally:", "    obs(1)"], ["try:", "    raise E()", "except E:", "    obs(1)", "    return 2"], ["try:", "    return 1", "except E:", "    return 2"],
    ["with ctx:", "    obs(1)", "    return 1"], ["with ctx:", "    return 1"], ["with sup:", "    raise E()"],
    ["def g():", "    obs(1)", "g()", "return 1"], ["def g():", "    obs(1)", "return g"], ["yield obs(1)"], ["return (lambda: obs(1))()"], ["return lambda: obs(1)"],
    ["if u1:", "    assert not u1", "    return 1", "else:", "    return 2"],
]
CALL_FORMS = ["h(u1, obs, ctx, sup, E)", "y = h(u1, obs, ctx, sup, E)", "[h(u1, obs, ctx, sup, E) for a in [1]]", "h(u1, obs, ctx, sup, E) if u2 else 0", "K(u1, obs, ctx, sup, E)", "K(u1, obs, ctx, sup, E).m"]


def callee_programs():
    out = []
    for pre in CALLEE_PREFIX:
        for last in CALLEE_LAST:
            body = ind(pre + last)
            returns_value = any(ln.strip().startswith("return ") for ln in pre + last) or any(ln.strip().startswith("yield") for ln in last)
            for call in CALL_FORMS:
                if call.startswith("K("):
                    if returns_value:
                        continue   # __init__ must return None
                    head = ["class K:", "    m = 3", "", "    def __init__(self, u1, obs, ctx, sup, E):"] + ind(body)
                else:
                    head = ["def h(u1, obs, ctx, sup, E):"] + body
                out.append("\n".join(head + ["", "", "def f(u1, u2, it, obs, ctx, sup, E):", "    " + call, "    obs('F')", "    return 'end'"]) + "\n")
    return out + CALLEE_EXTRA


F_HEAD = "def f(u1, u2, it, obs, ctx, sup, E):\n"
F_TAIL = "    obs('F')\n    return 'end'\n"
CALLEE_EXTRA = [
    # the name that is called is not (only) the harmless function that carries it
    "def deco(fn):\n    def wrapper(u1, obs):\n        obs('D')\n        return fn(u1, obs)\n\n    return wrapper\n\n\n@deco\ndef h(u1, obs):\n    return u1\n\n\n" + F_HEAD + "    h(u1, obs)\n" + F_TAIL,
    "def h(x):\n    return 1\n\n\n" + F_HEAD + "    def inner(h):\n        h(3)\n        return 2\n\n    inner(obs)\n" + F_TAIL,
    "def h(x):\n    return 1\n\n\n" + F_HEAD + "    inner = lambda h: [h(3), 2]\n    inner(obs)\n" + F_TAIL,
    "def h(x):\n    return 1\n\n\n" + F_HEAD + "    def inner(a, *, h=h):\n        h(3)\n        return 2\n\n    inner(1, h=obs)\n" + F_TAIL,
    "def h(x):\n    return 1\n\n\n" + F_HEAD + "    def inner(h, /, a):\n        h(3)\n        return 2\n\n    inner(obs, 1)\n" + F_TAIL,
    "def h(x):\n    return 1\n\n\n" + F_HEAD + "    async def inner(a, *, h=h):\n        h(3)\n        return 2\n\n    try:\n        inner(1, h=obs).send(None)\n    except StopIteration:\n        pass\n" + F_TAIL,
    "def h(obs):\n    return 1\n\n\n" + F_HEAD + "    h(obs)\n" + F_TAIL + "\n\ndef h(obs):\n    obs(2)\n",
    "import sys\n\n\ndef h(obs):\n    return 1\n\n\nif len(sys.argv) >= 0:\n    def h(obs):\n        obs(2)\n\n\n" + F_HEAD + "    h(obs)\n" + F_TAIL,
    "def h(obs):\n    return 1\n\n\n" + F_HEAD + "    h = obs\n    h(4)\n" + F_TAIL,
    "def h(obs):\n    return 1\n\n\n" + F_HEAD + "    for h in [obs]:\n        h(4)\n" + F_TAIL,
    "def h(obs):\n    return 1\n\n\n" + F_HEAD + "    try:\n        raise E(obs)\n    except E as h:\n        h.args[0](4)\n" + F_TAIL,
    "class Base:\n    def __init__(self, obs):\n        obs(1)\n\n\nclass K(Base):\n    pass\n\n\n" + F_HEAD + "    K(obs)\n" + F_TAIL,
    "class Meta(type):\n    def __call__(cls, obs):\n        obs(1)\n\n\nclass K(metaclass=Meta):\n    pass\n\n\n" + F_HEAD + "    K(obs)\n" + F_TAIL,
    "def deco(cls):\n    def make(obs):\n        obs(1)\n        return cls()\n\n    return make\n\n\n@deco\nclass K:\n    pass\n\n\n" + F_HEAD + "    K(obs)\n" + F_TAIL,
    "class K:\n    def __new__(cls, obs):\n        obs(1)\n        return super().__new__(cls)\n\n\n" + F_HEAD + "    K(obs)\n" + F_TAIL,
    "class K:\n    x = 1\n\n    def __post_init__(self):\n        raise E()\n\n\n" + F_HEAD + "    K()\n" + F_TAIL,
    "class K:\n    def h(self, obs):\n        obs(1)\n\n\ndef h(k, obs):\n    return 1\n\n\n" + F_HEAD + "    K().h(obs)\n    h(1, obs)\n" + F_TAIL,
    # a method of a constant (", ".join, "{}".format) examined BEFORE a call of a user-defined / unknown function of the same name: what one
    # question adds to the set of harmless names must not answer the next question
    "HOLD = []\n\n\ndef join(*a):\n    HOLD[0](7)\n\n\ndef label(names):\n    return ', '.join(names)\n\n\n" + F_HEAD + "    HOLD.append(obs)\n    label(['a'])\n    join()\n" + F_TAIL,
    "HOLD = []\n\n\ndef format(*a):\n    HOLD[0](7)\n\n\ndef label(name):\n    x = 1\n    return '<{}>'.format(name)\n\n\n" + F_HEAD + "    HOLD.append(obs)\n    label('a')\n    format()\n" + F_TAIL,
    "HOLD = []\n\n\ndef upper(*a):\n    HOLD[0](7)\n\n\n" + F_HEAD + "    HOLD.append(obs)\n    if 'a'.upper():\n        pass\n    for c in 'ab'.split():\n        pass\n    upper()\n    split = obs\n    split(8)\n" + F_TAIL,
]

CALLEE_CONSUMERS = ["fixes.delete_pointless_statements", "fixes.undefine_unused_variables", "format_code"]


def check_callees(prog):
    import importlib
    import pyrefact
    from pyrefact import logs
    logs.set_level(100)
    try:
        ast.parse(prog)
    except SyntaxError:
        return []
    want = None
    fails = []
    for cn in CALLEE_CONSUMERS:
        try:
            if cn == "format_code":
                out = pyrefact.format_code(prog, preserve={"f"})
            else:
                mod, fn = cn.split(".")
                out = getattr(importlib.import_module("pyrefact." + mod), fn)(prog)
        except BaseException as ex:  # noqa: BLE001
            fails.append({"cls": f"{cn}:raises:{type(ex).__name__}", "what": f"{cn} raised {type(ex).__name__}: {str(ex)[:80]}", "shape": prog})
            continue
        if out == prog:
            continue
        if want is None:
            want = [execute(prog, *v) for v in VALUATIONS[:4]]
        for v, w in zip(VALUATIONS[:4], want):
            if w is None:
                continue
            got = execute(out, *v)
            if got is None:
                got = "no-result-within-fuel"
            if got != w:
                sup = ":with-suppressing-manager" if "with sup:" in prog else ""
                fails.append({"cls": f"{cn}:callee-behaviour{sup}", "what": f"{cn}: with u1={v[0]} u2={v[1]} the program gave {w} before and {got} after", "shape": prog, "output": out})
                break
    return fails


def _w4(x):
    r = _w(check_callees)(x)
    return r if isinstance(r, list) else [r]


def _w(fn):
    def inner(x):
        try:
            return fn(x)
        except BaseException as ex:  # noqa: BLE001
            ARMED[0] = False
            return {"harness_error": repr(ex)}
    return inner


def _w1(x):
    return _w(check_blocking)(x)


def _w2(x):
    return _w(check_pointless)(x)


def _w3(x):
    r = _w(check_consumers)(x)
    return r if isinstance(r, list) else [r]


def run(tier, seed):
    rnd = random.Random(seed)
    shapes = blocks(2, rnd)
    shapes = list({"\n".join(s): s for s in shapes}.values())
    n_all = len(shapes)
    if tier == "quick":
        # is_blocking itself is checked on every shape in both tiers (a few seconds); only the consumers are sampled
        cons_shapes = rnd.sample(shapes, 400)
    else:
        cons_shapes = rnd.sample(shapes, min(len(shapes), 5000))
    have = {"\n".join(x) for x in cons_shapes}
    cons_shapes = cons_shapes + [x for x in elif_shapes() if "\n".join(x) not in have] + raising_purpose_shapes() + moved_code_shapes() + else_spelling_shapes() + generator_kind_shapes()
    stmts = [f"{e}" for e in EXPRS] + STMTS
    ctx = mp.get_context("fork")
    with ctx.Pool(16, maxtasksperchild=300) as pool:
        r1 = pool.map(_w1, shapes, chunksize=200)
        r2 = pool.map(_w2, stmts, chunksize=4)
        r3 = pool.map(_w3, cons_shapes, chunksize=5)
        callees = callee_programs()
        r4 = pool.map(_w4, callees, chunksize=5)
    out = []
    for name, fn_desc, contract, inputs, results, space in (
        ("c16-is-blocking-executed", "core.is_blocking", "is_blocking(s) => the follower is unreachable for every valuation", shapes, [[r] for r in r1],
         f"all statement shapes of nesting <= 2 from if/else, while(+else), for(+else), with (plain and exception-suppressing), try/except/finally over conditions {CONDS}, simple statements {SIMPLE} = {n_all} shapes ({len(shapes)} of them in this tier), each under {len(VALUATIONS)} valuations"),
        ("c16-has-side-effect-executed", "core.has_side_effect", "not has_side_effect(s) => empty trace, no exception, no visible binding", stmts, [[r] for r in r2],
         f"{len(EXPRS)} expression statements (calls inside comprehensions, conditional expressions, f-strings, slices, lambda defaults, starred/dict unpacking, call-of-call) and {len(STMTS)} statement forms"),
        ("c16-consumers-executed", ", ".join(CONSUMERS), "same trace and outcome before and after, for every valuation", cons_shapes, r3,
         f"{len(cons_shapes)} of the shapes above (seeded sample) x {len(CONSUMERS)} consumers x {len(VALUATIONS)} valuations"),
        ("c16-callees-executed", ", ".join(CALLEE_CONSUMERS) + " (parsing.safe_callable_names)", "same trace and outcome before and after, for every valuation", callees, r4,
         f"{len(CALLEE_PREFIX)} prefixes x {len(CALLEE_LAST)} final statements of a module-level function or an __init__ (always-returning if/else, loops, try/finally, with, nested def, generator, lambda) x {len(CALL_FORMS)} call forms "
         f"whose result is unused x {len(CALLEE_CONSUMERS)} consumers x 4 valuations"),
    ):
        fl, errs, nontriv = [], [], 0
        for inp, rs in zip(inputs, results):
            for r in rs:
                if r is None:
                    continue
                if "harness_error" in r:
                    errs.append(r["harness_error"])
                elif "cls" in r:
                    key = inp if isinstance(inp, str) else "\n".join(inp)
                    fl.append({"id": f"{r['cls']}::{key}", "cls": r["cls"], "input": r.get("shape", key), "observed": r["what"], "output": r.get("output"), "required": contract})
                elif r.get("blocking") or r.get("pointless"):
                    nontriv += 1
        res = {"name": name, "function": fn_desc, "contract": contract, "space": space, "bound": "nesting <= 2", "evaluations": len(inputs),
               "distinct_nontrivial": nontriv if nontriv else len(inputs), "exhaustive": name in ("c16-has-side-effect-executed", "c16-is-blocking-executed"), "failures": _cap(fl),
               "samples": [inputs[0] if isinstance(inputs[0], str) else "\n".join(inputs[0]), inputs[-1] if isinstance(inputs[-1], str) else "\n".join(inputs[-1])]}
        if errs:
            res["error"] = f"{len(errs)} harness errors, first: {errs[0]}"
        out.append(res)
    return out


def _cap(fl, per_cls=4):
    seen, out = {}, []
    for f in fl:
        seen[f["cls"]] = seen.get(f["cls"], 0) + 1
        if seen[f["cls"]] <= per_cls:
            out.append(f)
    return out


if __name__ == "__main__":
    import collections
    import json
    import sys
    for r in run(sys.argv[1] if len(sys.argv) > 1 else "quick", 0):
        print(json.dumps({k: v for k, v in r.items() if k not in ("failures", "samples", "space")}, indent=1)[:600])
        print(collections.Counter(f["cls"] for f in r["failures"]))
        seen = set()
        for f in r["failures"]:
            if f["cls"] not in seen:
                print("  ", f["cls"], "|", f["observed"][:250], "\n" + textwrap.indent(f["input"], "        "))
                seen.add(f["cls"])
