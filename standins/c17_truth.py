"""Bounded stand-in for C17: contract "the rewritten expression has the same value as the original for every
assignment of integers to its variables", checked at run time on the real rules over enumerated formulas and
all valuations in a box that strictly contains every constant."""
import ast
import itertools
import multiprocessing as mp
import random

BOX = range(-4, 5)
OPS = ["<", "<=", ">", ">=", "==", "!="]
CONSTS = [-2, -1, 0, 1, 2]


def atoms(vars_):
    out = []
    for v in vars_:
        for op in OPS:
            for k in CONSTS:
                out.append(f"{v} {op} {k}")
                out.append(f"{k} {op} {v}")
    return out


def formulas(tier, seed):
    rnd = random.Random(seed)
    ax = atoms(["x"])
    axy = atoms(["x", "y"])
    fs = []
    for a, b in itertools.product(ax, ax):
        fs.append(f"{a} and {b}")
        fs.append(f"{a} or {b}")
    n_exh = len(fs)
    for a in ax:
        fs.append(f"not {a}")
        fs.append(f"not ({a})")
    n = 2500 if tier == "quick" else 60000
    for _ in range(n):
        k = rnd.choice((3, 3, 4))
        parts = [rnd.choice(axy if rnd.random() < 0.4 else ax) for _ in range(k)]
        parts = [(f"not {p}" if rnd.random() < 0.15 else p) for p in parts]
        shape = rnd.random()
        if shape < 0.35:
            fs.append(" and ".join(parts))
        elif shape < 0.7:
            fs.append(" or ".join(parts))
        elif shape < 0.85:
            fs.append(f"({parts[0]} and {parts[1]}) or {' and '.join(parts[2:])}")
        else:
            fs.append(f"not ({parts[0]} or {parts[1]}) and ({' or '.join(parts[2:])})")
    return fs, n_exh


RULES = ["symbolic_math.simplify_boolean_expressions", "symbolic_math.simplify_boolean_expressions_symmath",
         "fixes.remove_redundant_boolop_values", "fixes.replace_negated_numeric_comparison"]


def _get(name):
    import importlib
    mod, fn = name.rsplit(".", 1)
    return getattr(importlib.import_module("pyrefact." + mod), fn)


def values(expr_src, names):
    code = compile(expr_src, "<e>", "eval")
    out = []
    for vals in itertools.product(BOX, repeat=len(names)):
        try:
            out.append(bool(eval(code, {}, dict(zip(names, vals)))))
        except Exception as ex:
            out.append(type(ex).__name__)
    return out


def eval_formula(f):
    from pyrefact import logs
    logs.set_level(100)
    names = [n for n in ("x", "y") if n in f.replace("not", "")]
    src = f"r = {f}\n"
    fails = []
    want = None
    for rn in RULES:
        try:
            out = _get(rn)(src)
        except Exception as ex:
            fails.append({"rule": rn, "what": f"raised {type(ex).__name__}: {ex}", "cls": f"{rn}:raises"})
            continue
        if out == src:
            continue
        if want is None:
            want = values(f, names)
        try:
            e2 = ast.unparse(ast.parse(out).body[0].value)
            got = values(e2, names)
        except Exception as ex:
            fails.append({"rule": rn, "what": f"output not evaluable: {out!r} ({ex})", "cls": f"{rn}:invalid"})
            continue
        if got != want:
            k = next(i for i, (a, b) in enumerate(zip(want, got)) if a != b)
            val = list(itertools.product(BOX, repeat=len(names)))[k]
            fails.append({"rule": rn, "what": f"{f!r} -> {e2!r}: differ at {dict(zip(names, val))} ({want[k]} vs {got[k]})", "cls": f"{rn}:value"})
    return fails


# ----------------------------------------------------------------------------- ranges and sums
def range_cases(tier, seed):
    rnd = random.Random(seed + 1)
    cases = []
    conds = [f"x {op} {k}" for op in ["<", "<=", ">", ">=", "=="] for k in (-1, 0, 2, 3, 5)] + [f"{k} {op} x" for op in ["<", "<=", ">", ">="] for k in (0, 3)]
    bounds = [(0, 5), (2, 5), (-1, 3), (3, 3), (5, 2), (0, 3)]
    for (a, b) in bounds:
        for form in (f"range({b})" if a == 0 else None, f"range({a}, {b})", f"range({a}, {b}, 1)", f"range({a}, {b}, 2)", f"range({b}, {a}, -1)", f"range(n, {b})", f"range({a}, n)"):
            if form is None:
                continue
            for c in conds:
                cases.append(f"[x for x in {form} if {c}]")
            for c1, c2 in (rnd.sample(conds, 2) for _ in range(6 if tier == "quick" else 40)):
                cases.append(f"[x for x in {form} if {c1} and {c2}]")
                cases.append(f"{{x for x in {form} if {c1} if {c2}}}")
    return cases


def sum_cases():
    cases = []
    for a, b in [(0, 5), (2, 6), (-2, 3), (3, 3), (1, 2)]:
        cases += [f"sum(range({a}, {b}))", f"sum(range({b}))" if a == 0 else f"sum(range({a}, {b}, 1))", f"sum(range({a}, {b}, 2))",
                  f"sum(x for x in range({a}, {b}))", f"sum([2 * x for x in range({a}, {b})])", f"sum(x * x for x in range({a}, {b}))",
                  f"sum(1 for x in range({a}, {b}))", f"sum([x + 1 for x in range({a}, {b})])"]
    for a, b in [(-3, 0), (-5, -2), (0, 10), (1, 10), (2, 3), (10, 0), (4, 4)]:
        for st in (2, 3, -3):
            cases += [f"sum(x for x in range({a}, {b}, {st}))", f"sum(x * x for x in range({a}, {b}, {st}))", f"sum([x + 1 for x in range({a}, {b}, {st})])"]
        cases += [f"sum(range({a}, {b}))", f"sum(x for x in range({a}, {b}))"] if a <= b else []
    cases += ["sum(x * a for a in range(10, 19, 2) for x in range(1, 9, 5))", "sum(x for x in range(1, n, 3))", "sum(x * x for x in range(0, n, 2))"]
    # elements and generators that a computer-algebra reading gets wrong: bit operators, boolean / conditional elements, division,
    # generators that depend on or shadow each other, empty iterables
    cases += ["sum([1 << 3, 2])", "sum([6 & 3, 1])", "sum([6 | 3, 1])", "sum([6 ^ 3, 1])", "sum([7 // 2, 1])", "sum([7 % 4, 1])", "sum([1 - 2, 3 * 4])", "sum(x * y for x in range(3) for y in range(x))",
              "sum(x for x in range(3) for x in range(4))", "sum(i and 2 for i in range(4))", "sum(i or 1 for i in range(4))", "sum(i if i else 1 for i in range(4))", "sum(i / 2 for i in range(5))",
              "sum(i // 2 for i in range(5))", "sum(i % 2 for i in range(5))", "sum(i ^ 1 for i in range(4))", "sum(-i for i in range(4))", "sum(2 ** i for i in range(5))", "sum(x for x in ())", "sum([])",
              "sum(i for i in range(10) if i > 12)", "sum(i == 1 for i in range(4))", "sum(i * k for i in range(3) for k in range(2))", "sum(n for i in range(4))", "sum(i for i in [1, 2, 2])", "sum(i for i in {1, 2, 2})"]
    cases += ["sum(x for x in {n, m_})", "sum(x * 2 for x in {n, m_, 3})", "sum(x for x in [n, m_])", "sum(x for x in (n, m_, n))", "sum(x for x in {n, n})", "sum(x for x in {n, 1})", "sum(x for x in {2, 1, 1})",
              "sum(x * x for x in {n, -n})", "sum(1 for x in {n, m_})"]
    cases += ["sum(range(5, 3))", "sum(range(n))", "sum(range(0, n))", "sum(x for x in range(n))", "sum(range(2, n))", "sum([n * x for x in range(3)])"]
    return cases


RANGE_RULES = ["symbolic_math.simplify_constrained_range"]
SUM_RULES = ["symbolic_math.simplify_math_iterators", "fixes.inline_math_comprehensions"]


def eval_expr_case(args):
    kind, e = args
    from pyrefact import logs
    logs.set_level(100)
    rules = RANGE_RULES if kind == "range" else SUM_RULES
    src = f"r = {e}\n"
    fails = []
    envs = [{"n": n} for n in range(-2, 7)] if "n" in e.replace("range", "").replace("in ", "") else [{}]
    if "m_" in e:        # two free variables: every pair, equal values included (elements of a set display that are equal count once)
        envs = [{"n": n, "m_": m} for n in range(-1, 4) for m in range(-1, 4)]

    def val(expr):
        out = []
        for env in envs:
            try:
                v = eval(expr, dict(env))      # names go in globals: a generator expression does not see a locals dict
                out.append(sorted(v) if isinstance(v, set) else v)
            except Exception as ex:
                out.append(type(ex).__name__)
        return out
    for rn in rules:
        try:
            out = _get(rn)(src)
        except Exception as ex:
            fails.append({"rule": rn, "what": f"{e!r}: raised {type(ex).__name__}: {ex}", "cls": f"{rn}:raises"})
            continue
        if out == src:
            continue
        try:
            e2 = ast.unparse(ast.parse(out).body[0].value)
        except Exception as ex:
            fails.append({"rule": rn, "what": f"{e!r}: output not parsable {out!r}", "cls": f"{rn}:invalid"})
            continue
        want, got = val(e), val(e2)
        same = all((a == b and type(a) is type(b)) or (isinstance(a, (int, float)) and isinstance(b, (int, float)) and not isinstance(a, bool) and a == b and type(a) is type(b)) for a, b in zip(want, got))
        if not same:
            k = next(i for i, (a, b) in enumerate(zip(want, got)) if not (a == b and type(a) is type(b)))
            fails.append({"rule": rn, "what": f"{e!r} -> {e2!r}: differ at {envs[k]} ({want[k]!r} vs {got[k]!r})", "cls": f"{rn}:value", "expr": e})
    return fails


def _safe(fn, arg):
    try:
        return fn(arg)
    except Exception as ex:
        return [{"harness_error": repr(ex)}]


def _w1(f):
    return _safe(eval_formula, f)


def _w2(a):
    return _safe(eval_expr_case, a)


# ---- condition negation as the control-flow rules use it (swap_if_else, early_continue): executed programs
NEG_CONDS = ["0 < x <= y", "x < y < 2", "0 <= x < 3", "x == y == 0", "x != y != 1", "-1 < x < y <= 2", "x < 1", "x >= y", "x == 1", "x != y", "x < 0 or y > 1", "x < 0 and y > 1", "not x < 2",
             "not (x < 0 or y > 1)", "0 < x < 3 and y != 0", "x < y <= 2 or x == 0", "not 0 < x < 3", "x in (1, 2)", "x not in (0, y)", "x is y", "(x < y) == (y < 1)", "x < 0 < y or y < 0 < x"]
NEG_FRAMES = [
    "def f(x, y):\n    if {c}:\n        pass\n    else:\n        return 'else'\n    return 'body'\n",
    "def f(x, y):\n    if {c}:\n        v = 1\n    else:\n        v = 2\n        v += x\n        v += y\n        v *= 2\n        v -= 1\n    return v\n",
    "def f(x, y):\n    out = []\n    for k in (x, y, x + y):\n        if {c}:\n            out.append(k)\n            out.append(x)\n            out.append(y)\n            out.append(k + 1)\n    return out\n",
    "def f(x, y):\n    out = []\n    for k in (x, y):\n        if {c}:\n            continue\n        else:\n            out.append(k)\n            out.append(x)\n            out.append(y)\n    return out\n",
    "def f(x, y):\n    while True:\n        if {c}:\n            return 'a'\n        else:\n            x += 1\n            y -= 1\n            if x > 6:\n                return 'b'\n",
]
NEG_RULES = ["fixes.swap_if_else", "fixes.early_continue", "fixes.early_return", "fixes.remove_redundant_else", "format_code"]


def _w3(args):
    import pyrefact
    from pyrefact import logs
    logs.set_level(100)
    frame, cond = args
    src = frame.format(c=cond)
    fails = []

    def table(text):
        ns = {}
        exec(compile(text, "<p>", "exec"), ns)   # noqa: S102
        f = [v for k, v in ns.items() if callable(v) and not k.startswith("__")][0]
        out = []
        for x, y in itertools.product(range(-2, 4), repeat=2):
            try:
                out.append(repr(f(x, y)))
            except Exception as ex:  # noqa: BLE001
                out.append("raises " + type(ex).__name__)
        return out
    try:
        want = table(src)
    except Exception as ex:  # noqa: BLE001
        return [{"harness_error": repr(ex)}]
    for rule in NEG_RULES:
        try:
            out = pyrefact.format_code(src, preserve={"f"}) if rule == "format_code" else _get(rule)(src)
        except Exception as ex:  # noqa: BLE001
            fails.append({"rule": rule, "cls": f"{rule}:raises:{type(ex).__name__}", "what": f"{rule} raised {type(ex).__name__} on {src!r}"})
            continue
        if out == src:
            continue
        try:
            got = table(out)
        except Exception as ex:  # noqa: BLE001
            fails.append({"rule": rule, "cls": f"{rule}:invalid", "what": f"{rule}: result does not run ({type(ex).__name__}): {out!r}"})
            continue
        if got != want:
            k = next(i for i, (a, b) in enumerate(zip(want, got)) if a != b)
            x, y = list(itertools.product(range(-2, 4), repeat=2))[k]
            fails.append({"rule": rule, "cls": f"{rule}:negation-changes-value", "what": f"{rule}: with (x, y) = ({x}, {y}) the function returned {want[k]} before and {got[k]} after; result {out!r}"})
    return fails


def run(tier, seed):
    fs, n_exh = formulas(tier, seed)
    ctx = mp.get_context("fork")
    with ctx.Pool(16) as pool:
        r1 = pool.map(_w1, fs, chunksize=100)
        rc = [("range", e) for e in range_cases(tier, seed)] + [("sum", e) for e in sum_cases()]
        r2 = pool.map(_w2, rc, chunksize=20)
        neg = [(fr, c) for fr in NEG_FRAMES for c in NEG_CONDS]
        r3 = pool.map(_w3, neg, chunksize=2)
    out = []
    for name, inputs, results, space in (
            ("c17-negation-executed", [fr.format(c=c) for fr, c in neg], r3, f"{len(NEG_FRAMES)} program frames (if/else with an empty or short branch, loops with a large if body, continue, while-true) x {len(NEG_CONDS)} conditions "
             f"(single and CHAINED comparisons, and / or / not, in, is) through {NEG_RULES}; executed for all (x, y) in [-2, 3]^2"),
            ("c17-boolean-truth-table", fs, r1, f"all ordered pairs of atoms `x op k` / `k op x` (op in {OPS}, k in {CONSTS}) under and/or = {n_exh} formulas exhaustively, all negated atoms, plus {len(fs) - n_exh - 120} seeded formulas of 3-4 atoms over x, y with not/and/or nesting; every valuation in [-4, 4]^k; rules {RULES}"),
            ("c17-range-and-sum", [e for _, e in rc], r2, "range comprehensions over constant / symbolic bounds, steps {1,2,-1}, one or two filters; sum(...) closed forms; symbolic n in [-2, 6]; rules " + str(RANGE_RULES + SUM_RULES))):
        failures, errors, per_cls = [], [], {}
        for inp, res in zip(inputs, results):
            for fl in res:
                if "harness_error" in fl:
                    errors.append(fl["harness_error"])
                    continue
                per_cls[fl["cls"]] = per_cls.get(fl["cls"], 0) + 1
                failures.append({"id": f"{fl['rule']}::{inp}", "cls": fl["cls"], "input": inp, "observed": fl["what"], "required": "same value for every integer valuation (C17)"})
        res = {"name": name, "function": "rule functions listed in space", "contract": "value(original) == value(rewritten) for all valuations in the box",
               "space": space, "bound": "constants in [-2,2], valuations in [-4,4]", "evaluations": len(inputs), "distinct_nontrivial": len(set(inputs)),
               "exhaustive": False, "failures": failures, "samples": inputs[:2] + inputs[-1:], "failure_classes": per_cls}
        if errors:
            res["error"] = f"{len(errors)} harness errors, first: {errors[0]}"
        out.append(res)
    return out


if __name__ == "__main__":
    import sys, json
    for r in run(sys.argv[1] if len(sys.argv) > 1 else "quick", 0):
        print(json.dumps({k: v for k, v in r.items() if k not in ("failures",)}, indent=1)[:1500])
        seen = set()
        for f in r["failures"]:
            if f["cls"] not in seen or len(seen) < 0:
                print("  ", f["cls"], "|", f["observed"][:200])
            seen.add(f["cls"])
        print("  total failures", len(r["failures"]))
