"""Bounded stand-in for C06: byte-identical results across string-hash seeds and worker schedules.

(1) hash seeds: every input is formatted (format_code, and each public rule on a sub-sample followed by the closing stages of
    format_code: sort_imports, fix_line_lengths, rmspace - the property observes the formatter, and e.g. add_missing_imports
    inserts `import os` / `import sys` in set order, which sort_imports always normalises) in fresh processes started with
    PYTHONHASHSEED = s for several s; all outputs must be identical.  Inputs: corpus sample + targeted modules (several insertions of
    one transaction at one position, function-local imports binding the same alias, many unused / duplicate definitions, sets of names).
(2) schedules: a directory tree of modules is formatted with format_files(n_cores=1, sorted list) and with n_cores in {2, 4, 16} and a
    shuffled file list (separate processes, separate copies of the tree); resulting trees and return values must be equal.
"""
import json
import os
import random
import shutil
import subprocess
import sys
import tempfile

from . import pipeline as P

TARGETED = [
    # ties that used to be broken by the order of a set (scope of an overused constant; spelling of a restored string; missing imports)
    "def f():\n" + "".join(f"    print('this is a rather long constant string', {i})\n" for i in range(6)) + "f()\n",
    "def weekday_name(index):\n" + "".join(f"    if index == {i}:\n        return (1001, 1002, 1003, 1004, 1005, 1006)[{i}]\n" for i in range(5)) + "    return None\n\n\nprint(weekday_name(1))\n",
    'def tagged(values):\n    result = []\n    for value in values:\n        result.append(value + "-suffix")\n    return result\n\n\nprint(tagged(["a", "b"]), """-suffix""")\n',
    'def tagged(values, tag):\n    result = []\n    for value in values:\n        result.append(f"{value}-{tag}")\n    return result\n\n\ndef single(value, tag):\n    return f"""{value}-{tag}"""\n\n\nprint(tagged(["a", "b"], "x"), single("c", "y"))\n',
    '"""Tool.\n\nPrints the working directory and the arguments.\n"""\nprint(os.getcwd(), sys.argv, re.escape("a"), json.dumps(1), math.pi, time.time(), random.random())\n',
    # several function-local imports hoisted to one module-level position by one transaction; the functions are used, so they survive
    '"""Loaders."""\n\n\ndef load_json(path):\n    import json as parser\n\n    with open(path, "rb") as stream:\n        return parser.load(stream)\n\n\ndef load_toml(path):\n    import tomllib as parser\n\n'
    '    with open(path, "rb") as stream:\n        return parser.load(stream)\n\n\nprint(load_json("a.json"), load_toml("a.toml"))\n',
    '"""Doc."""\n\n\ndef get_cwd():\n    import os\n    return os.getcwd()\n\n\ndef get_now():\n    import time\n    return time.time()\n\n\ndef get_root():\n    import math\n    return math.sqrt(2.0)\n\n\nprint(get_cwd(), get_now(), get_root())\n',
    'def a(x):\n    import heapq as h\n    return h.nlargest(1, x)\n\n\ndef b(x):\n    import bisect as h\n    return h.bisect(x, 1)\n\n\ndef c(x):\n    import queue as h\n    return h.Queue(x)\n\n\nprint(a([1]), b([1]), c(1))\n',
    'def a(x):\n    from os import path as p\n    return p.join(x)\n\n\ndef b(x):\n    from sys import path as p\n    return p + x\n\n\nprint(a("q"), b([]))\n',
    # two function-local imports binding the same alias: which one survives must not depend on the seed
    "def load_a(p):\n    import json as parser\n    return parser.loads(p)\n\n\ndef load_b(p):\n    import tomllib as parser\n    return parser.loads(p)\n",
    "def f():\n    import os\n    import sys\n    import re\n    import json\n    return os, sys, re, json\n\n\ndef g():\n    import collections\n    import itertools\n    return collections, itertools\n",
    "def f():\n    import heapq as h\n    return h\n\n\ndef g():\n    import bisect as h\n    return h\n\n\ndef k():\n    import queue as h\n    return h\n",
    "import os, sys, re, json, math, random, time\n\n\ndef f():\n    return 1\n",
    "def a():\n    return 1\n\n\ndef b():\n    return 1\n\n\ndef c():\n    return 1\n\n\ndef d():\n    return 1\n\n\nprint(a(), b(), c(), d())\n",
    "class K:\n    def m1(self):\n        return 1\n\n    def m2(self):\n        return 2\n\n    def m3(self, x):\n        return x\n\n    def m4(self, y):\n        return y\n\n\nprint(K().m1())\n",
    "def f(x):\n    a = 1\n    b = 2\n    c = 3\n    d = 4\n    e = 5\n    return x\n",
    "x = {1, 2, 3, 'a', 'b', 'c'}\ny = {'k': 1, 'j': 2}\nfor q in {'z', 'y', 'x', 'w'}:\n    print(q)\n",
    "def f(items):\n    out = []\n    for it in items:\n        if it in ['a', 'b', 'c', 'd']:\n            out.append(it)\n    return out\n",
    "from a import b\nfrom a import c\nfrom a import d\nimport a\nimport a.b\nprint(b, c, d, a)\n",
    "def f(a, b, c):\n    if a == 1 or a == 2 or a == 3 or a == 'x':\n        return b\n    return c\n",
    "import numpy as np\n\n\ndef f(a, b):\n    x = [i * 2 for i in a]\n    y = [j for j in b if j]\n    return np.array(x), np.array(y), sum([1 for _ in a])\n",
    # constant expressions whose value would depend on the order in which a set of strings is iterated (hash seed): two-element sets, so
    # that either order is as likely as the other under a given seed
    "def f():\n    if list({'alpha', 'beta'}) == ['alpha', 'beta']:\n        return 1\n    return 2\n\n\nprint(f())\n",
    "def f():\n    if list({'gamma', 'delta'}) == ['gamma', 'delta']:\n        return 1\n    return 2\n\n\nprint(f())\n",
    "def f(g):\n    return ''.join({'ab', 'cd'}) == 'abcd' and g()\n\n\nprint(f(len))\n",
    "def f(g):\n    return ''.join({'uv', 'wx'}) == 'uvwx' and g()\n\n\nprint(f(len))\n",
    "x = 1 if tuple({'p', 'q'})[0] == 'p' else 2\nprint(x)\n",
    "x = 1 if tuple({'r', 's'})[0] == 'r' else 2\nprint(x)\n",
    "def f():\n    if next(iter({'north', 'south'})) == 'north':\n        return 1\n    else:\n        return 2\n\n\nprint(f())\n",
    "def f():\n    if str({'east', 'west'}) == \"{'east', 'west'}\":\n        return 1\n    else:\n        return 2\n\n\nprint(f(), sorted({'b', 'a'}))\n",
]

SAME_TEXT = [
    "class Greeter:\n    def banner(self):\n        return 'hello'\n\n    def greet(self, name):\n        return self.banner() + name\n\n\nprint(Greeter().greet('x'))\n",
    "import os\n\n\nclass Tool:\n    def sep(self):\n        return os.sep\n\n    @classmethod\n    def make(cls):\n        return Tool()\n\n\nprint(Tool.make().sep())\n",
    "def f(xs):\n    out = []\n    for x in xs:\n        if x:\n            out.append(x * 2)\n    return out\n\n\nprint(f([1, 0, 2]))\n",
]

SNIPPET = r"""
import sys, json
sys.path.insert(0, %r)
import pyrefact, importlib, inspect
from pyrefact import logs
logs.set_level(100)
job = json.load(sys.stdin)
out = []
def rule(q):
    mod, fn = q.split(".")
    f = getattr(importlib.import_module("pyrefact." + mod), fn)
    params = inspect.signature(f).parameters
    kw = {}
    if "preserve" in params: kw["preserve"] = frozenset()
    if "root_is_static" in params: kw["root_is_static"] = True
    return lambda s: f(s, **kw)
def final_stages(text):
    # the property observes the FORMATTER's output: a rule-level difference that the closing stages of format_code
    # (sort_imports, fix_line_lengths, rmspace) always remove is not a difference of the formatter
    from pyrefact import fixes
    import rmspace
    try:
        text = fixes.sort_imports(text)
        text = fixes.fix_line_lengths(text)
        return rmspace.format_str(text)
    except BaseException:
        return text
for x in job["format_code"]:
    try:
        out.append(pyrefact.format_code(x))
    except BaseException as ex:
        out.append("RAISES " + type(ex).__name__)
rules = []
for q in job["rules"]:
    try:
        f = rule(q)
    except Exception:
        continue
    for x in job["rule_inputs"]:
        try:
            rules.append(final_stages(f(x)))
        except BaseException as ex:
            rules.append("RAISES " + type(ex).__name__)
print(json.dumps({"fc": out, "rules": rules}))
"""


def run_seeded(args):
    job, hashseed = args
    env = dict(os.environ, PYTHONHASHSEED=str(hashseed))
    p = subprocess.run([sys.executable, "-c", SNIPPET % P.REPO], input=json.dumps(job), capture_output=True, text=True, timeout=3000, env=env)
    try:
        return json.loads(p.stdout.strip().splitlines()[-1])
    except Exception:  # noqa: BLE001
        return {"error": (p.stderr or p.stdout)[-400:]}


TWO_PASS = 'import re\n\n\ndef find_numbers(text):\n    return re.findall("\\d+", text)\n\n\nprint(find_numbers("a1b22"))\n'

FILES_SNIPPET = r"""
import sys, json, random
sys.path.insert(0, %r)
import importlib
from pathlib import Path
from pyrefact import logs
main = importlib.import_module("pyrefact.main")
logs.set_level(100)
job = json.load(sys.stdin)
files = sorted(str(p) for p in Path(job["root"]).rglob("*.py"))
if job["shuffle"] is not None:
    # the same set of files, some of them named twice (what overlapping command-line paths produce), in a shuffled order
    rnd = random.Random(job["shuffle"])
    files = files + [f for f in files if "solo_" in f or "settled_" in f or rnd.random() < 0.3]
    rnd.shuffle(files)
r = main.format_files([Path(f) for f in files], n_cores=job["n_cores"], max_passes=job["max_passes"])
print(json.dumps({"ret": bool(r)}))
"""


def tree_state(root):
    out = {}
    for dp, _, fns in os.walk(root):
        for fn in fns:
            p = os.path.join(dp, fn)
            out[os.path.relpath(p, root)] = open(p, encoding="utf-8").read()
    return out


def run_schedule(args):
    modules, n_cores, shuffle, max_passes = args
    root = tempfile.mkdtemp(prefix="c06_")
    try:
        for rel, src in modules.items():
            p = os.path.join(root, rel)
            os.makedirs(os.path.dirname(p), exist_ok=True)
            with open(p, "w", encoding="utf-8") as f:
                f.write(src)
        job = {"root": root, "n_cores": n_cores, "shuffle": shuffle, "max_passes": max_passes}
        # the iteration order of a set of paths follows the string hash: each configuration runs under its own, fixed, hash seed
        env = dict(os.environ, PYTHONHASHSEED=str((shuffle or 0) * 31 + n_cores))
        p = subprocess.run([sys.executable, "-c", FILES_SNIPPET % P.REPO], input=json.dumps(job), capture_output=True, text=True, timeout=3000, cwd=root, env=env)
        try:
            ret = json.loads(p.stdout.strip().splitlines()[-1])["ret"]
        except Exception:  # noqa: BLE001
            return {"error": (p.stderr or p.stdout)[-400:]}
        return {"ret": ret, "tree": tree_state(root)}
    finally:
        shutil.rmtree(root, ignore_errors=True)


def run(tier, seed):
    rnd = random.Random(seed)
    corpus = P.corpus()
    n = 96 if tier == "quick" else 400
    inputs = TARGETED + rnd.sample(corpus, n)
    seeds = [0, 1, 2, 3] if tier == "quick" else [0, 1, 2, 3, 4, 5, 6, 7, 11, 42, 1234, 99999]
    rules = P.rule_names()
    rule_inputs = TARGETED + rnd.sample(corpus, 12 if tier == "quick" else 60)
    groups = [inputs[i::8] for i in range(8)]
    rgroups = [rules[i::8] for i in range(8)]
    jobs = []
    for gi in range(8):
        for hs in seeds:
            jobs.append(({"format_code": groups[gi], "rules": rgroups[gi], "rule_inputs": rule_inputs}, hs))
    res = P.pool_map(run_seeded, jobs, chunksize=1, maxtasks=1)
    fl = []
    evals = 0
    k = 0
    for gi in range(8):
        per_seed = {}
        for hs in seeds:
            per_seed[hs] = res[k]
            k += 1
        base = per_seed[seeds[0]]
        if "error" in base:
            fl.append({"id": f"harness-error::{gi}", "cls": "harness-error", "input": "", "observed": base["error"], "required": "runs"})
            continue
        for hs in seeds[1:]:
            r = per_seed[hs]
            if "error" in r:
                fl.append({"id": f"harness-error::{gi}::{hs}", "cls": "harness-error", "input": "", "observed": r["error"], "required": "runs"})
                continue
            for x, a, b in zip(groups[gi], base["fc"], r["fc"]):
                evals += 1
                if a != b:
                    fl.append({"id": f"hash-seed:format_code::{P.sha(x)}", "cls": "hash-seed:format_code", "input": x,
                               "observed": f"PYTHONHASHSEED={seeds[0]} gives {a!r}; PYTHONHASHSEED={hs} gives {b!r}", "required": "byte-identical output for every hash seed"})
            if len(base["rules"]) == len(r["rules"]):
                names = [(q, x) for q in rgroups[gi] for x in rule_inputs]
                for (q, x), a, b in zip(names, base["rules"], r["rules"]):
                    evals += 1
                    if a != b:
                        fl.append({"id": f"hash-seed:{q}::{P.sha(x)}", "cls": f"hash-seed:{q}", "input": x,
                                   "observed": f"{q}: PYTHONHASHSEED={seeds[0]} gives {a!r}; PYTHONHASHSEED={hs} gives {b!r}", "required": "byte-identical output for every hash seed"})
    # de-duplicate (same input under several seeds)
    seen, uniq = set(), []
    for f in fl:
        if f["id"] not in seen:
            seen.add(f["id"])
            uniq.append(f)
    out = [{"name": "c06-hash-seeds", "function": f"main.format_code, {len(rules)} public rules", "contract": "output is byte-identical under every PYTHONHASHSEED (fresh processes)",
            "space": f"{len(inputs)} inputs ({len(TARGETED)} targeted + corpus sample) x hash seeds {seeds} for format_code; {len(rules)} rules x {len(rule_inputs)} inputs x the same seeds",
            "bound": f"{len(seeds)} hash seeds, corpus sample", "evaluations": evals, "distinct_nontrivial": len(inputs), "exhaustive": False, "failures": P.cap(uniq), "samples": [TARGETED[0]]}]
    # schedules
    trees = []
    for t in range(2 if tier == "quick" else 6):
        mods = {}
        picks = rnd.sample(corpus, 14) + TARGETED[:4]
        for i, src in enumerate(picks):
            folder = ["", "pkg_a", "pkg_a/sub", "pkg_b"][i % 4]
            mods[os.path.join(folder, f"mod_{i}.py")] = src
        # byte-identical copies in other folders (vendored files): which worker formats the second copy, and what that worker
        # formatted before, must not matter
        for i, src in enumerate(picks[:4] + SAME_TEXT):
            mods[os.path.join("vendor", f"copy_{i}.py")] = src
            mods[os.path.join("pkg_b", "vendored", f"copy_{i}.py")] = src
        # files that need a second pass of format_file (the per-folder pass bookkeeping decides whether they get it)
        for k in range(5):
            mods[os.path.join(f"solo_{k}", "numbers.py")] = TWO_PASS
            mods[os.path.join(f"settled_{k}", "ok.py")] = "import sys\n\nprint(sys.argv)\n"
        trees.append(mods)
    configs = [(1, None), (2, 7), (4, 3), (16, 11)] if tier == "quick" else [(1, None), (1, 5), (2, 7), (3, 1), (4, 3), (8, 2), (16, 11), (16, 12)]
    sjobs = [(mods, nc, sh, mp_) for mods in trees for mp_ in ((1, 2) if tier == "quick" else (1, 2, 3)) for nc, sh in configs]
    sres = P.pool_map(run_schedule, sjobs, chunksize=1, procs=4, maxtasks=1)
    fl = []
    k = 0
    evals = 0
    for ti, mods in enumerate(trees):
        for mp_ in ((1, 2) if tier == "quick" else (1, 2, 3)):
            base = None
            for nc, sh in configs:
                r = sres[k]
                k += 1
                evals += 1
                if "error" in r:
                    fl.append({"id": f"harness-error::{ti}::{nc}", "cls": "harness-error", "input": "", "observed": r["error"], "required": "runs"})
                    continue
                if base is None:
                    base = r
                    continue
                if r["ret"] != base["ret"]:
                    fl.append({"id": f"schedule:report::{ti}::{mp_}::{nc}", "cls": "schedule:change-report-differs", "input": json.dumps(mods)[:2000],
                               "observed": f"n_cores={nc} shuffled({sh}) max_passes={mp_}: format_files returns {r['ret']}, sequential run returns {base['ret']}", "required": "same change report"})
                diff = [f for f in base["tree"] if base["tree"][f] != r["tree"].get(f)]
                if diff or set(base["tree"]) != set(r["tree"]):
                    fl.append({"id": f"schedule:files::{ti}::{mp_}::{nc}", "cls": "schedule:files-differ", "input": json.dumps({f: mods.get(f) for f in diff[:2]})[:2000],
                               "observed": f"n_cores={nc} shuffled({sh}) max_passes={mp_}: files {diff[:3]} differ from the sequential run", "required": "exactly the files the sequential run gives"})
    out.append({"name": "c06-worker-schedules", "function": "main.format_files", "contract": "tree content and return value equal those of the sequential run (n_cores=1, sorted list)",
                "space": f"{len(trees)} trees of {len(trees[0])} modules in {len({os.path.dirname(f) for f in trees[0]})} folders (byte-identical copies of others, files that need a second pass and settled files each alone in a folder) x max_passes x (n_cores, shuffle seed) in {configs} (shuffled lists name about a third of the files twice), each configuration under its own fixed PYTHONHASHSEED", "bound": "enumerated configurations; OS scheduling of pool workers not controlled",
                "evaluations": evals, "distinct_nontrivial": len(trees), "exhaustive": False, "failures": P.cap(fl), "samples": [list(trees[0])[0]]})
    return out


if __name__ == "__main__":
    import collections
    for r in run(sys.argv[1] if len(sys.argv) > 1 else "quick", 0):
        print(json.dumps({k: v for k, v in r.items() if k not in ("failures", "samples")}, indent=1)[:700])
        print(collections.Counter(f["cls"] for f in r["failures"]))
        seen = collections.Counter()
        for f in r["failures"]:
            seen[f["cls"]] += 1
            if seen[f["cls"]] <= 3:
                print("  ", f["cls"], "|", f["input"][:400], "|", f["observed"][:600])
