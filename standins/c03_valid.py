"""Bounded stand-in for C03 (and the rule-level part of C04): run-time contract `valid(s) => valid(f(s))` on every entry point.

f ranges over every public rule that format_code calls, format_code under option combinations, sub/subn, and format_file
on a temporary tree (bytes and mtime: a valid file is never replaced by an invalid one; an unchanged text is not rewritten).
The same runs record exceptions and timeouts of individual rules (reported under C04's class names).
"""
import os
import random
import tempfile

from . import pipeline as P


def work_rules(src):
    P.quiet()
    out = []
    for q in P.rule_names():
        try:
            f = P.get_rule(q)
        except Exception as ex:  # noqa: BLE001
            out.append({"cls": f"harness:{q}", "what": repr(ex)})
            continue
        r = P.guarded(f, src, 60)
        if r[0] == "raises":
            out.append({"cls": f"rule-raises:{q}:{r[1].split(':')[0]}", "what": f"{q} raised {r[1]}", "kind": "raises"})
        elif r[0] == "timeout":
            out.append({"cls": f"rule-timeout:{q}", "what": f"{q} did not return within {r[1]} s", "kind": "raises"})
        elif not isinstance(r[1], str):
            out.append({"cls": f"rule-nonstr:{q}", "what": f"{q} returned {type(r[1]).__name__}", "kind": "raises"})
        elif not P.is_valid(r[1]):
            out.append({"cls": f"invalid-output:{q}", "what": f"{q} turned a valid module into text that does not parse", "kind": "invalid", "output": r[1]})
    return out


OPTION_SETS = [{}, {"safe": True}, {"keep_imports": True}, {"safe": True, "keep_imports": True}, {"preserve": frozenset({"f", "x", "Foo"})},
               {"safe": True, "preserve": frozenset({"g"})}, {"keep_imports": True, "preserve": frozenset({"main"})}, {"max_line_length": 60}]


def work_format_code(args):
    import pyrefact
    P.quiet()
    src, was_valid = args
    out = []
    for kw in OPTION_SETS:
        r = P.guarded(lambda s: pyrefact.format_code(s, **kw), src, 120)
        tag = ",".join(sorted(kw)) or "default"
        if r[0] != "ok":
            out.append({"cls": f"format_code-{r[0]}:{tag}:{str(r[1]).split(':')[0]}", "what": f"format_code({tag}) {r[0]}: {r[1]}", "kind": "raises"})
        elif not isinstance(r[1], str):
            out.append({"cls": "format_code-nonstr", "what": f"format_code returned {type(r[1]).__name__}", "kind": "raises"})
        elif was_valid and not P.is_valid(r[1]):
            out.append({"cls": f"invalid-output:format_code:{tag}", "what": f"format_code({tag}) turned valid input into text that does not parse", "kind": "invalid", "output": r[1]})
    return out


def patterns_for(src, rnd):
    import ast
    tree = ast.parse(src)
    names = sorted({n.id for n in ast.walk(tree) if isinstance(n, ast.Name)})
    pats = []
    if names:
        a = rnd.choice(names)
        pats.append((a, "renamed_" + a))
    pats += [("{{x}} = {{y}}", "{{x}} = ({{y}})"), ("{{f}}({{a}})", "{{f}}({{a}}, 0)"), ("return {{v}}", "return ({{v}})"), ("{{a}} + {{b}}", "{{b}} + {{a}}"),
             ("if {{c}}:\n    {{body*}}", "if not (not {{c}}):\n    {{body*}}")]
    return pats


def work_sub(args):
    from pyrefact import pattern_matching as pm
    P.quiet()
    src, pats = args
    out = []
    for pat, rep in pats:
        for count in (0, 1):
            r = P.guarded(lambda s: pm.subn(pat, rep, s, count=count), src, 60)
            if r[0] == "raises" and r[1].startswith("SyntaxError"):
                continue
            if r[0] != "ok":
                out.append({"cls": f"sub-{r[0]}:{str(r[1]).split(':')[0]}", "what": f"subn({pat!r}, {rep!r}, count={count}) {r[0]}: {r[1]}", "kind": "raises"})
            elif not P.is_valid(r[1][0]):
                out.append({"cls": "invalid-output:subn", "what": f"subn({pat!r}, {rep!r}, count={count}) produced text that does not parse", "kind": "invalid", "output": r[1][0]})
    return out


def work_format_file(src):
    import importlib
    P.quiet()
    pmain = importlib.import_module("pyrefact.main")
    out = []
    with tempfile.TemporaryDirectory() as d:
        p = os.path.join(d, "m.py")
        with open(p, "w", encoding="utf-8") as f:
            f.write(src)
        before = os.stat(p).st_mtime_ns
        r = P.guarded(lambda s: pmain.format_file(s), p, 180)
        after = open(p, encoding="utf-8").read()
        if r[0] != "ok":
            out.append({"cls": f"format_file-{r[0]}", "what": f"format_file {r[0]}: {r[1]}", "kind": "raises"})
            return out
        if P.is_valid(src) and not P.is_valid(after):
            out.append({"cls": "format_file-wrote-invalid", "what": "format_file replaced a valid file by one that does not parse", "kind": "invalid", "output": after})
        if after == src and (os.stat(p).st_mtime_ns != before or r[1]):
            out.append({"cls": "format_file-rewrote-unchanged", "what": "file content unchanged but the file was rewritten / a change was reported", "kind": "invalid"})
        if after != src and not r[1]:
            out.append({"cls": "format_file-unreported-change", "what": "file changed but format_file reported no change", "kind": "invalid"})
        # second run on the result: a text that formats to itself is not rewritten
        before = os.stat(p).st_mtime_ns
        again = P.guarded(lambda s: pmain.format_file(s), p, 180)
        if again[0] == "ok" and open(p, encoding="utf-8").read() == after and (os.stat(p).st_mtime_ns != before or again[1]):
            out.append({"cls": "format_file-rewrote-unchanged", "what": "second run: content unchanged but the file was rewritten / a change was reported", "kind": "invalid"})
    return out


# files as BYTES: a declared source encoding, a byte order mark, CR / CRLF line ends.  Validity is what the interpreter says about the bytes
# (compile), before and after format_file - "a syntactically valid file is never replaced by an invalid one"
ENCODED = []
for _codec, _cookie in (("latin-1", "# -*- coding: latin-1 -*-"), ("cp1252", "# -*- coding: cp1252 -*-"), ("iso-8859-15", "# vim: set fileencoding=iso-8859-15 :"), ("euc-jp", "# -*- coding: euc-jp -*-"),
                        ("utf-8", "# -*- coding: utf-8 -*-"), ("utf-8-sig", ""), ("utf-16", "")):
    for _body in ("import os\nimport sys\n\nname = 'caf\u00e9'\nprint(name, sys.argv)\n", "import os\n\n\nclass K:\n    \u00e9tat = 1\n\n\nprint(K.\u00e9tat)\n", "import os\n\nprint('plain')\n"):
        _text = (_cookie + "\n" if _cookie else "") + (_body if _codec != "euc-jp" else _body.replace("caf\u00e9", "\u65e5\u672c").replace("\u00e9tat", "\u72b6\u614b"))
        try:
            ENCODED.append((_codec, _text.encode(_codec)))
        except UnicodeEncodeError:
            pass
for _nl in ("\r\n", "\r"):
    ENCODED.append(("utf-8" + repr(_nl), "import os\nimport sys\n\nprint(sys.argv)\n".replace("\n", _nl).encode()))


def _bytes_valid(data):
    try:
        compile(data, "<file>", "exec", dont_inherit=True)
        return True
    except (SyntaxError, ValueError):
        return False


def work_format_file_bytes(item):
    import importlib
    P.quiet()
    pmain = importlib.import_module("pyrefact.main")
    label, data = item
    with tempfile.TemporaryDirectory() as d:
        p = os.path.join(d, "m.py")
        with open(p, "wb") as f:
            f.write(data)
        was = _bytes_valid(data)
        P.guarded(lambda s: pmain.format_file(s), p, 180)          # raising is C04's subject: what matters here is the file it leaves behind
        now = open(p, "rb").read()
        if was and not _bytes_valid(now):
            return [{"cls": "format_file-wrote-invalid:encoded", "what": f"format_file replaced a valid {label} file by bytes that the interpreter rejects: {now[:120]!r}", "kind": "invalid", "output": repr(now)}]
    return []


# inputs whose validity hangs on layout: tab indentation with ignore comments (a restored tab among expanded neighbours is a TabError),
# one-line compound statements, form feeds, continuation lines, parenthesised __future__ imports, recursive duplicates
LAYOUT_SENSITIVE = [
    "def f(a):\n\tx = 1  # pyrefact: ignore\n\ty = 2\n\treturn x + y\n\n\nprint(f(1))\n",
    "class K:\n\tdef m(self):\n\t\tv = 1  # pyrefact: ignore\n\t\treturn v\n\n\nprint(K().m())\n",
    "if True:\n\tx = 1  # pyrefact: ignore\n\tprint(x)\n",
    "for i in range(2):\n\tif i:  # pyrefact: ignore\n\t\tprint(i)\n\telse:\n\t\tprint(0)\n",
    "def f(a):\n\ts = 'a\tb'\n\tfor i in a:\n\t\tk = 10\n\t\tprint(i, k, s)\n",
    "def f(a):\n    a = 1\n    try:\n        b = g()\n    except Exception:\n        raise ValueError('x')\n    return b\n",
    "def factorial_of_number(n):\n    return n * factorial_of_number(n - 1) if n else 1\n\n\ndef g(n):\n    return n * g(n - 1) if n else 1\n\n\nprint(factorial_of_number(3), g(3))\n",
    "from __future__ import (\n    annotations,\n)\nprint(os.getcwd())\n",
    "# comment\nx = 1 + \\\n    2\nprint(os.getcwd(), x)\n",
    "# license\n\nfrom __future__ import annotations\nprint(os.getcwd())\n",
    "s = 'a\x0cb'\nprint(os.getcwd(), s)\n",
    "for x in xs:\n    if x: print(1)\n    else:\n        a()\n        b()\n        c()\n",
    "for x in xs:\n    if x: print(1); print(2)\n    else:\n        a()\n        b()\n        c()\n",
    "\x0c\ndef f(xs):\n    for x in xs:\n        y = 100\n        print(x, y)\n",
    "def f(xs):\n    for x in xs:\n        print(x)\n        y = 100;\n    print(y)  # pyrefact: ignore\n",
    "try:\n    import yaml\n    import yaml;\nexcept ImportError:  # pyrefact: ignore\n    yaml = None\n",
]


# insertion anchors: the place where add_missing_imports / move_imports_to_toplevel / static-method extraction insert a line is computed from
# line numbers of the first statement, so the first statement comes in every multi-line / decorated shape, after every kind of module header
_HEADERS = ["", '"""Doc."""\n', "# comment\n", '"""Doc."""\n\nfrom __future__ import annotations\n', "#!/usr/bin/env python\n# -*- coding: utf-8 -*-\n"]
_DECOS = ["@functools.lru_cache(maxsize=None)\n", "@functools.lru_cache(\n    maxsize=None,\n)\n", "@functools.wraps(print)\n@functools.lru_cache(\n    maxsize=2\n)\n",
          "@functools.lru_cache(maxsize=None)\n# a comment between decorator and definition\n", "@functools.lru_cache(maxsize=None)\n\n", "@(\n    functools.lru_cache\n)\n",
          "@functools.lru_cache(maxsize=None)  # trailing comment\n@functools.wraps(\n    print\n)\n"]
_FIRSTS = ["def first(x):\n    import json\n    return json.dumps(x), os.getcwd()\n", "class First:\n    def run(self, x):\n        import json\n        return json.dumps(x), os.getcwd()\n",
           "async def first(x):\n    import json\n    return json.dumps(x), os.getcwd()\n"]
for _h in _HEADERS:
    for _d in _DECOS:
        for _f in _FIRSTS[:1] if _h else _FIRSTS:
            LAYOUT_SENSITIVE.append(_h + _d + _f + "\n\nprint(first if 'first' in dir() else First)\n")
LAYOUT_SENSITIVE += [
    "x = [\n    1,\n    2,\n]\nprint(os.getcwd(), x)\n", "x = (os.getcwd() +\n     os.sep)\nprint(x)\n", "if os.sep:\n    print(1)\nelse:\n    print(2)\n",
    "with open(os.devnull) as f, \\\n        open(os.devnull) as g:\n    print(f, g)\n", "print(\n    os.getcwd()\n)\n", "from __future__ import annotations; x = os.sep\nprint(x)\n",
    # the first statement that is no docstring / __future__ import shares its line with the end of the statement before it; docstrings
    # that are parenthesised, continued with a backslash or span several lines
    "from __future__ import (\n    annotations,\n); x = os.sep\nprint(x)\n", "'''Doc.'''; x = os.sep\nprint(x)\n", "(\n    'doc'\n)\nprint(os.getcwd())\n",
    "'doc' \\\n    'more'\nprint(os.getcwd())\n", "'''Doc\nmore\n'''\nprint(os.getcwd())\n",
    "from __future__ import (annotations,\n                        division); import sys\nprint(os.sep, sys.argv)\n",
]


def run(tier, seed, kinds=("invalid",), name_prefix="c03"):
    rnd = random.Random(seed)
    srcs = P.corpus()
    n_rules = 150 if tier == "quick" else len(srcs)
    rule_in = LAYOUT_SENSITIVE + rnd.sample(srcs, n_rules)
    fc_in = [(s, True) for s in LAYOUT_SENSITIVE] + [(s, True) for s in rnd.sample(srcs, 60 if tier == "quick" else 400)] + [(s, False) for s in P.fragments(srcs, rnd, 20 if tier == "quick" else 120)]
    sub_in = [(s, patterns_for(s, rnd)) for s in rnd.sample(srcs, 60 if tier == "quick" else 400)]
    ff_in = LAYOUT_SENSITIVE + rnd.sample(srcs, 24 if tier == "quick" else 150) + ["x = (\n", ""]
    r_rules = P.pool_map(work_rules, rule_in, chunksize=2)
    r_fc = P.pool_map(work_format_code, fc_in, chunksize=1)
    r_sub = P.pool_map(work_sub, sub_in, chunksize=2)
    r_ff = P.pool_map(work_format_file, ff_in, chunksize=1)
    rules = P.rule_names()
    out = []
    for nm, fn_desc, inputs, results, space, evals in (
        (f"{name_prefix}-rules", f"{len(rules)} public rules (read from main.py)", rule_in, r_rules, f"{len(rule_in)} corpus modules x {len(rules)} rules", len(rule_in) * len(rules)),
        (f"{name_prefix}-format-code", "main.format_code", [s for s, _ in fc_in], r_fc, f"{len(fc_in)} inputs (corpus modules and indented fragments) x {len(OPTION_SETS)} option sets", len(fc_in) * len(OPTION_SETS)),
        (f"{name_prefix}-sub", "pattern_matching.subn", [s for s, _ in sub_in], r_sub, f"{len(sub_in)} corpus modules x 5-6 (pattern, replacement) pairs x count in (0, 1)", len(sub_in) * 11),
        (f"{name_prefix}-format-file", "main.format_file", ff_in, r_ff, f"{len(ff_in)} files in a temporary directory, each formatted twice (bytes, mtime, return value)", len(ff_in) * 2),
    ):
        fl = []
        for s, rs in zip(inputs, results):
            for r in rs:
                if r.get("kind") in kinds or r["cls"].startswith("harness"):
                    fl.append({"id": f"{r['cls']}::{P.sha(s)}", "cls": r["cls"], "input": s, "observed": r["what"], "output": r.get("output"),
                               "required": "valid(s) => valid(f(s)); files: never valid -> invalid, unchanged not rewritten" if "invalid" in kinds else "returns a str, raises nothing, terminates"})
        out.append({"name": nm, "function": fn_desc, "contract": "valid in => valid out" if "invalid" in kinds else "total: str result, no exception, within the time limit",
                    "space": space, "bound": "corpus sample (seeded)" if tier == "quick" else "whole corpus", "evaluations": evals, "distinct_nontrivial": len(set(inputs)),
                    "exhaustive": False, "failures": P.cap(fl), "samples": [inputs[0][:200]]})
    if "invalid" in kinds:
        r_enc = P.pool_map(work_format_file_bytes, ENCODED, chunksize=1)
        fl = []
        for (label, data), rs in zip(ENCODED, r_enc):
            for r in rs:
                fl.append({"id": f"{r['cls']}::{label}::{P.sha(repr(data))}", "cls": r["cls"], "input": repr(data), "observed": r["what"], "output": r.get("output"), "required": "a file the interpreter accepts is not replaced by one it rejects"})
        out.append({"name": f"{name_prefix}-format-file-bytes", "function": "main.format_file", "contract": "compile(bytes before) succeeds => compile(bytes after) succeeds",
                    "space": f"{len(ENCODED)} files: 7 encodings (declared by a coding line, a byte order mark, or none) x 3 bodies with non-ASCII text in a string / an identifier / nowhere, and CR / CRLF files; each with an unused import so that the formatter has something to change",
                    "bound": "enumerated encodings", "evaluations": len(ENCODED), "distinct_nontrivial": len(ENCODED), "exhaustive": True, "failures": P.cap(fl), "samples": [repr(ENCODED[0][1])[:200]]})
    return out


if __name__ == "__main__":
    import collections
    import json
    import sys
    for r in run(sys.argv[1] if len(sys.argv) > 1 else "quick", 0, kinds=("invalid", "raises")):
        print(json.dumps({k: v for k, v in r.items() if k not in ("failures", "samples")}, indent=1)[:500])
        print(collections.Counter(f["cls"] for f in r["failures"]))
        seen = set()
        for f in r["failures"]:
            if f["cls"] not in seen:
                print("  ", f["cls"], "|", f["observed"][:200], "|", repr(f["input"])[:300])
                seen.add(f["cls"])
