"""Bounded stand-in for C14: pattern_matching.sub / subn against an AST-level verifying oracle.

(1) no occurrence: sub(pattern, repl, source) is byte-identical to the source and subn counts 0, for corpus modules x patterns that do not occur.
(2) self substitution: sub(seg, seg, source) keeps the syntax tree, for expressions / statements taken from corpus modules.
(3) generated (pattern, replacement, source, count): sources built from frames (module level, function, nested class / if, loops, with,
    multi-line list, ignore-comment line) x expressions (nested and adjacent matches, multi-line triple-quoted strings at a non-zero
    column, f-strings, generators, lambdas, multi-line calls).  The oracle does not predict which of two overlapping matches is
    applied; it VERIFIES the result: walking source tree and result tree together, every difference must sit at a node that matches
    the pattern (reference matcher written here) and the result subtree must be the replacement instantiated with that node's
    bindings; every match that overlaps no other match and is not on an ignored line must have been replaced (count = 0); at most
    `count` sites otherwise; changed / deleted source lines lie inside the line span of some match; ignore-comment lines survive.
"""
import ast
import difflib
import itertools
import random

from . import pipeline as P

EXPRS1 = ["foo(1)[0]", "foo(1).real", "foo(1)(3)", "-foo(1)", "2 ** foo(3)", "not foo(1)", "foo(1) if foo(2) else foo(3)", "1", "x", "foo(2)", "foo(foo(3))", "g(foo(4))", '"s"', '"""multi\n   line"""', "foo('''a\n      b\n''')", "f'{x}!'", "[foo(5), foo(6)]", "(y for y in foo(7))",
          "lambda: foo(8)", "x if c else foo(9)", "-foo(1)", "foo(1) + foo(2)", "foo(\n    1\n)", "foo(x)(foo(y))", "foo((a for a in b))", "foo(f'''m\n    {x}\n''')", "foo(*args)", "foo(k=1)", "foo(1, 2)"]
EXPRS2 = ["foo(1, 2)[0]", "foo(1, 2).real", "foo(1, 2)(3)", "-foo(1, 2)", "foo(1, 2) ** foo(3, 4)", "x < foo(1, 2) < y", "foo(1, 2)", "foo(foo(1, 2), 3)", "foo(x, foo(y, z))", "foo(1)", "foo('''p\n  q''', 2)", "foo(a, b) + foo(c, d)", "foo(\n    a,\n    b,\n)", "[foo(1, 2), foo(3, 4), foo(5)]", "foo(a, *b)", "foo(a, b, c)"]
FRAMES = [
    "r = {E}\n",
    "def f(x, c):\n    r = {E}\n    return r\n",
    "class C:\n    def m(self, x, c):\n        if self:\n            r = {E}\n        return {F}\n",
    "r = {E}  # pyrefact: ignore\nq = {F}\n",
    "for i in range(3):\n    foo({E})\n    print({F})\n",
    "r = other({E})\nfoo({F})\n",
    "with foo({E}) as h:\n    pass\n",
    "x = [\n    {E},\n    {F},\n]\n",
    "def g():\n    '''doc\n    string'''\n    return {E}, {F}\n",
    "try:\n    a = {E}\nexcept E:\n    b = {F}\nelse:\n    pass\n",
    "while {E}:\n    if {F}:\n        break\n",
    "q = 1; r = {E}; s = {F}\n",
]


def mk(name, *args):
    return ast.Call(func=ast.Name(id=name, ctx=ast.Load()), args=list(args), keywords=[])


# (pattern text, arity, replacement text, builder of the expected subtree from the bound argument trees)
CASES = [
    ("foo({{a}})", 1, "bar({{a}})", lambda a: mk("bar", a)),
    ("foo({{a}})", 1, "{{a}}", lambda a: a),
    ("foo({{a}})", 1, "bar({{a}}, {{a}})", lambda a: mk("bar", a, a)),
    ("foo({{a}})", 1, "bar()", lambda a: mk("bar")),
    ("foo({{a}})", 1, "foo({{a}})", lambda a: mk("foo", a)),
    ("foo({{a}}, {{b}})", 2, "bar({{b}}, {{a}})", lambda a, b: mk("bar", b, a)),
    ("foo({{a}}, {{b}})", 2, "{{a}} + {{b}}", lambda a, b: ast.BinOp(left=a, op=ast.Add(), right=b)),
    ("foo({{a}}, {{b}})", 2, "foo({{a}}, {{b}})", lambda a, b: mk("foo", a, b)),
    # replacements that are not a single primary: bare tuples, conditional, lambda, comparison, unary, boolean, starred-free generator
    ("foo({{a}}, {{b}})", 2, "{{a}}, {{b}}", lambda a, b: ast.Tuple(elts=[a, b], ctx=ast.Load())),
    ("foo({{a}})", 1, "{{a}},", lambda a: ast.Tuple(elts=[a], ctx=ast.Load())),
    ("foo({{a}}, {{b}})", 2, "{{a}} if {{b}} else None", lambda a, b: ast.IfExp(test=b, body=a, orelse=ast.Constant(value=None))),
    ("foo({{a}})", 1, "lambda: {{a}}", lambda a: ast.Lambda(args=ast.arguments(posonlyargs=[], args=[], kwonlyargs=[], kw_defaults=[], defaults=[]), body=a)),
    ("foo({{a}}, {{b}})", 2, "{{a}} < {{b}}", lambda a, b: ast.Compare(left=a, ops=[ast.Lt()], comparators=[b])),
    ("foo({{a}})", 1, "not {{a}}", lambda a: ast.UnaryOp(op=ast.Not(), operand=a)),
    ("foo({{a}}, {{b}})", 2, "{{a}} or {{b}}", lambda a, b: ast.BoolOp(op=ast.Or(), values=[a, b])),
    ("foo({{a}})", 1, "{{a}} ** 2", lambda a: ast.BinOp(left=a, op=ast.Pow(), right=ast.Constant(value=2))),
    ("foo({{a}})", 1, "await_({{a}})[0]", lambda a: ast.Subscript(value=mk("await_", a), slice=ast.Constant(value=0), ctx=ast.Load())),
]


def dump(n):
    import re
    return re.sub(r", ctx=(Load|Store|Del)\(\)", "", ast.dump(n))


def is_match(n, arity):
    # a wildcard stands for any syntax tree of the argument list, a starred argument (ast.Starred) included
    return isinstance(n, ast.Call) and isinstance(n.func, ast.Name) and n.func.id == "foo" and len(n.args) == arity and not n.keywords


class Oracle:
    def __init__(self, arity, build):
        self.arity = arity
        self.build = build
        self.sites = []       # source nodes that were replaced
        self.bad = None

    def walk(self, s, r):
        if self.bad:
            return
        if isinstance(s, list) and isinstance(r, list):
            if len(s) != len(r):
                self.bad = f"list of {len(s)} nodes became a list of {len(r)} nodes"
                return
            for a, b in zip(s, r):
                self.walk(a, b)
            return
        if not isinstance(s, ast.AST) or not isinstance(r, ast.AST):
            if isinstance(s, ast.AST) or isinstance(r, ast.AST) or s != r or type(s) is not type(r):
                self.bad = f"value {s!r} became {r!r}"
            return
        if dump(s) == dump(r):
            return
        if is_match(s, self.arity):
            want = self.build(*s.args)
            if dump(want) == dump(r):
                self.sites.append(s)
                return
        if type(s) is not type(r):
            self.bad = f"`{ast.unparse(s)[:60]}` became `{ast.unparse(r)[:60]}`, which is neither unchanged nor the instantiated replacement of a match"
            return
        for f in s._fields:
            if f == "ctx":
                continue
            self.walk(getattr(s, f, None), getattr(r, f, None))
            if self.bad:
                return


def ref_sub(tree, arity, build, mode):
    """reference substitution on a copy of the tree: every outermost match ('outer') / every innermost match ('inner') replaced"""
    import copy
    tree = copy.deepcopy(tree)

    class T(ast.NodeTransformer):
        def visit_Call(self, node):
            if is_match(node, arity):
                if mode == "outer":
                    return build(*node.args)
                if not any(is_match(d, arity) for d in ast.walk(node) if d is not node):
                    return build(*node.args)
            return self.generic_visit(node)
    return ast.fix_missing_locations(T().visit(tree))


def _parses(tree):
    try:
        ast.parse(ast.unparse(tree))
        return True
    except Exception:  # noqa: BLE001
        return False


def _tokens_without_parentheses(text):
    import io
    import tokenize
    try:
        return [t.string for t in tokenize.generate_tokens(io.StringIO(text).readline)
                if t.type not in (tokenize.NL, tokenize.NEWLINE, tokenize.INDENT, tokenize.DEDENT, tokenize.COMMENT, tokenize.ENDMARKER) and t.string not in ("(", ")", ",")]
    except Exception:  # noqa: BLE001
        return None


def only_parentheses_missing(out, s_tree, arity, build):
    """the result text is the reference result up to parentheses (and trailing commas): the splice lost the grouping"""
    got = _tokens_without_parentheses(ast.unparse(ast.parse(out)))
    for mode in ("outer", "inner"):
        want = _tokens_without_parentheses(ast.unparse(ref_sub(s_tree, arity, build, mode)))
        if got is not None and got == want:
            return True
    return False


def check(src, case, count):
    from pyrefact import pattern_matching as pm
    pat, arity, repl, build = case
    fails = []
    try:
        out, n = pm.subn(pat, repl, src, count=count)
    except Exception as ex:  # noqa: BLE001
        return [{"cls": f"raises:{type(ex).__name__}", "what": f"subn raised {type(ex).__name__}: {ex}"}]
    s_tree = ast.parse(src)
    try:
        r_tree = ast.parse(out)
    except SyntaxError as ex:
        return [{"cls": "result-invalid", "what": f"result does not parse: {ex}", "out": out}]
    parents = {}
    for p in ast.walk(s_tree):
        for c in ast.iter_child_nodes(p):
            parents[c] = p
    matches = [m for m in ast.walk(s_tree) if is_match(m, arity)]
    src_lines = src.splitlines()
    ignored = {i + 1 for i, l in enumerate(src_lines) if "pyrefact: ignore" in l}

    def on_ignored(m):
        return any(l in ignored for l in range(m.lineno, m.end_lineno + 1))

    def ancestors(m):
        while m in parents:
            m = parents[m]
            yield m
    mset = set(matches)
    isolated = [m for m in matches if not any(a in mset for a in ancestors(m)) and not any(d in mset for d in ast.walk(m) if d is not m)]
    # the expected tree must be expressible as text at all (a starred binding inside an operator is not): otherwise there is no oracle
    for m in matches:
        want = build(*m.args)
        try:
            back = ast.parse(ast.unparse(ast.fix_missing_locations(ast.Expr(value=want)))).body[0].value
            if dump(back) != dump(want):
                return []
        except Exception:  # noqa: BLE001
            pass
    o = Oracle(arity, build)
    o.walk(s_tree, r_tree)
    if o.bad:
        if count == 0 and only_parentheses_missing(out, s_tree, arity, build):
            fails.append({"cls": f"missing-parentheses:{pat}->{repl}", "what": "the instantiated replacement was spliced in without the parentheses its new context needs, so the tree is regrouped: " + o.bad, "out": out})
        elif count == 0:
            fails.append({"cls": "tree-is-not-source-with-matches-replaced", "what": o.bad, "out": out})
        else:
            r0 = [f for f in check(src, case, 0) if f["cls"].startswith("missing-parentheses")]
            fails.append({"cls": r0[0]["cls"] if r0 else "tree-is-not-source-with-matches-replaced", "what": o.bad, "out": out})
        return fails
    if not matches:
        if out != src:
            fails.append({"cls": "no-occurrence-changed-text", "what": "pattern does not occur but the text changed", "out": out})
        if n != 0:
            fails.append({"cls": "no-occurrence-counted", "what": f"pattern does not occur but subn counts {n}", "out": out})
        return fails
    identity = dump(build(*[ast.Name(id=f"w{k}") for k in range(arity)])) == dump(mk("foo", *[ast.Name(id=f"w{k}") for k in range(arity)]))
    if count > 0 and len(o.sites) > count:
        fails.append({"cls": "count-exceeded", "what": f"count={count} but {len(o.sites)} matches were replaced", "out": out})
    if count > 0 and n > count:
        fails.append({"cls": "count-exceeded", "what": f"count={count} but subn reports {n}", "out": out})
    if n < len(o.sites):
        fails.append({"cls": "count-underreported", "what": f"{len(o.sites)} sites replaced, subn reports {n}", "out": out})
    # a pass whose combined result would not parse leaves the text as it was (C03 / C10): then nothing need be replaced
    rollback_possible = not all(_parses(ref_sub(s_tree, arity, build, mode)) for mode in ("outer", "inner"))
    if count == 0 and not identity and not rollback_possible:
        for m in isolated:
            if not on_ignored(m) and m not in o.sites and not any(on_ignored(x) for x in matches):
                fails.append({"cls": "isolated-match-not-replaced", "what": f"match `{ast.unparse(m)[:60]}` at line {m.lineno} overlaps no other match and is not on an ignored line, but was not replaced", "out": out})
                break
    for m in o.sites:
        if on_ignored(m):
            fails.append({"cls": "ignored-line-rewritten", "what": f"match on a line with an ignore comment was rewritten (line {m.lineno})", "out": out})
    # lines not touched by a match are unchanged
    covered = set()
    for m in matches:
        covered.update(range(m.lineno, m.end_lineno + 1))
    out_lines = out.splitlines()
    for tag, i1, i2, j1, j2 in difflib.SequenceMatcher(None, src_lines, out_lines, autojunk=False).get_opcodes():
        if tag in ("replace", "delete"):
            outside = [i + 1 for i in range(i1, i2) if i + 1 not in covered and src_lines[i].strip()]
            if outside:
                fails.append({"cls": "untouched-line-changed", "what": f"source line(s) {outside} lie outside every match but were changed or removed: {src_lines[outside[0] - 1]!r}", "out": out})
                break
    for i in ignored:
        if src_lines[i - 1] not in out_lines:
            fails.append({"cls": "ignored-line-rewritten", "what": f"line {i} carries an ignore comment and is not in the result verbatim", "out": out})
    return fails


def sources(tier, rnd):
    out = []
    for arity, exprs in ((1, EXPRS1), (2, EXPRS2)):
        pairs = list(itertools.product(exprs, repeat=2))
        if tier == "quick":
            pairs = [(e, e) for e in exprs] + rnd.sample(pairs, 60 if arity == 1 else 40)
        for fr in FRAMES:
            for e, f in pairs:
                out.append((arity, fr.replace("{E}", e).replace("{F}", f)))
    return out


def work_generated(chunk):
    P.quiet()
    res = []
    n = 0
    for arity, src in chunk:
        try:
            ast.parse(src)
        except SyntaxError:
            continue
        for case in CASES:
            if case[1] != arity:
                continue
            for count in (0, 1, 2):
                n += 1
                for f in check(src, case, count):
                    f.update(src=src, case=f"sub({case[0]!r}, {case[2]!r}, count={count})")
                    res.append(f)
    return n, res


# (pattern, replacement, source, expected result as text - compared as trees)
FIXED_CASES = [
    ("({{t}} for {{t}} in {{it}})", "iter({{it}})", "y = sum(x for x in r)\n", "y = sum(iter(r))\n"),
    ("({{t}} for {{t}} in {{it}})", "iter({{it}})", "y = max(x for x in range(0, 10, 2))\n", "y = max(iter(range(0, 10, 2)))\n"),
    ("({{t}} for {{t}} in {{it}})", "iter({{it}})", "y = (x for x in r)\n", "y = iter(r)\n"),
    ("({{t}} for {{t}} in {{it}})", "iter({{it}})", "y = f(1, (x for x in r))\n", "y = f(1, iter(r))\n"),
    ("({{t}} for {{t}} in {{it}})", "{{it}}", "y = sorted(x for x in a + b)\n", "y = sorted(a + b)\n"),
    ("({{t}} for {{t}} in {{it}})", "{{it}}", "def f(r):\n    return any(x for x in r) or all(x for x in r)\n", "def f(r):\n    return any(r) or all(r)\n"),
    ("[{{t}} for {{t}} in {{it}}]", "list({{it}})", "y = [x for x in r] + [z for z in q]\n", "y = list(r) + list(q)\n"),
    ("{{a}} == None", "{{a}} is None", "y = not x == None\n", "y = not x is None\n"),
    ("not {{a}} in {{b}}", "{{a}} not in {{b}}", "y = z and not p in q\n", "y = z and p not in q\n"),
    ("{{a}}.get({{k}}, None)", "{{a}}.get({{k}})", "y = d.get(k, None).x[0]\n", "y = d.get(k).x[0]\n"),
    ("len({{a}}) == 0", "not {{a}}", "y = len(v) == 0 and w\n", "y = not v and w\n"),
    ("len({{a}}) == 0", "not {{a}}", "y = -(len(v) == 0)\n", "y = -(not v)\n"),
    # a binding that contains the text of another slot is not substituted into; absent optional children are no match (source unchanged)
    ("f({{a}}, {{b}})", "g({{a}}, {{b}})", "y = f('{{b}}', 1)\n", "y = g('{{b}}', 1)\n"),
    ("f({{a}})", "g({{a}})", "y = f('{{name}}')\n", "y = g('{{name}}')\n"),
    ("return {{x}}", "return ({{x}})", "def f():\n    return\n", "def f():\n    return\n"),
    ("{{s}}[{{a}}:{{b}}]", "{{s}}[{{b}}:{{a}}]", "z = y[1:]\n", "z = y[1:]\n"),
    # a replacement of several statements stays in the block of the statement it replaces, at any depth, first or not in its block
    ("{{a}} = compute()", "tmp = compute()\n{{a}} = tmp", "def f():\n    if c:\n        x = compute()\n    return x\n", "def f():\n    if c:\n        tmp = compute()\n        x = tmp\n    return x\n"),
    ("{{a}} = compute()", "tmp = compute()\n{{a}} = tmp", "def f():\n    q = 0\n    for i in r:\n        if c:\n            q = 1\n            x = compute()\n    return x\n",
     "def f():\n    q = 0\n    for i in r:\n        if c:\n            q = 1\n            tmp = compute()\n            x = tmp\n    return x\n"),
    ("try:\n    {{s}}\nexcept {{e}}:\n    raise {{x}}", "try:\n    {{s}}\nexcept {{e}} as error:\n    raise {{x}} from error",
     "def f(a):\n    a = 1\n    try:\n        b = g()\n    except Exception:\n        raise ValueError('x')\n    return b\n",
     "def f(a):\n    a = 1\n    try:\n        b = g()\n    except Exception as error:\n        raise ValueError('x') from error\n    return b\n"),
    ("def {{f}}[T]():\n    return 1", "def {{f}}[T]():\n    return 2", "def g[T]():\n    return 1\n", "def g[T]():\n    return 2\n"),
    # bound string literals keep their value whatever prefix and escapes they are written with
    ("foo({{a}}, {{b}})", "bar({{b}}, {{a}})", 'y = foo(r"\\bfoo\\b", s)\n', 'y = bar(s, r"\\bfoo\\b")\n'),
    ("foo({{a}}, {{b}})", "bar({{b}}, {{a}})", 'y = foo("a\\0b\\x41", b"\\x00z")\n', 'y = bar(b"\\x00z", "a\\0b\\x41")\n'),
    ("foo({{a}}, {{b}})", "bar({{b}}, {{a}})", "y = foo(R'\\d+\\.', rb'\\d')\n", "y = bar(rb'\\d', R'\\d+\\.')\n"),
    ("if {{c}}:\n    return True\nreturn False", "return {{c}}", 'def f(s):\n    if re.match(r"\\bfoo\\b", s):\n        return True\n    return False\n',
     'def f(s):\n    return re.match(r"\\bfoo\\b", s)\n'),
    ("foo({{a}})", "bar({{a}})", "y = foo('''a\\\nb''')\n", "y = bar('''a\\\nb''')\n"),
]


def work_fixed(case):
    from pyrefact import pattern_matching as pm
    P.quiet()
    pat, rep, src, want = case
    try:
        out = pm.sub(pat, rep, src)
    except Exception as ex:  # noqa: BLE001
        return [{"cls": f"raises:{type(ex).__name__}", "what": f"sub raised {type(ex).__name__}: {ex}"}]
    try:
        same = dump(ast.parse(out)) == dump(ast.parse(want))
    except SyntaxError:
        same = False
    return [] if same else [{"cls": "fixed-case-tree-differs", "what": f"sub({pat!r}, {rep!r}, {src!r}) -> {out!r}, expected the tree of {want!r}"}]


NOPATS = [("zzz_not_there({{a}})", "qqq({{a}})"), ("{{a}} @ zzz_not_there", "{{a}}"), ("del zzz_not_there", "pass")]


def work_corpus(src):
    from pyrefact import pattern_matching as pm
    P.quiet()
    fails = []
    n = 0
    try:
        tree = ast.parse(src)
    except SyntaxError:
        return 0, []
    for pat, rep in NOPATS:
        n += 1
        try:
            out, k = pm.subn(pat, rep, src)
        except Exception as ex:  # noqa: BLE001
            fails.append({"cls": f"raises:{type(ex).__name__}", "what": f"subn({pat!r}) raised {type(ex).__name__}: {ex}"})
            continue
        if out != src or k != 0:
            fails.append({"cls": "no-occurrence-changed-text", "what": f"pattern {pat!r} does not occur: text changed={out != src}, count={k}"})
    cands = []
    for node in ast.walk(tree):
        if isinstance(node, (ast.expr, ast.stmt)) and hasattr(node, "lineno"):
            seg = ast.get_source_segment(src, node)
            if seg and "{" not in seg and len(seg) < 200 and not isinstance(node, (ast.Constant, ast.JoinedStr, ast.FunctionDef, ast.ClassDef, ast.AsyncFunctionDef)) \
                    and not seg.startswith(("@", "elif", "else")) and node.col_offset == 0 or (seg and "\n" not in seg and "{" not in seg and len(seg) < 80 and isinstance(node, ast.expr)
                                                                                                 and not isinstance(node, (ast.Constant, ast.JoinedStr))):
                cands.append((node, seg))
    rnd = random.Random(len(src))
    want = dump(tree)
    for node, seg in rnd.sample(cands, min(5, len(cands))):
        try:
            pt = ast.parse(seg).body[0]
        except (SyntaxError, IndexError):
            continue
        pn = pt.value if isinstance(pt, ast.Expr) and isinstance(node, ast.expr) else pt
        if type(pn) is not type(node):
            continue
        n += 1
        try:
            out = pm.sub(seg, seg, src)
        except Exception as ex:  # noqa: BLE001
            fails.append({"cls": f"raises:{type(ex).__name__}", "what": f"sub({seg!r}, itself) raised {type(ex).__name__}: {ex}"})
            continue
        try:
            got = dump(ast.parse(out))
        except SyntaxError:
            fails.append({"cls": "result-invalid", "what": f"sub({seg!r}, itself): result does not parse"})
            continue
        if got != want:
            fails.append({"cls": "self-substitution-changes-tree", "what": f"sub({seg[:80]!r}, itself) changes the syntax tree"})
    return n, fails


# ----------------------------------------------------------------------------- "the count argument bounds the number of replacements"
# patterns whose matches overlap each other (sliding windows of a statement sequence, nested / chained expressions): a marker call in the
# replacement is counted in the result.  (pattern, replacement, marker, source builder)
def _count_cases():
    out = []
    for n in range(1, 10):
        run = "".join(f"v{k} = 1\n" for k in range(n))
        out.append(("{{x}} = 1\n{{y}} = 1", "pair_marker({{x}}, {{y}})", "pair_marker(", run))
        out.append(("{{x}} = 1\n{{y}} = 1\n{{z}} = 1", "triple_marker({{x}}, {{y}}, {{z}})", "triple_marker(", run))
        out.append(("{{x}} = 1\n{{y}} = 1", "pair_marker({{x}}, {{y}})", "pair_marker(", "def f():\n" + "".join("    " + ln + "\n" for ln in run.splitlines()) + "    return v0\n"))
        chain = " + ".join(f"a{k}" for k in range(n + 1))
        out.append(("{{x}} + {{y}}", "add_marker({{x}}, {{y}})", "add_marker(", f"r = {chain}\n"))
        out.append(("{{x}} + {{y}}", "add_marker({{x}}, {{y}})", "add_marker(", "".join(f"r{k} = p{k} + q{k}\n" for k in range(n))))
        out.append(("f({{x}})", "call_marker({{x}})", "call_marker(", "r = " + "f(" * n + "0" + ")" * n + "\n"))
    return out


def work_count(case):
    import importlib
    P.quiet()
    pm = importlib.import_module("pyrefact.pattern_matching")
    pat, rep, marker, src = case
    fails, n = [], 0
    unlimited = None
    for count in (0, 1, 2, 3, 4):
        n += 1
        r = P.guarded(lambda s, count=count: pm.subn(pat, rep, s, count=count), src, 60)
        if r[0] != "ok":
            fails.append({"cls": f"count:{r[0]}", "what": f"subn({pat!r}, {rep!r}, {src!r}, count={count}) {r[0]}: {r[1]}"})
            continue
        out, reported = r[1]
        made = out.count(marker)
        if count == 0:
            unlimited = made
        if count > 0 and made > count:
            fails.append({"cls": "count:more-replacements-than-count", "what": f"subn({pat!r}, {rep!r}, {src!r}, count={count}) made {made} replacements: {out!r}"})
        if unlimited is not None and made > unlimited:
            fails.append({"cls": "count:more-replacements-than-without-a-bound", "what": f"subn({pat!r}, {rep!r}, {src!r}, count={count}) made {made} replacements, {unlimited} without a bound"})
        if made == 0 and out != src:
            fails.append({"cls": "count:changed-without-replacement", "what": f"subn({pat!r}, {rep!r}, {src!r}, count={count}) -> {out!r}"})
        s2 = pm.sub(pat, rep, src, count=count)
        if s2 != out:
            fails.append({"cls": "count:sub-differs-from-subn", "what": f"sub(..., count={count}) -> {s2!r}, subn -> {out!r}"})
    return n, fails


# ----------------------------------------------------------------------------- "lines not touched by a match are unchanged"
# the same string VALUE spelled in several ways on different lines; the match (on the first line) carries one of them in a wildcard binding.
# Restoring original spellings after a rewrite must not re-spell the literals of the other lines.
def _untouched_cases():
    spell = {"k": ["'k'", '"k"', '"""k"""', "r'k'", "\'\'\'k\'\'\'", "R\"k\"", "('k')", "'' 'k'"],
             "a\nb": ["'a\\nb'", '"a\\nb"', '"""a\nb"""', "\'\'\'a\nb\'\'\'", "'a' '\\nb'"],
             "q'q": ['"q\'q"', "'q\\'q'", '"""q\'q"""']}
    out = []
    for value, forms in spell.items():
        for i, bound in enumerate(forms):
            others = [f for j, f in enumerate(forms) if j != i]
            src = f"f({bound})\n" + "".join(f"v{n} = {f}\n" for n, f in enumerate(others)) + "done = True\n"
            out.append(("f({{x}})", "g({{x}})", src, 1))
            out.append(("f({{x}})", "g({{x}}, {{x}})", src, 1))
            src2 = "".join(f"v{n} = {f}\n" for n, f in enumerate(others)) + f"r = h(f({bound}))\n" + "done = True\n"
            out.append(("f({{x}})", "g({{x}})", src2, None))
        # files that do NOT contain the spelling the unparser would choose (the first form of each list), with one spelling in the majority
        nonrepr = forms[1:]
        for i, bound in enumerate(nonrepr):
            for major in nonrepr:
                rest = [f for f in nonrepr if f != major]
                src3 = f"f({bound})\n" + f"m0 = {major}\nm1 = {major}\n" + "".join(f"v{n} = {f}\n" for n, f in enumerate(rest)) + "done = True\n"
                out.append(("f({{x}})", "g({{x}})", src3, 1))
    return out


def work_untouched(case):
    import importlib
    import io
    P.quiet()
    pm = importlib.import_module("pyrefact.pattern_matching")
    pat, rep, src, _ = case
    r = P.guarded(lambda s: pm.sub(pat, rep, s), src, 60)
    if r[0] != "ok":
        return [{"cls": f"untouched:{r[0]}", "what": f"sub({pat!r}, {rep!r}, {src!r}) {r[0]}: {r[1]}"}]
    out = r[1]
    # lines (as the parser splits them) that contain no character of a match must reappear verbatim, in order
    matches = list(pm.finditer(pat, src))
    touched = set()
    starts, off = [], 0
    lines = io.StringIO(src, newline="").readlines()
    for ln in lines:
        starts.append(off)
        off += len(ln)
    for m in matches:
        for k, st in enumerate(starts):
            if st < m.end and m.start < st + len(lines[k]):
                touched.add(k)
    keep = [ln for k, ln in enumerate(lines) if k not in touched]
    out_lines = io.StringIO(out, newline="").readlines()
    pos = 0
    for ln in keep:
        try:
            pos = out_lines.index(ln, pos) + 1
        except ValueError:
            return [{"cls": "untouched:line-changed", "what": f"sub({pat!r}, {rep!r}, {src!r}) -> {out!r}: the untouched line {ln!r} does not reappear verbatim"}]
    return []


def run(tier, seed):
    rnd = random.Random(seed)
    srcs = sources(tier, rnd)
    chunks = [srcs[i::64] for i in range(64)]
    r1 = P.pool_map(work_generated, chunks, chunksize=1)
    corpus = P.corpus()
    sin = rnd.sample(corpus, 120 if tier == "quick" else len(corpus))
    r2 = P.pool_map(work_corpus, sin, chunksize=4)
    r0 = P.pool_map(work_fixed, FIXED_CASES, chunksize=2)
    out = []
    fl = []
    for c, fs in zip(FIXED_CASES, r0):
        for f in fs:
            fl.append({"id": f"{f['cls']}::{c[0]}::{c[2][:40]}", "cls": f["cls"], "input": f"sub({c[0]!r}, {c[1]!r}, {c[2]!r})", "observed": f["what"], "required": f"tree of {c[3]!r}"})
    out.append({"name": "c14-fixed-cases", "function": "pattern_matching.sub", "contract": "result tree equals the expected tree (generator as sole call argument, operator contexts, attribute / subscript chains)",
                "space": f"{len(FIXED_CASES)} hand-written (pattern, replacement, source, expected) cases", "bound": "enumerated cases", "evaluations": len(FIXED_CASES), "distinct_nontrivial": len(FIXED_CASES),
                "exhaustive": True, "failures": P.cap(fl), "samples": [repr(FIXED_CASES[0])]})
    fl, n = [], 0
    for cnt, fs in r1:
        n += cnt
        for f in fs:
            fl.append({"id": f"{f['cls']}::{f['case']}::{P.sha(f['src'])}", "cls": f["cls"], "input": f"{f['case']} on {f['src']!r}", "observed": f["what"] + (f" -> {f.get('out')!r}" if f.get("out") else ""),
                       "required": "result tree = source tree with applied matches replaced by the instantiated replacement; untouched and ignored lines unchanged; count respected"})
    out.append({"name": "c14-generated-substitutions", "function": "pattern_matching.sub / subn, processing.find_replace, _do_rewrite, _apply_rewrites",
                "contract": "AST-level verifying oracle (see module docstring)", "space": f"{len(srcs)} generated sources ({len(FRAMES)} frames x expression pairs) x {len(CASES)} (pattern, replacement) cases x count in (0, 1, 2)",
                "bound": "enumerated frames x expressions", "evaluations": n, "distinct_nontrivial": len(srcs), "exhaustive": tier == "thorough", "failures": P.cap(fl), "samples": [srcs[0][1], srcs[-1][1]]})
    fl, n = [], 0
    for s, (cnt, fs) in zip(sin, r2):
        n += cnt
        for f in fs:
            fl.append({"id": f"{f['cls']}::{f['what'][:80]}::{P.sha(s)}", "cls": f["cls"], "input": s, "observed": f["what"], "required": "no occurrence: byte-identical; self substitution: same tree"})
    out.append({"name": "c14-corpus-identity-and-self-substitution", "function": "pattern_matching.sub / subn", "contract": "pattern that does not occur -> byte-identical, count 0; sub(seg, seg) keeps the tree",
                "space": f"{len(sin)} corpus modules x {len(NOPATS)} absent patterns + up to 5 own segments each", "bound": "corpus sample", "evaluations": n, "distinct_nontrivial": len(sin), "exhaustive": False,
                "failures": P.cap(fl), "samples": [sin[0][:200]]})
    cc = _count_cases()
    r3 = P.pool_map(work_count, cc, chunksize=2)
    fl, n = [], 0
    for c, (cnt, fs) in zip(cc, r3):
        n += cnt
        for f in fs:
            fl.append({"id": f"{f['cls']}::{c[0][:30]}::{P.sha(c[3])}", "cls": f["cls"], "input": f"subn({c[0]!r}, {c[1]!r}, {c[3]!r})", "observed": f["what"], "required": "at most `count` replacements are made (counted as marker calls in the result); never more than without a bound; sub agrees with subn"})
    out.append({"name": "c14-count-bounds-replacements", "function": "pattern_matching.subn / sub", "contract": "for count > 0 the result contains at most `count` instantiated replacements, also where matches overlap each other",
                "space": f"{len(cc)} cases: statement-sequence windows over runs of 1..9 statements (module / function body), chained and independent binary operations, nested calls x count in 0..4",
                "bound": "runs of at most 9 matches", "evaluations": n, "distinct_nontrivial": len(cc), "exhaustive": True, "failures": P.cap(fl), "samples": [repr(cc[7])]})
    uc = _untouched_cases()
    r4 = P.pool_map(work_untouched, uc, chunksize=4)
    fl = []
    for c, fs in zip(uc, r4):
        for f in fs:
            fl.append({"id": f"{f['cls']}::{P.sha(c[2] + c[1])}", "cls": f["cls"], "input": f"sub({c[0]!r}, {c[1]!r}, {c[2]!r})", "observed": f["what"], "required": "every line that no match touches reappears byte for byte"})
    out.append({"name": "c14-untouched-lines", "function": "pattern_matching.sub, processing._substitute_original_strings", "contract": "lines not touched by a match are unchanged - also literals of the same value in other spellings",
                "space": f"{len(uc)} sources: one string value in 3-8 spellings on separate lines, the match binding one of them", "bound": "enumerated spellings", "evaluations": len(uc), "distinct_nontrivial": len(uc), "exhaustive": True,
                "failures": P.cap(fl), "samples": [uc[0][2]]})
    return out


if __name__ == "__main__":
    import collections
    import json
    import sys
    for r in run(sys.argv[1] if len(sys.argv) > 1 else "quick", 0):
        print(json.dumps({k: v for k, v in r.items() if k not in ("failures", "samples")}, indent=1)[:600])
        print(collections.Counter(f["cls"] for f in r["failures"]))
        seen = collections.Counter()
        for f in r["failures"]:
            seen[f["cls"]] += 1
            if seen[f["cls"]] <= 4:
                print("  ", f["cls"], "|", f["input"][:300], "|", f["observed"][:400])
