"""Bounded stand-in for C10: the property-level oracle, driven through the real processing.fix / processing.chain.

Synthetic rules yield rewrites whose replacement texts carry unique marker tokens over a filler module; which
rewrites were applied is read off the output text.  Contract checked on every configuration (the sentences of
C10): transactions all-or-nothing; no two applied rewrites overlap; a dropped transaction has one of the listed
reasons (self-overlap, duplicate of / overlap with a transaction with precedence, ignored line); a pass whose
combined result would not parse returns the text unchanged.  Also the run-time contract on _do_rewrite that the
deductive offset lemma assumes: text before the first touched line is unchanged by one splice.
"""
import ast
import itertools
import re
import multiprocessing as mp
import random

FILLER = ["a = 1", "b = 2", "c = 3", "d = 4", "e = 5"]


# every spelling the ignore comment may have (the tool's regular expression: #\s*pyrefact\s*:\s*(skip_file|ignore))
SPELLINGS = ["  # pyrefact: ignore", "  # pyrefact:ignore", "  #pyrefact:ignore", "  # pyrefact : ignore", "  #  pyrefact:  ignore"]
IGNORE_RE = re.compile(r"#\s*pyrefact\s*:\s*(skip_file|ignore)")


def build_source(ignored_line):
    """ignored_line: None, a line index (canonical spelling) or (line index, index into SPELLINGS)"""
    idx, form = (ignored_line, 0) if not isinstance(ignored_line, (tuple, list)) else ignored_line
    lines = [s + (SPELLINGS[form] if i == idx else "") for i, s in enumerate(FILLER)]
    return "\n".join(lines) + "\n"


def line_range(source, i, j=None):
    """character range of statements i..j (inclusive), statement text only"""
    from pyrefact import core
    mod = ast.parse(source)
    a = core.get_charnos(mod.body[i], source)
    b = core.get_charnos(mod.body[j if j is not None else i], source)
    return core.Range(a.start, b.end)


KINDS = ("node", "node_ast", "range", "range2", "delete", "insert", "node_invalid")


def rewrite_options():
    opts = []
    for kind in KINDS:
        for tgt in range(4):
            opts.append((kind, tgt))
    return opts


def make_item(source, mod, rid, kind, tgt, txn):
    """-> (yielded tuple, spec range (start,end), marker or None, deletes_stmt index or None, invalid?)"""
    from pyrefact import core
    mk = f"MK{rid}"
    node = mod.body[tgt]
    r = core.get_charnos(node, source)
    if kind == "node":
        item = (node, f"{mk} = 0")
        rng = (r.start, r.end)
    elif kind == "node_ast":
        new = ast.parse(f"{mk} = 0").body[0]
        item = (node, new)
        rng = (r.start, r.end)
    elif kind == "node_invalid":
        item = (node, f"{mk} = (")
        rng = (r.start, r.end)
    elif kind == "range":
        item = (core.Range(r.start, r.end), f"{mk} = 0")
        rng = (r.start, r.end)
    elif kind == "range2":
        r2 = core.get_charnos(mod.body[tgt + 1], source)
        item = (core.Range(r.start, r2.end), f"{mk} = 0")
        rng = (r.start, r2.end)
    elif kind == "delete":
        item = (node, None)
        rng = (r.start, r.end)
        mk = None
    elif kind == "insert":
        new = ast.copy_location(ast.parse(f"{mk} = 0").body[0], node)
        item = (None, new)
        rng = (r.start, r.start)
    else:
        raise ValueError(kind)
    if txn is not None:
        item = item + (txn,)
    return item, rng, mk, (tgt if kind == "delete" else None), kind == "node_invalid"


def ov(a, b):
    return a[0] < b[1] and b[0] < a[1]


def touches_ignored(source, rng):
    off = 0
    for line in source.splitlines(keepends=True):
        if ov(rng, (off, off + len(line))) and IGNORE_RE.search(line):
            return True
        off += len(line)
    return False


def evaluate(config):
    """config = (ignored_line, groups) ; groups = list of lists of (kind, tgt, txn) in yield order.
    returns None if the contract holds, else a dict describing the failure"""
    import pyrefact  # noqa: F401
    from pyrefact import processing, core, logs
    logs.set_level(100)
    ignored_line, groups = config
    source = build_source(ignored_line)
    mod = ast.parse(source)
    specs = []        # (group, txnkey, rng, marker, deleted stmt, invalid, yielded content key)
    rules = []
    rid = 0
    default_ctr = 0
    for g, items in enumerate(groups):
        yielded = []
        for kind, tgt, txn in items:
            item, rng, mk, dele, inv = make_item(source, mod, rid, kind, tgt, txn)
            if txn is None:
                # default transaction numbers are unique per rewrite and precede every explicit number
                txnkey = (g, -10**9 + default_ctr)
            else:
                txnkey = (g, txn)
            default_ctr += 1
            content = (rng, ast.unparse(item[1]) if isinstance(item[1], ast.AST) else (item[1] or ""))
            specs.append({"rid": rid, "g": g, "txn": txnkey, "rng": rng, "mk": mk, "del": dele, "invalid": inv, "content": content, "kind": kind})
            yielded.append(item)
            rid += 1

        def rule(source, _y=tuple(yielded)):
            yield from _y
        rule.__name__ = f"rule{g}"
        rules.append(rule)

    # run-time contract on _do_rewrite (prefix before the first touched line is unchanged)
    real_do = processing._do_rewrite
    prefix_fail = []

    def checked_do(src, rewrite, **kw):
        out = real_do(src, rewrite, **kw)
        try:
            r = processing._get_charnos(rewrite, src)
            ls = src.rfind("\n", 0, r.start) + 1
            if out[:ls] != src[:ls]:
                prefix_fail.append((r.start, r.end))
        except Exception:
            pass
        return out
    processing._do_rewrite = checked_do
    try:
        if len(rules) == 1:
            out = processing.fix(rules[0], max_iter=1)(source)
        else:
            out = processing.chain(rules, max_iter=1)(source)
    except Exception as ex:  # noqa: BLE001
        return {"what": f"pass raised {type(ex).__name__}: {ex}", "cls": "raises"}
    finally:
        processing._do_rewrite = real_do
    if prefix_fail:
        return {"what": f"_do_rewrite changed text before the first touched line for range {prefix_fail[0]}", "cls": "do_rewrite-prefix"}
    fixed = set()
    amb = {}
    if out != source:
        try:
            ast.parse(out)
        except SyntaxError:
            return {"what": "pass returned text that does not parse", "cls": "invalid-output", "out": out}
        for s in specs:
            if s["mk"] is not None:
                if s["mk"] in out:
                    fixed.add(s["rid"])
        for s in specs:
            if s["mk"] is None:
                stmt = FILLER[s["del"]]
                replaced_by_other = any(o["rid"] in fixed and ov(o["rng"], s["rng"]) for o in specs)
                if stmt not in out and not replaced_by_other:
                    amb.setdefault(s["del"], []).append(s["rid"])   # which of several deletes of one statement ran is not observable
    first_fail = None
    for choice in itertools.product(*amb.values()):
        r = judge(source, out, specs, fixed | set(choice))
        if r is None:
            return None
        first_fail = first_fail or r
    return first_fail


def judge(source, out, specs, applied):
    txns = {}
    for s in specs:
        txns.setdefault(s["txn"], []).append(s)
    # 1. all-or-nothing (identical rewrites inside a transaction are one rewrite)
    status = {}
    for key, rs in txns.items():
        flags = {s["rid"] in applied for s in rs}
        dup_inside = len({s["content"] for s in rs}) < len(rs)
        if len(flags) > 1 and not dup_inside:
            return {"what": f"transaction {key} applied partially: {[(s['rid'], s['rid'] in applied) for s in rs]}", "cls": "partial", "out": out}
        status[key] = any(flags)
    # 2. applied rewrites pairwise non-overlapping
    ap = [s for s in specs if s["rid"] in applied]
    for x, y in itertools.combinations(ap, 2):
        if ov(x["rng"], y["rng"]) and x["content"] != y["content"]:
            return {"what": f"applied rewrites overlap: {x['rng']} and {y['rng']}", "cls": "overlap", "out": out}
    # 4. invalid combined result => unchanged
    if any(s["invalid"] and s["rid"] in applied for s in specs):
        return {"what": "an invalid replacement was applied", "cls": "invalid-applied", "out": out}
    any_invalid_wanted = any(s["invalid"] for s in specs)
    # 3. dropped only for a listed reason
    for key, rs in txns.items():
        if status[key]:
            continue
        reason = None
        if any(ov(x["rng"], y["rng"]) for x, y in itertools.combinations(rs, 2) if x["content"] != y["content"]):
            reason = "self-overlap"
        elif any(touches_ignored(source, s["rng"]) for s in rs):
            reason = "ignored"
        else:
            mine = tuple(s["content"] for s in rs)
            for okey, ors in txns.items():
                if okey < key:
                    if tuple(s["content"] for s in ors) == mine:
                        reason = "duplicate"
                    if any(ov(x["rng"], y["rng"]) for x in rs for y in ors):
                        reason = "overlap-with-precedence"
        if reason is None and any_invalid_wanted and out == source:
            reason = "pass rolled back (invalid result)"
        if reason is None:
            return {"what": f"transaction {key} dropped without a listed reason", "cls": "dropped-without-reason", "out": out}
    return None


def configs(tier, seed):
    rnd = random.Random(seed)
    opts = rewrite_options()
    txn_choices = (None, 1, 2)
    out = []
    # exhaustive: all pairs of rewrites in one rule, all transaction assignments, both yield orders, +- ignored line
    singles = [(k, t, x) for (k, t) in opts for x in txn_choices]
    for a, b in itertools.product(singles, singles):
        for ign in (None, 1, (1, 1), (1, 3)):
            out.append((ign, [[a, b]]))
    exhaustive_n = len(out)
    # sampled: 3-4 rewrites over 1-2 rules
    n_sample = 1500 if tier == "quick" else 40000
    for _ in range(n_sample):
        n = rnd.choice((3, 3, 4))
        items = [(rnd.choice(KINDS), rnd.randrange(4), rnd.choice((None, 1, 2, 3))) for _ in range(n)]
        if rnd.random() < 0.5:
            cut = rnd.randrange(1, n)
            groups = [items[:cut], items[cut:]]
        else:
            groups = [items]
        out.append((rnd.choice((None, None, 0, 2, (0, 2), (2, 4))), groups))
    return out, exhaustive_n


def _eval_safe(cfg):
    try:
        return evaluate(cfg)
    except Exception as ex:  # harness problem: reported as error, never as a violation
        return {"harness_error": repr(ex)}


# ----------------------------------------------------------------------------- rewrites that only parse in combination
# "If the combined result of a pass would not parse, the pass leaves the text exactly as it was" - and ONLY then: a transaction whose members
# are individually unparsable (an opening and a closing bracket, the two quotes of a string, the headers of an if / else turned into try /
# except) is applied when the combined text parses.  (source, [rules: [(old text, new text, transaction or None)]])
JOINT = [
    ("x = [alpha, 2]\ny = 3\n", [[("[alpha", "(MARK_A", 1), ("2]", "MARK_B)", 1)]]),
    ("x = [alpha, 2]\ny = 3\n", [[("[alpha", "(MARK_A", 1), ("2]", "MARK_B)", 1), ("y = 3", "MARK_C = 3", 2)]]),
    ("x = [alpha, 2]\ny = 3\n", [[("[alpha", "(MARK_A", 1), ("2]", "MARK_B)", 1)], [("y = 3", "MARK_C = 3", None)]]),
    ("s = 'text'\nt = 4\n", [[("'text", '"MARK_A', 7), ("'\n", '"  # MARK_B\n', 7)], [("t = 4", "MARK_C = 4", None)]]),
    ("if cond:\n    a = 1\nelse:\n    a = 2\nz = 5\n", [[("if cond:", "try:  # MARK_A", 3), ("else:", "except MARK_B:", 3)], [("z = 5", "MARK_C = 5", None)]]),
    ("v = {1: 2}\nw = 6\n", [[("{1", "[MARK_A", 2), (": 2}", ", MARK_B]", 2)], [("w = 6", "MARK_C = 6", 4)]]),
    ("r = f(1,\n      2)\nq = 7\n", [[("f(1,", "MARK_A[1,", 1), ("2)", "MARK_B]", 1)], [("q = 7", "MARK_C = 7", 1)]]),
]


def evaluate_joint(case):
    import pyrefact  # noqa: F401
    from pyrefact import processing, core, logs
    logs.set_level(100)
    source, rules = case
    funcs, items_all = [], []
    for g, items in enumerate(rules):
        ys = []
        for old, new, txn in items:
            a = source.index(old)
            it = (core.Range(a, a + len(old)), new) + ((txn,) if txn is not None else ())
            ys.append(it)
            items_all.append((a, a + len(old), new))

        def rule(source, _y=tuple(ys)):
            yield from _y
        rule.__name__ = f"rule{g}"
        funcs.append(rule)
    expected = source
    for a, b, new in sorted(items_all, reverse=True):
        expected = expected[:a] + new + expected[b:]
    try:
        ast.parse(expected)
    except SyntaxError:
        return {"harness_error": f"model text of {case!r} does not parse"}
    try:
        out = processing.fix(funcs[0], max_iter=1)(source) if len(funcs) == 1 else processing.chain(funcs, max_iter=1)(source)
    except Exception as ex:  # noqa: BLE001
        return {"what": f"pass raised {type(ex).__name__}: {ex}", "cls": "raises"}
    missing = [new for _, _, new in items_all if re.search(r"MARK_[A-Z]", new).group() not in out]
    if missing:
        return {"what": f"no transaction overlaps, duplicates or touches an ignored line and the combined text parses, yet the pass dropped {missing}: {out!r}", "cls": "dropped-without-reason:jointly-valid", "out": out}
    return None


def run(tier, seed):
    cfgs, exhaustive_n = configs(tier, seed)
    ctx = mp.get_context("fork")
    with ctx.Pool(16) as pool:
        results = pool.map(_eval_safe, cfgs, chunksize=200)
    failures = []
    errors = []
    seen_cls = {}
    for cfg, r in zip(cfgs, results):
        if r is None:
            continue
        if "harness_error" in r:
            errors.append(r["harness_error"])
            continue
        if r["cls"] in seen_cls and seen_cls[r["cls"]] >= 3:
            continue
        seen_cls[r["cls"]] = seen_cls.get(r["cls"], 0) + 1
        failures.append({"id": repr(cfg), "cls": r["cls"], "input": {"ignored_line": cfg[0], "groups": cfg[1]}, "observed": r["what"], "output": r.get("out"),
                         "required": "C10: all-or-nothing, non-overlap, dropped-only-for-listed-reason, invalid pass leaves text unchanged"})
    for case in JOINT:
        r = evaluate_joint(case)
        if r is None:
            continue
        if "harness_error" in r:
            errors.append(r["harness_error"])
            continue
        failures.append({"id": "joint:" + repr(case)[:120], "cls": r["cls"], "input": {"source": case[0], "rules": case[1]}, "observed": r["what"], "output": r.get("out"),
                         "required": "C10: a transaction is dropped only for a listed reason; a pass is abandoned only if its COMBINED result does not parse"})
    nontrivial = sum(1 for c in cfgs if sum(len(g) for g in c[1]) >= 2)
    res = {"name": "c10-marker-drive", "function": "processing.fix / processing.chain / _schedule_rewrites / _apply_rewrites / _do_rewrite",
           "contract": "C10 sentences on the output text + _do_rewrite prefix-unchanged",
           "space": f"filler module of 5 statements; rewrite kinds {KINDS} x 4 targets x transaction in (default,1,2); ALL ordered pairs in one rule x ignored-line in (none, line 1 in three spellings of the comment) = {exhaustive_n} configurations exhaustively; plus {len(cfgs) - exhaustive_n} sampled configurations of 3-4 rewrites over 1-2 rules (seeded)",
           "bound": "<=2 rewrites exhaustive, 3-4 sampled; 7 fixed schedules whose rewrites parse only in combination", "evaluations": len(cfgs) + len(JOINT), "distinct_nontrivial": len({repr(c) for c in cfgs if sum(len(g) for g in c[1]) >= 2}),
           "exhaustive": False, "failures": failures, "samples": [repr(cfgs[0]), repr(cfgs[-1])]}
    if errors:
        res["error"] = f"{len(errors)} harness errors, first: {errors[0]}"
    return res


if __name__ == "__main__":
    import json, sys
    r = run(sys.argv[1] if len(sys.argv) > 1 else "quick", 0)
    print(json.dumps({k: v for k, v in r.items() if k != "failures"}, indent=1))
    for f in r["failures"][:10]:
        print(f["cls"], f["id"], f["observed"], repr(f.get("output")))
