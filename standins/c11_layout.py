"""Bounded stand-in for C11 (exploration): the layout stages leave the syntax tree and every literal value unchanged.

Run-time contract on each real stage and on format_code:   tree(stage(s)) == tree(s)
where tree() is ast.dump without positions and with whitespace inside DOCSTRINGS normalised (the tolerated exception of the property).
Stages: tab expansion and rmspace AS format_code APPLIES THEM (through processing.keep_syntax_tree; the bare str.expandtabs / third-party
rmspace.format_str are text transforms that do change literals - that is what the guard is for), fixes.fix_too_many_blank_lines,
fixes.fix_line_lengths (three line-length settings), fixes.fix_import_spacing, processing.minimize_whitespace_line_differences on the output
of a stage, and the opening + closing layout sequence of format_code as a whole.  (sort_imports reorders statements: not a layout stage.)
Inputs: generated modules with string / bytes / raw / f-string literals (single- and triple-quoted, multi-line) whose CONTENT holds tabs,
runs of blank lines, trailing blanks, over-long lines, quotes, backslashes; in every position (module level, function, class, nested
call argument, default value, docstring position); plus comments, odd indentation, tabs used for indentation; plus the corpus.
"""
import ast
import itertools
import random
import re

from . import pipeline as P

CONTENTS = ["a\\tb", "a\tb", "tab\tin\ttext", "line1\n\n\n\n\nline2", "line1\n\n\nline2\n", "trail   \nnext", "trail\t\nnext", "\n\n\n", "   \n   \n   \nx", "x" * 130, "word " * 40,
            "a\n\tindented with a tab\n\t\tmore", "a\n    indented\n\n\n    more", "quote ' and \" inside", "back\\\\slash\nnext", "{braces}", "ends with blank lines\n\n\n\n", "\n\n\nstarts with blank lines", "\n\n\n    usage: prog [options]\n    ", "\n\n    two blank lines, then indented", "\n\n\n\n\nfive blank lines first",
            "x\n" + " " * 8 + "\n" + " " * 8 + "\ny", "mixed \t \t end   "]
PREFIXES = ["", "r", "b", "f", "rb", "R", "F", "rf", "fR", "U", "Rb", "B"]


def literal(prefix, content, triple):
    """source text of a literal with exactly this content (for raw prefixes: content without backslash sequences only)"""
    spelled = prefix
    prefix = prefix.lower()
    if "u" in prefix and not content.isascii():
        return None
    if "r" in prefix and "\\" in content:
        return None
    if "f" in prefix:
        content_src = content.replace("{", "{{").replace("}", "}}")
    else:
        content_src = content
    if triple:
        if '"""' in content_src or content_src.endswith('"') or content_src.endswith("\\"):
            return None
        body = content_src if "r" in prefix else content_src.replace("\\", "\\\\").replace("\\\\t", "\\t") if False else content_src
        if "r" not in prefix:
            body = content_src.replace("\\", "\\\\")
        return f'{spelled}"""{body}"""'
    if "\n" in content:
        return None
    if "r" in prefix:
        if '"' in content_src:
            return None
        return f'{spelled}"{content_src}"'
    body = content_src.replace("\\", "\\\\").replace('"', '\\"').replace("\t", "\\t") if False else content_src.replace("\\", "\\\\").replace('"', '\\"')
    return f'{spelled}"{body}"'


FRAMES = [
    "x = {L}\nprint(x)\n",
    # surplus blank lines BEFORE the literal (a layout step that shortens them shifts every later position of the text)
    "first = 1\n" + "\n" * 14 + "x = {L}\nprint(first, x)\n",
    "first = 1\n" + "\n" * 6 + "second = 2\n" + "\n" * 6 + "third = 3\n" + "\n" * 6 + "def f():\n    y = {L}\n    return y\n\n\nprint(first, second, third, f())\n",
    "def early():\n    a = 1\n" + "\n" * 9 + "    return a\n" + "\n" * 9 + "x = {L}\nprint(early(), x)\n",
    "def f():\n    y = {L}\n    return y\n\n\nprint(f())\n",
    "class C:\n    attr = {L}\n\n    def m(self, z={L}):\n        return z\n\n\nprint(C().m(), C.attr)\n",
    "print(len({L}), [{L}, ({L},)])\n",
    "def g(a):\n    if a:\n        for i in range(2):\n            w = {L}\n            print(w, i)\n    return a\n\n\ng(1)\n",
    "import os\nimport sys\n\nv = {L}\n\n\n\n\nprint(v, os.sep, sys.argv)\n",
    "def h():\n\tq = {L}\n\treturn q\n\n\nprint(h())\n",
    "d = {{\n    'k': {L},\n    'j': 1,\n}}\nprint(d)\n",
    "x = 1  # comment with a\ttab and trailing blanks   \ny = {L}   \n\n\n\n\n\nprint(x, y)\n",
    "def k():\n    '''Docstring\twith tab\n\n\n\n    and blank lines   \n    '''\n    return {L}\n\n\nprint(k())\n",
    # imports inside a block, directly next to a statement that holds the literal (import spacing)
    "import sys\n\n\ndef m():\n    import os\n    sys.stdout.write({L} + os.sep)\n    return 1\n\n\nm()\n",
    "def n(a):\n    if a:\n        w = {L}\n        import os\n\n\n\n        import sys\n        print(w, os.sep, sys.argv)\n    return a\n\n\nn(1)\n",
    "class D:\n    import os\n    attr = {L}\n    from sys import argv\n\n\nprint(D.attr, D.os.sep)\n",
    "try:\n    import os\n    z = {L}\nexcept ImportError:\n    z = None\nprint(z)\n",
    # ... where that statement is the last one of its block, so that moving it to another column leaves valid code
    "import sys\n\n\ndef m():\n    import os\n    sys.stdout.write({L} + os.sep)\n\n\nm()\n",
    "def n(a):\n    for i in a:\n        import os\n        print({L}, os.sep)\n    return a\n\n\nn([1])\n",
    "import sys\nif sys.argv:\n    import os\n    print({L})\nprint(2)\n",
]


# literal forms that are not one prefixed literal: adjacent literals, backslash-continued one-line quotes, control characters that
# str.splitlines takes for line ends, pieces of f-strings that are valid code by themselves next to equal one-quoted literals
SPECIAL_MODULES = [
    "x = ('abc' '''x   \n  y  \nz''')\nprint(x)\n", "x = ('''x   \n  y  \nz''' 'abc')\nprint(x)\n", "y = 1\nx = ('a' f'''x{y}   \n  q\t\n''')\nprint(x)\n",
    "x = 'abc\\\ndef   \\\n  ghi'\nprint(x)\n", "def f():\n    x = 'abc\\\ndef   \\\n  ghi'\n    return x\n\n\nprint(f())\n", "y = 2\nx = f'abc\\\n{y}   \\\n  ghi'\nprint(x)\n",
    "x = 'a\x0cb'\nprint(x)\n", "x = 'a\x0bb' + 'c\x1cd' + 'e\x85f' + 'g\u2028h'\nprint(x)\n", "def f():\n    return ['a\x0cb', b'c\x0cd']\n\n\nprint(f())\n",
    "def label(prefix, record, unit):\n    key = f'{prefix}_id'\n    other = f'{prefix}_id'\n    again = f'{unit}s {unit}s {unit}s'\n    return record.get('_id'), {'s': 1}, key, other, again, '0' + f'{unit}0' + f'{prefix}0'\n\n\nprint(label('a', {'_id': 3}, 'm'))\n",
    "PAD = '0'\n\n\ndef pad(n, width_of_the_field, fill_character_for_padding):\n    return f'{n}0' + f'{n}0' + PAD * width_of_the_field + fill_character_for_padding + f'{n}0' + f'{width_of_the_field}0' + PAD\n\n\nprint(pad(1, 2, 'x'))\n",
]


def norm_tree(src):
    """ast.dump without positions; whitespace inside docstrings normalised (tolerated by the property)"""
    tree = ast.parse(src)
    for node in ast.walk(tree):
        if isinstance(node, (ast.Module, ast.FunctionDef, ast.AsyncFunctionDef, ast.ClassDef)) and node.body and isinstance(node.body[0], ast.Expr) \
                and isinstance(node.body[0].value, ast.Constant) and isinstance(node.body[0].value.value, str):
            node.body[0].value.value = " ".join(node.body[0].value.value.split())
    return ast.dump(tree)


def stages():
    import rmspace
    from pyrefact import fixes, processing
    out = {
        "expandtabs(4) as format_code applies it": lambda s: (processing.keep_syntax_tree(s, s.expandtabs(4)) if hasattr(processing, "keep_syntax_tree") else s.expandtabs(4)),
        "rmspace.format_str as format_code applies it": lambda s: (processing.keep_syntax_tree(s, rmspace.format_str(s)) if hasattr(processing, "keep_syntax_tree") else rmspace.format_str(s)),
        "fixes.fix_too_many_blank_lines": fixes.fix_too_many_blank_lines,
        "fixes.fix_line_lengths(100)": lambda s: fixes.fix_line_lengths(s, max_line_length=100),
        "fixes.fix_line_lengths(60)": lambda s: fixes.fix_line_lengths(s, max_line_length=60),
        "fixes.fix_line_lengths(140)": lambda s: fixes.fix_line_lengths(s, max_line_length=140),
        "fixes.fix_import_spacing": fixes.fix_import_spacing,
        # the minimiser gets a text with the same tree (what the guarded stages give it) and must keep that tree
        "minimize_whitespace_line_differences(s, blank_lines(s))": lambda s: processing.minimize_whitespace_line_differences(s, fixes.fix_too_many_blank_lines(s))[0],
        "minimize_whitespace_line_differences(s, line_lengths(s))": lambda s: processing.minimize_whitespace_line_differences(s, fixes.fix_line_lengths(s, max_line_length=80))[0],
    }
    return out


def layout_only_format_code(s):
    """format_code with every rule switched off would be the layout sequence; here: the real opening and closing stages in the real order"""
    import rmspace
    from pyrefact import fixes, processing
    original = s
    s = processing.keep_syntax_tree(s, s.expandtabs(4)) if hasattr(processing, "keep_syntax_tree") else s.expandtabs(4)
    s = processing.keep_syntax_tree(s, rmspace.format_str(s)) if hasattr(processing, "keep_syntax_tree") else rmspace.format_str(s)
    s = fixes.fix_too_many_blank_lines(s)
    s = fixes.fix_import_spacing(s)
    s = fixes.fix_line_lengths(s, max_line_length=100)
    s = processing.keep_syntax_tree(s, rmspace.format_str(s)) if hasattr(processing, "keep_syntax_tree") else rmspace.format_str(s)
    s, *_ = processing.minimize_whitespace_line_differences(original, s)
    return s


def work(src):
    P.quiet()
    fails = []
    n = 0
    try:
        want = norm_tree(src)
    except (SyntaxError, ValueError):
        return 0, []
    todo = dict(stages())
    todo["layout sequence of format_code"] = layout_only_format_code
    for name, f in todo.items():
        r = P.guarded(f, src, 60)
        if r[0] != "ok":
            continue                    # exceptions: C04
        n += 1
        out = r[1]
        if out == src:
            continue
        try:
            got = norm_tree(out)
        except (SyntaxError, ValueError):
            fails.append({"cls": f"invalid:{name}", "what": f"{name}: result does not parse"})
            continue
        if got != want:
            # locate the first differing literal for the report
            a = [n_.value for n_ in ast.walk(ast.parse(src)) if isinstance(n_, ast.Constant) and isinstance(n_.value, (str, bytes))]
            b = [n_.value for n_ in ast.walk(ast.parse(out)) if isinstance(n_, ast.Constant) and isinstance(n_.value, (str, bytes))]
            diff = next(((x, y) for x, y in zip(a, b) if x != y), None)
            kind = "literal-value-changed" if diff else "tree-changed"
            fails.append({"cls": f"{kind}:{name}", "what": f"{name}: " + (f"literal {diff[0]!r} became {diff[1]!r}" if diff else "the syntax tree changed")})
    return n, fails


def literal_values(src):
    """multiset of the str / bytes literal values of a module, docstrings and f-string pieces excluded"""
    import collections
    tree = ast.parse(src)
    doc = set()
    for node in ast.walk(tree):
        if isinstance(node, (ast.Module, ast.FunctionDef, ast.AsyncFunctionDef, ast.ClassDef)) and node.body and isinstance(node.body[0], ast.Expr) and isinstance(node.body[0].value, ast.Constant):
            doc.add(id(node.body[0].value))
    inside_f = {id(c) for n_ in ast.walk(tree) if isinstance(n_, ast.JoinedStr) for c in ast.walk(n_)}
    return collections.Counter(repr(n_.value) for n_ in ast.walk(tree) if isinstance(n_, ast.Constant) and isinstance(n_.value, (str, bytes)) and id(n_) not in doc and id(n_) not in inside_f)


def work_format_code(src):
    """whole formatter: every distinct literal value of the input is still a literal value of the output (rules may merge equal literals into a
    constant or drop an unused duplicate, they may not alter a value) and f-strings evaluate to the same text"""
    import pyrefact
    P.quiet()
    try:
        want = literal_values(src)
    except (SyntaxError, ValueError):
        return 0, []
    fails = []
    n = 0
    for kw in ({}, {"safe": True}, {"max_line_length": 60}):
        r = P.guarded(lambda s: pyrefact.format_code(s, **kw), src, 120)
        if r[0] != "ok":
            continue
        n += 1
        try:
            got = literal_values(r[1])
        except (SyntaxError, ValueError):
            fails.append({"cls": "invalid:format_code", "what": f"format_code({kw}): result does not parse"})
            continue
        lost = [v for v in want if v not in got and len(v) > 4]
        if lost:
            near = [g for g in got if g.replace(" ", "").replace("\\t", "").replace("\\n", "") == lost[0].replace(" ", "").replace("\\t", "").replace("\\n", "")]
            if near:
                fails.append({"cls": "literal-value-changed:format_code", "what": f"format_code({kw}): literal {lost[0]} became {near[0]} (same text up to whitespace)", "output": r[1]})
    return n, fails


def generated(tier, rnd):
    lits = []
    for prefix, content, triple in itertools.product(PREFIXES, CONTENTS, (False, True)):
        l = literal(prefix, content, triple)
        if l is None:
            continue
        try:
            v = ast.literal_eval(l) if "f" not in prefix.lower() else None
        except Exception:  # noqa: BLE001
            continue
        lits.append(l)
    out = []
    for fr in FRAMES:
        for l in (lits if tier == "thorough" else rnd.sample(lits, min(len(lits), 40))):
            out.append(fr.replace("{L}", l))
    return out


def run(tier, seed):
    rnd = random.Random(seed)
    gen = SPECIAL_MODULES + generated(tier, rnd)
    corpus = P.corpus()
    cor = rnd.sample(corpus, 150 if tier == "quick" else len(corpus))
    r1 = P.pool_map(work, gen, chunksize=8)
    r2 = P.pool_map(work, cor, chunksize=4)
    fc_inputs = gen if tier == "thorough" else SPECIAL_MODULES + rnd.sample(gen, min(len(gen), 200))
    r3 = P.pool_map(work_format_code, fc_inputs, chunksize=4)
    out = []
    for name, inputs, res, space in (("c11-generated-literals", gen, r1, f"{len(gen)} modules = {len(FRAMES)} frames x literals ({len(PREFIXES)} prefixes x {len(CONTENTS)} contents x single / triple quoted, those expressible)"),
                                     ("c11-corpus", cor, r2, f"{len(cor)} corpus modules")):
        fl, n = [], 0
        for s, (cnt, fs) in zip(inputs, res):
            n += cnt
            for f in fs:
                fl.append({"id": f"{f['cls']}::{P.sha(s)}", "cls": f["cls"], "input": s, "observed": f["what"], "required": "same syntax tree, same literal values (docstring whitespace excepted)"})
        out.append({"name": name, "function": "str.expandtabs, rmspace.format_str, fixes.fix_too_many_blank_lines, fix_line_lengths, sort_imports, fix_import_spacing, processing.minimize_whitespace_line_differences, layout sequence of format_code",
                    "contract": "ast.dump(parse(stage(s))) == ast.dump(parse(s)), docstring whitespace normalised", "space": space + " x 10 stages", "bound": "enumerated literals x frames; corpus sample",
                    "evaluations": n, "distinct_nontrivial": len(inputs), "exhaustive": tier == "thorough" and name.startswith("c11-gen"), "failures": P.cap(fl), "samples": [inputs[0][:200]]})
    fl, n = [], 0
    for s_, (cnt, fs) in zip(fc_inputs, r3):
        n += cnt
        for f in fs:
            fl.append({"id": f"{f['cls']}::{P.sha(s_)}", "cls": f["cls"], "input": s_, "observed": f["what"], "output": f.get("output"), "required": "a literal's value is never altered by whitespace handling"})
    out.append({"name": "c11-format-code-literals", "function": "main.format_code", "contract": "no str / bytes literal of the input reappears in the output with only its whitespace changed",
                "space": f"{len(fc_inputs)} generated modules x (default, safe, max_line_length=60)", "bound": "enumerated literals x frames", "evaluations": n, "distinct_nontrivial": len(fc_inputs),
                "exhaustive": tier == "thorough", "failures": P.cap(fl), "samples": [fc_inputs[0][:200]]})
    return out


if __name__ == "__main__":
    import collections
    import json
    import sys
    for r in run(sys.argv[1] if len(sys.argv) > 1 else "quick", 0):
        print(json.dumps({k: v for k, v in r.items() if k not in ("failures", "samples")}, indent=1)[:700])
        c = collections.Counter(f["cls"] for f in r["failures"])
        print(c)
        seen = collections.Counter()
        for f in r["failures"]:
            seen[f["cls"]] += 1
            if seen[f["cls"]] <= 2:
                print("  ", f["id"], "|", repr(f["input"])[:300], "|", f["observed"][:300])
