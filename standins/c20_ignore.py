"""Bounded stand-in for C20: run-time contract of format_code / format_file / stdin mode on annotated inputs.

(1) one physical code line of a corpus module gets `# pyrefact: ignore`; contract: that line is present verbatim in
    format_code(input).  (2) a `# pyrefact: skip_file` comment anywhere; contract: library, file and stdin entry points
    hand the text back byte-for-byte (stdin mode included), and the file is not rewritten.
(3) core.has_ignore_comment against an independent line scan on enumerated (text, range) pairs, last line included.
"""
import ast
import contextlib
import io
import json
import multiprocessing as mp
import os
import random
import re
import tokenize

VERIF = os.path.dirname(os.path.dirname(os.path.abspath(__file__)))


def corpus():
    return [c["src"] for c in json.load(open(os.path.join(VERIF, "corpus", "snippets.json")))]


def code_lines(src):
    """physical lines that hold code and can take a trailing comment"""
    ok = set()
    try:
        toks = list(tokenize.generate_tokens(io.StringIO(src).readline))
    except Exception:
        return []
    strlines = set()
    for t in toks:
        if t.type in (tokenize.STRING, getattr(tokenize, "FSTRING_MIDDLE", -1)) and t.start[0] != t.end[0]:
            strlines.update(range(t.start[0], t.end[0] + 1))
    for t in toks:
        if t.type in (tokenize.NAME, tokenize.OP, tokenize.NUMBER):
            ok.add(t.start[0])
    lines = src.splitlines()
    return [l for l in sorted(ok) if l not in strlines and l <= len(lines) and not lines[l - 1].rstrip().endswith("\\") and "#" not in lines[l - 1]]


def annotate_cases(src, max_lines, rnd):
    lines = src.splitlines(keepends=True)
    cl = code_lines(src)
    if max_lines is not None and len(cl) > max_lines:
        last = cl[-1]
        cl = sorted(set(rnd.sample(cl, max_lines - 1) + [last]))     # the last code line is always included
    out = []
    for ln in cl:
        l2 = list(lines)
        raw = l2[ln - 1].rstrip("\n")
        nl = "\n" if l2[ln - 1].endswith("\n") else ""
        # the plain form, and forms whose whitespace the layout stages would touch (a tab before the comment, trailing blanks, spacing variant)
        forms = ["  # pyrefact: ignore"] + (["\t# pyrefact: ignore", "  # pyrefact: ignore   ", "  #pyrefact:ignore"] if ln % 4 == 0 else [])
        for form in forms:
            l3 = list(l2)
            l3[ln - 1] = raw + form + nl
            s2 = "".join(l3)
            try:
                ast.parse(s2)
            except SyntaxError:
                continue
            out.append((s2, raw + form, ln))
    return out


def work_ignore(case):
    import pyrefact
    from pyrefact import logs
    logs.set_level(100)
    s2, want, ln = case
    try:
        with contextlib.redirect_stdout(io.StringIO()), contextlib.redirect_stderr(io.StringIO()):
            r = pyrefact.format_code(s2)
    except BaseException as ex:  # noqa: BLE001
        return {"cls": f"raises:{type(ex).__name__}", "what": f"format_code raised {type(ex).__name__}: {str(ex)[:100]} (line {ln} annotated)"}
    out_lines = re.split(r"\r\n|\r|\n", r)          # lines as the parser sees them: a form feed does not end a line
    if want not in out_lines:
        kind = "reindented" if want.strip() in [x.strip() for x in out_lines] else "changed-or-removed"
        return {"cls": kind, "what": f"annotated line {ln} {want!r} is not carried over verbatim ({kind})", "output": r}
    return None


def work_skip(src):
    """skip_file: all three entry points"""
    import subprocess
    import sys
    import tempfile
    import pyrefact
    import importlib
    from pyrefact import logs
    pmain = importlib.import_module("pyrefact.main")
    logs.set_level(100)
    fails = []
    for variant in (src.rstrip("\n") + "\n# pyrefact: skip_file\n", "# pyrefact: skip_file\n" + src, src.replace("\n", "  # pyrefact: skip_file\n", 1),
                    "#pyrefact:skip_file\n" + src, "#!/usr/bin/env python\n\"\"\"doc\"\"\"\n\n#  pyrefact :  skip_file\n" + src, src.rstrip("\n") + "\n# pyrefact: skip_file"):
        for kw in ({}, {"safe": True}, {"keep_imports": True}):
            try:
                out = pyrefact.format_code(variant, **kw)
            except BaseException as ex:  # noqa: BLE001
                fails.append({"cls": "skip:raises", "what": f"format_code raised {type(ex).__name__}"})
                continue
            if out != variant:
                fails.append({"cls": "skip:format_code", "what": f"format_code({kw}) changed a skip_file text", "input": variant})
        with tempfile.TemporaryDirectory() as d:
            p = os.path.join(d, "m.py")
            with open(p, "w", encoding="utf-8") as f:
                f.write(variant)
            st = os.stat(p).st_mtime_ns
            try:
                changed = pmain.format_file(p)
            except BaseException as ex:  # noqa: BLE001
                fails.append({"cls": "skip:raises", "what": f"format_file raised {type(ex).__name__}"})
                continue
            if changed or open(p, encoding="utf-8").read() != variant or os.stat(p).st_mtime_ns != st:
                fails.append({"cls": "skip:format_file", "what": "format_file rewrote / reported a change for a skip_file text", "input": variant})
    # the file entry points on BYTES: every mixture of line endings, a byte order mark, a final line without line break
    base = "# pyrefact: skip_file\n" + src
    lines = base.split("\n")
    byte_variants = {
        "crlf": "\r\n".join(lines), "cr": "\r".join(lines), "mixed-crlf-then-lf": "\r\n".join(lines[:2]) + "\n" + "\n".join(lines[2:]),
        "mixed-lf-then-crlf": "\n".join(lines[:2]) + "\r\n" + "\r\n".join(lines[2:]), "one-stray-cr": base.replace("\n", "\r\n", 1).replace("\n", "\r", 1) if base.count("\n") > 2 else base,
        "bom": "\ufeff" + base, "no-final-newline": base.rstrip("\n"), "crlf-no-final-newline": "\r\n".join(lines).rstrip("\r\n"),
    }
    for label, text in byte_variants.items():
        data = text.encode("utf-8")
        with tempfile.TemporaryDirectory() as d:
            p = os.path.join(d, "m.py")
            with open(p, "wb") as f:
                f.write(data)
            for entry in ("format_file", "format_files", "main"):
                try:
                    if entry == "format_file":
                        changed = pmain.format_file(p)
                    elif entry == "format_files":
                        changed = pmain.format_files([p], n_cores=1) if False else None      # pools cannot be started from a pool worker: covered by `main` in a subprocess
                    else:
                        q = subprocess.run([sys.executable, "-c", "import sys; sys.path.insert(0, %r); import importlib; m = importlib.import_module('pyrefact.main'); sys.exit(m.main(sys.argv[1:]))" % os.environ.get("PYREFACT_REPO", "/repo"),
                                            p, "--n_cores", "1"], capture_output=True, text=True, timeout=300)
                        changed = None
                except BaseException as ex:  # noqa: BLE001
                    changed = None        # raising is C04's subject; the bytes on disk are what C20 is about
                now = open(p, "rb").read()
                if now != data or changed:
                    fails.append({"cls": f"skip:bytes:{entry}", "what": f"{entry} on a skip_file file with {label} line ends / marks: bytes changed or a change was reported ({data[:60]!r} -> {now[:60]!r})", "input": text})
                    break
    # stdin mode (one subprocess per variant): echoed byte-for-byte
    repo = os.environ.get("PYREFACT_REPO", "/repo")
    for variant in ("# pyrefact: skip_file\n" + src, src.rstrip("\n") + "\n# pyrefact: skip_file"):
        p = subprocess.run([sys.executable, "-c", "import sys; sys.path.insert(0, %r); import importlib; main = importlib.import_module('pyrefact.main'); sys.exit(main.main(['--from-stdin']))" % repo],
                           input=variant, capture_output=True, text=True, timeout=120)
        if p.returncode != 0 or p.stdout != variant:
            fails.append({"cls": "skip:stdin", "what": f"stdin mode did not echo a skip_file text unchanged (rc={p.returncode}): {p.stdout[-40:]!r} vs {variant[-40:]!r}", "input": variant})
    return fails


def ref_has_ignore(source, start, end):
    import re
    pat = re.compile(r"#\s*pyrefact\s*:\s*(skip_file|ignore)")
    off = 0
    for line in source.splitlines(keepends=True):
        a, b = off, off + len(line)
        off = b
        if start < b and a < end and pat.search(line):
            return True
    return False


def work_has_ignore(_):
    from pyrefact import core
    texts = ["a = 1\nb = 2  # pyrefact: ignore\nc = 3\n", "a = 1\nb = 2\nc = 3  # pyrefact: ignore\n", "a = 1\nb = 2\nc = 3  # pyrefact: ignore",
             "x = 1  #pyrefact:ignore\ny = 2\n", "x = 1\n\n\ny = 2 # pyrefact : skip_file\n", "only  # pyrefact: ignore", "", "a\n", "p = 1  # pyrefact: ignore\r\nq = 2\r\n"]
    fails, n = [], 0
    for t in texts:
        for s in range(0, len(t) + 1):
            for e in range(s, len(t) + 2):
                n += 1
                got = core.has_ignore_comment(t, core.Range(s, e))
                if got != ref_has_ignore(t, s, e):
                    fails.append({"cls": "has_ignore_comment", "what": f"has_ignore_comment({t!r}, Range({s}, {e})) == {got}, line scan says {not got}"})
                    break
            else:
                continue
            break
    return n, fails


# hand-written cases (source, annotated line as it must reappear, its line number): the annotated line is a neighbour of what a rule removes
# or moves (trailing semicolon, duplicate import), carries a form feed, has CRLF line ends, sits in an if/else whose other branch is rewritten
HAND_CASES = [
    ("def f(xs):\n    for x in xs:\n        print(x)\n        y = 100;\n    print(y)  # pyrefact: ignore\nf([1])\n", "    print(y)  # pyrefact: ignore", 5),
    ("import os\nif os.name == 'nt':\n    import yaml\n    import yaml;\nprint(os, yaml)  # pyrefact: ignore\n", "print(os, yaml)  # pyrefact: ignore", 5),
    ("def f():\n    from yaml import load\n    from yaml import dump;\nprint(f)  # pyrefact: ignore\n", "print(f)  # pyrefact: ignore", 4),
    ("try:\n    import yaml\n    import yaml;\nexcept ImportError:  # pyrefact: ignore\n    yaml = None\n", "except ImportError:  # pyrefact: ignore", 4),
    ("if False: print(1) \x0c # pyrefact: ignore\nprint(2)\n", "if False: print(1) \x0c # pyrefact: ignore", 1),
    ("import sys\ny = len(sys.argv) \x0c # pyrefact: ignore\nprint(2)\n", "y = len(sys.argv) \x0c # pyrefact: ignore", 2),
    ("def f(x):\n    if x:\n        y = 1  # pyrefact: ignore\n    else:\n        y = 2\n    return y\n\n\nprint(f(1))\n", "        y = 1  # pyrefact: ignore", 3),
    ("x = 1  # pyrefact: ignore\nprint(os.getcwd(), x)\n", "x = 1  # pyrefact: ignore", 1),
    ("def f(a):\n    b = a  # pyrefact: ignore\n    return b\n\n\ndef g(a):\n    b = a\n    return b\n\n\nprint(f(1), g(2))\n", "    b = a  # pyrefact: ignore", 2),
]


# the annotated line is NOT the line a node's `lineno` points at: a decorator line, a continuation line or the last line of a definition
# that a deleting / merging / moving rule would otherwise take away (direct-editing rules and scheduled rules alike)
_DUP = "import functools\n\n\n@functools.lru_cache(maxsize=None)\ndef first(x):\n    return x * 2 + 1\n\n\n{dec}\ndef second(x):{c1}\n    return x * 2 + 1{c2}\n\n\nprint(first(1), second(2))\n"
_IGN = "  # pyrefact: ignore"
for _src, _line in [
    (_DUP.format(dec="@functools.lru_cache(maxsize=None)" + _IGN, c1="", c2=""), "@functools.lru_cache(maxsize=None)" + _IGN),
    (_DUP.format(dec="@functools.lru_cache(\n    maxsize=None," + _IGN + "\n)", c1="", c2=""), "    maxsize=None," + _IGN),
    (_DUP.format(dec="@functools.lru_cache(maxsize=None)", c1=_IGN, c2=""), "def second(x):" + _IGN),
    (_DUP.format(dec="@functools.lru_cache(maxsize=None)", c1="", c2=_IGN), "    return x * 2 + 1" + _IGN),
    ("import functools\n\n\n@functools.wraps(print)" + _IGN + "\ndef unused_helper(x):\n    return x\n\n\nprint(1)\n", "@functools.wraps(print)" + _IGN),
    ("import dataclasses\n\n\n@dataclasses.dataclass" + _IGN + "\nclass UnusedRecord:\n    x: int = 0\n\n\nprint(1)\n", "@dataclasses.dataclass" + _IGN),
    ("class K:\n    @staticmethod" + _IGN + "\n    def helper(x):\n        return x + 1\n\n    def run(self):\n        return K.helper(1)\n\n\nprint(K().run())\n", "    @staticmethod" + _IGN),
    ("class K:\n    @property" + _IGN + "\n    def value(self):\n        return 1\n\n\nprint(K().value)\n", "    @property" + _IGN),
    ("def f(x):\n    return x\n    print(\n        x," + _IGN + "\n    )\n\n\nprint(f(1))\n", "        x," + _IGN),
    ("def f(x):\n    (x +\n     1)" + _IGN + "\n    return x\n\n\nprint(f(1))\n", "     1)" + _IGN),
    ("from os import (\n    path," + _IGN + "\n    sep,\n)\n\nprint(sep)\n", "    path," + _IGN),
    ("import os\n\n\ndef f():\n    import json, \\\n        sys" + _IGN + "\n    return json, sys, os\n\n\nprint(f())\n", "        sys" + _IGN),
    ("x = [\n    1," + _IGN + "\n    2,\n]\nx = 3\nprint(x)\n", "    1," + _IGN),
]:
    HAND_CASES.append((_src, _line, _src.split("\n").index(_line) + 1))
# a character that str.splitlines takes for a line break - and the parser does not - AFTER the comment, followed by trailing blanks
for _sep in ("\x1c", "\x1d", "\x1e", "\x85", "\u2028", "\u2029", "\x0b", "\x0c"):
    _line = "x = 1  # pyrefact: ignore " + _sep + " note  "
    HAND_CASES.append(("import os\n" + _line + "\ny = not not x\nprint(y)\n", _line, 2))


def run(tier, seed):
    rnd = random.Random(seed)
    srcs = corpus()
    per = 4 if tier == "quick" else None
    cases = [c for c in HAND_CASES]
    for s in srcs:
        cases += annotate_cases(s, per, rnd)
    skip_srcs = rnd.sample(srcs, 12 if tier == "quick" else 60)
    ctx = mp.get_context("fork")
    with ctx.Pool(16, maxtasksperchild=50) as pool:
        r1 = pool.map(work_ignore, cases, chunksize=4)
        r2 = pool.map(work_skip, skip_srcs, chunksize=1)
        n3, f3 = pool.apply(work_has_ignore, (0,))
    import hashlib
    fl = []
    for (s2, want, ln), r in zip(cases, r1):
        if r:
            fl.append({"id": f"{r['cls']}::{hashlib.sha1(s2.encode()).hexdigest()[:10]}:{ln}", "cls": r["cls"], "input": s2, "observed": r["what"], "output": r.get("output"),
                       "required": "the annotated line is carried over verbatim (C20)"})
    out = [{"name": "c20-ignore-line", "function": "main.format_code (whole pipeline)", "contract": "a line carrying `# pyrefact: ignore` is present verbatim in the output",
            "space": f"{len(srcs)} corpus modules x " + ("up to 4 code lines each chosen by seed, last code line always included" if per else "every code line"),
            "bound": "one annotated line per case", "evaluations": len(cases), "distinct_nontrivial": len({c[0] for c in cases}), "exhaustive": per is None,
            "failures": _cap(fl), "samples": [cases[0][0][:300], cases[-1][0][:300]]}]
    fl = []
    for s, r in zip(skip_srcs, r2):
        for f in r:
            fl.append({"id": f"{f['cls']}::{hashlib.sha1(s.encode()).hexdigest()[:10]}", "cls": f["cls"], "input": f.get("input", s), "observed": f["what"], "required": "skip_file text returned byte-for-byte"})
    for f in f3:
        fl.append({"id": f"has_ignore_comment::{f['what'][:60]}", "cls": f["cls"], "input": None, "observed": f["what"], "required": "true iff an overlapped line is marked"})
    out.append({"name": "c20-skip-file-and-detector", "function": "main.format_code / format_file / main(--from-stdin); core.has_ignore_comment",
                "contract": "skip_file text unchanged by all entry points, file not rewritten; has_ignore_comment == independent line scan",
                "space": f"{len(skip_srcs)} corpus modules x 3 placements of the comment x 3 option sets x 3 entry points; has_ignore_comment on 9 texts x all (start, end) pairs",
                "bound": "corpus sample", "evaluations": len(skip_srcs) * 13 + n3, "distinct_nontrivial": len(skip_srcs) * 3 + 9, "exhaustive": False, "failures": _cap(fl), "samples": [skip_srcs[0][:200]]})
    return out


def _cap(fl, per_cls=5):
    seen, out = {}, []
    for f in fl:
        seen[f["cls"]] = seen.get(f["cls"], 0) + 1
        if seen[f["cls"]] <= per_cls:
            out.append(f)
    return out


if __name__ == "__main__":
    import sys
    import collections
    for r in run(sys.argv[1] if len(sys.argv) > 1 else "quick", 0):
        print(json.dumps({k: v for k, v in r.items() if k not in ("failures", "samples")}, indent=1)[:800])
        print(collections.Counter(f["cls"] for f in r["failures"]))
        for f in r["failures"][:12]:
            print("  ", f["cls"], "|", f["observed"][:200], "|", repr(f["input"])[:300])
