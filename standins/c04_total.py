"""Bounded stand-in for C04: run-time contract "format_code returns a str, raises nothing, within a time limit; invalid input
comes back with at most whitespace changes" on adversarial inputs, plus totality of the naming helpers.

Spaces: adversarial constant expressions (division by zero, ill-typed operators, huge powers, non-iterables) in every
position the tool evaluates constants; every statement kind as the LAST statement of module / function / loop, with and
without a trailing newline; syntactically invalid and indented inputs; option combinations.
"""
import itertools
import random
import re

from . import pipeline as P

ADVERSARIAL = ["1 / 0", "1 % 0", "1 // 0", "1 < 'a'", "'a' < 1", "1 in 2", "[] + ()", "-'a'", "not 1 / 0", "0 ** -1", "9 ** 9 ** 9", "1 << 10 ** 6", "2 ** 2 ** 20", "len(5)", "int('x')", "max()",
               "min([])", "sum('ab')", "sorted([1, 'a'])", "abs('a')", "''.join(1)", "'a'.foo()", "(1).real()", "float('nan') < 1", "(1,) < [1]", "{1} < 2", "None > None", "1 < 2 < 'a'", "0 < 1 / 0 < 2",
               "1 and 1 / 0", "0 or 1 / 0", "print('side effect')", "exit(0)", "input()", "open('/nonexistent')", "__import__('os')", "eval('1')", "5", "None", "...", "[1, 2][5]", "{}['k']", "'abc'[10]",
               "list(range(10 ** 9))" if False else "range(10 ** 9)", "'a' * 3", "f'{1 / 0}'", "lambda: 1 / 0", "(x for x in 5)", "[x for x in 5]", "{**1}", "[*5]", "1 if 1 / 0 else 2", "~'a'", "1 @ 2",
               # symbolic / degenerate iteration spaces of the closed-form rules
               "(x for x in range(1, n, 3))", "[x * x for x in range(0, n, 2)]", "(x for x in range(1, 10, 0))", "(x for x in range(n, 1, -2))", "[x for x in range(1.5)]", "(x * y for x in range(3) for y in range(x))",
               "range(1, 10, 0)", "range(0, 10, n)", "(1 / x for x in range(3))", "[x ** n for x in range(1, 4)]"]
# import statements in unusual but valid combinations (the sorting / merging / hoisting / tracing rules must not crash on them)
IMPORT_FORMS = ["from os import path, path as osp\nprint(path, osp)", "from os import path\nfrom os import path as osp\nprint(path, osp)", "import os, os as o\nprint(os, o)", "import os.path, os.path as p\nprint(os, p)",
                "from os import (path as a, path as b, path)\nprint(a, b, path)", "from . import a, a as b", "from .. import x as y, x", "from __main__ import *\nprint(x)", "from __future__ import annotations\nimport os\nprint(os)",
                "import os\nimport os\nimport os as os\nprint(os)", "from os import *\nfrom os import path\nprint(path, sep)", "from foo import bar\nfrom foo import baz\nprint(bar, baz)",
                "import sys\ndef g():\n    from foo import bar\n    return bar\nprint(g())\nfrom foo import baz", "from collections import abc as abc, abc\nprint(abc)", "import a.b.c, a.b, a\nprint(a)",
                "from os import path as path\nprint(path)", "from os import (\n    path,\n    sep,\n)\nprint(path, sep)", "import os; import sys; from os import path\nprint(os, sys, path)",
                "try:\n    import tomllib\nexcept ImportError:\n    import tomli as tomllib\nprint(tomllib)", "if True:\n    import os\nelse:\n    import sys as os\nprint(os)"]
POSITIONS = ["if {e}:\n    print(1)\nelse:\n    print(2)\n", "while {e}:\n    print(1)\n    break\n", "assert {e}\nprint(3)\n", "def g():\n    return 1\nx = {e} and g()\nprint(x)\n",
             "y = [1, 2]\nz = [a for a in y if {e}]\nprint(z)\n", "x = 1 if {e} else 2\nprint(x)\n", "for i in {e}:\n    print(i)\nprint(4)\n", "x = not ({e})\nprint(x)\n",
             "def h():\n    if {e}:\n        return 1\n    return 2\nprint(h())\n", "x = sum({e})\nprint(x)\n", "x = {e} == {e}\nprint(x)\n", "x = [i for i in range({e}) if i > 2]\nprint(x)\n"]
LAST_STATEMENTS = ["x = 1", "print(1)", "return 1", "pass", "raise ValueError()", "del x", "assert x", "import os", "from os import path", "global g", "x += 1", "x: int = 1", "break", "continue",
                   "if x:\n    a = 1\n    b = 2\nelse:\n    a = 3\n    b = 2", "if x:\n    print(1)\n    print(9)\nelse:\n    print(2)\n    print(9)", "for i in y:\n    print(i)", "while x:\n    x -= 1",
                   "with open(f) as s:\n    d = s.read()", "try:\n    x()\nexcept ValueError:\n    raise", "try:\n    x()\nfinally:\n    y()", "def inner():\n    return 1", "class K:\n    pass",
                   "lambda: 0", "x = [i for i in y]", "yield x", "x = yield", "await x", "async def co():\n    await z", "match x:\n    case 1:\n        pass", "x = f'{y!r:>10}'", "print(*a, **k)",
                   "s = open(f)\nd = s.read()\ns.close()", "if x:\n    return 1\nelse:\n    return 2", "x = y if z else w", "nonlocal_like = 1", "type X = int", "@dec\ndef deco():\n    pass"]
INVALID = ["x = (", "def f(:\n    pass\n", "if x\n    y\n", "  x = 1\n y = 2\n", "return", "a b c", "print 'py2'", "x = = 1", "\tif x:\n  y\n", "class", "'''unterminated", "f(", "1 +", "x = 1\n  y = 2\n", "\x00",
           "else:\n    pass\n", "[1, 2", "lambda", "def", "@", "x ==== y\n\n\n\nz"]


# shapes that made some rule raise or run for ever on an earlier tree (spelling of else, several type definitions in one assignment, names
# without ASCII letters, statements sharing a line, one-line if bodies in loops, form feeds, tabs with tab-containing strings, blank-line runs)
REPORTED = [
    "def f(x):\n    if x:\n        return 1\n    else :\n        return 2\nprint(f(1))\n", "def f(x):\n    if x:\n        return 1\n    else\t:\n        return 2\nprint(f(1))\n",
    "def f(x):\n    if x:\n        return 1\n    else \\\n        :\n        return 2\nprint(f(1))\n",
    "from typing import TypeVar, List, Dict\nT, U = TypeVar('T'), TypeVar('U')\nIntList, StrDict = List[int], Dict[str, str]\nfirst, *rest = List, 1, 2\nprint(T, U, IntList, StrDict, first, rest)\n",
    "\u53d8\u91cf = 1\nprint(\u53d8\u91cf)\n", "def \u51fd\u6570():\n    return 1\n\n\nprint(\u51fd\u6570())\n", "gr\u00f6\u00dfe = 1\nprint(gr\u00f6\u00dfe)\n", "class \u00d1and\u00fa:\n    pass\n\n\nprint(\u00d1and\u00fa)\n",
    "import os; import os; x = 1; print(x)\n", "x = 1; print(x); x = 2; print(x)\n",
    "for x in xs:\n    if x: print(1)\n    else:\n        a()\n        b()\n        c()\n", "for x in xs:\n    if x: print(1); print(2)\n    else:\n        a()\n        b()\n        c()\n",
    "\x0c\ndef f(xs):\n    for x in xs:\n        y = 100\n        print(x, y)\n", "def f(a):\n\ts = 'a\tb'\n\tfor i in a:\n\t\tk = 10\n\t\tprint(i, k, s)\n",
    'X = """a' + "\n" * 40 + 'b"""\nprint(X)\n', "def f():\n    x = 1" + "\n" * 40 + "    return x\n" + "\n" * 40, "type X = int\nprint(X)\n", "def f[T](x: T) -> T:\n    return x\n\n\nprint(f(1))\n",
    "def factorial_of_number(n):\n    return n * factorial_of_number(n - 1) if n else 1\n\n\ndef g(n):\n    return n * g(n - 1) if n else 1\n\n\nprint(factorial_of_number(3), g(3))\n",
    "from __future__ import (\n    annotations,\n)\nprint(os.getcwd())\n", "# comment\nx = 1 + \\\n    2\nprint(os.getcwd(), x)\n", "s = 'a\x0cb'\nprint(os.getcwd(), s)\n",
    "def f(): return\nfor pat in ['return {{x}}']:\n    print(pat)\n",
    # identifiers the parser normalises (NFKC): the name in the tree is not the name in the text
    "def \ufb01leName():\n    return 1\n\nprint(\ufb01leName())\n", "class \ufb01:\n    pass\n", "class \ufb01leKind:\n    def \ufb03Name(self):\n        return 1\n\n\nprint(\ufb01leKind().\ufb03Name())\n",
    "\uff56\uff41\uff52Name = 1\nprint(\uff56\uff41\uff52Name)\n", "def f(\ufb01rstArg):\n    secondVal = \ufb01rstArg\n    return secondVal\n\n\nprint(f(1))\n", "import os as \ufb01le\nprint(\ufb01le.sep)\n",
    # text that cannot be encoded / that the parser refuses for its depth: not valid Python, handed back
    "x = '\ud800'\nprint(x)\n", "# \udcff\nx = 1\n", "x = " + "+".join(["a"] * 3000) + "\n", "x = " + "(" * 300 + "1" + ")" * 300 + "\n", "x = " + "[" * 150 + "]" * 150 + "\n",
]


def containers(stmt):
    ind4 = "\n".join("    " + l for l in stmt.split("\n"))
    ind8 = "\n".join("        " + l for l in stmt.split("\n"))
    return [stmt, f"def f(x, y, z, w, f, a, k):\n{ind4}", f"def f(x, y, z, w, f, a, k):\n    for q in y:\n{ind8}", f"class C:\n    def m(self, x, y, z, w, f, a, k):\n{ind8}", f"for q in range(3):\n{ind4}",
            f"if __name__ == '__main__':\n{ind4}", f"async def f(x, y, z, w, f, a, k):\n{ind4}"]


def inputs(tier, seed):
    rnd = random.Random(seed)
    out = []
    for e in ADVERSARIAL:
        for p in (POSITIONS if tier == "thorough" else rnd.sample(POSITIONS, 5)):
            out.append(("adversarial-constant", p.format(e=e), True))
    for st in LAST_STATEMENTS:
        for c in containers(st):
            for nl in ("\n", ""):
                out.append(("last-statement", c + nl, None))
    for imp in IMPORT_FORMS:
        for tail in ("print(1)\n", ""):
            out.append(("imports", imp + "\n" + tail, True))
            out.append(("imports-indented", "\n".join("    " + l for l in (imp + "\n" + tail).splitlines()) + "\n", None))
            out.append(("imports-in-function", "def f():\n" + "\n".join("    " + l for l in imp.splitlines()) + "\n    return 1\n\n\nprint(f())\n" + imp + "\n", True))
    for s in REPORTED:
        out.append(("reported-shape", s, True))
    for s in INVALID:
        out.append(("invalid", s, False))
    srcs = P.corpus()
    for f in P.fragments(srcs, rnd, 30 if tier == "quick" else 200):
        out.append(("indented-fragment", f, None))
    for s in rnd.sample(srcs, 40 if tier == "quick" else len(srcs)):
        out.append(("corpus", s, True))
        out.append(("corpus-no-trailing-newline", s.rstrip("\n"), True))
    return out


OPTS = [{}, {"safe": True}, {"keep_imports": True}, {"preserve": frozenset({"f", "C", "x"})}, {"preserve": ("f", "y")}, {"preserve": ["x"], "safe": True}]


MONITOR = {"calls": 0, "out_of_range": [], "end_before_start": 0, "installed": False}


def install_position_monitor():
    """run-time check of the ASSUMED precondition of core.get_charnos (the parser position contract of contracts/c_core_geometry.py) at its
    real call sites: rules also pass nodes they built themselves.  lineno < 1 / col_offset < 0 index from the end of the line table
    (the proved safety obligations are void there): reported.  end before start only occurs for insertions, whose end is not used: counted."""
    from pyrefact import core
    if MONITOR["installed"]:
        return
    real = core.get_charnos

    def monitored(node, source, keep_first_indent=False):
        MONITOR["calls"] += 1
        ln = getattr(node, "lineno", None)
        if isinstance(ln, int):
            nl = max(len(source.splitlines(keepends=True)), 1)
            if not (1 <= ln <= nl + 1) or getattr(node, "col_offset", 0) < 0:
                MONITOR["out_of_range"].append(f"{type(node).__name__} lineno={ln} col_offset={getattr(node, 'col_offset', None)} in a text of {nl} lines")
            elif getattr(node, "end_lineno", None) is not None and node.end_lineno < ln:
                MONITOR["end_before_start"] += 1
        return real(node, source, keep_first_indent)
    core.get_charnos = monitored
    MONITOR["installed"] = True


def work(item):
    import pyrefact
    P.quiet()
    install_position_monitor()
    kind, src, _ = item
    fails = []
    for kw in OPTS:
        MONITOR["out_of_range"].clear()
        r = P.guarded(lambda s: pyrefact.format_code(s, **kw), src, 120)
        if MONITOR["out_of_range"]:
            fails.append({"cls": "position-contract:out-of-range", "what": f"format_code({','.join(sorted(kw)) or 'default'}): core.get_charnos was called with {MONITOR['out_of_range'][0]} "
                          "(the index into the line table wraps around: the node is placed relative to the END of the text)"})
        tag = ",".join(sorted(kw)) or "default"
        if r[0] == "raises":
            fails.append({"cls": f"raises:{r[1].split(':')[0]}", "what": f"format_code({tag}) raised {r[1]}"})
        elif r[0] == "timeout":
            fails.append({"cls": "timeout", "what": f"format_code({tag}) did not return within {r[1]} s"})
        elif not isinstance(r[1], str):
            fails.append({"cls": "nonstr", "what": f"format_code({tag}) returned {type(r[1]).__name__}"})
        elif not P.is_valid(src) and not P.is_valid(__import__("textwrap").dedent(src)):
            if re.sub(r"\s+", "", r[1]) != re.sub(r"\s+", "", src.expandtabs(4)):
                fails.append({"cls": "invalid-input-altered", "what": f"format_code({tag}) changed more than whitespace of a syntactically invalid input", "output": r[1]})
    return fails


def work_style(args):
    from pyrefact import style
    name = args
    fails = []
    import keyword
    for static, private in itertools.product((False, True), repeat=2):
        try:
            v = style.rename_variable(name, static=static, private=private)
            if not (isinstance(v, str) and v.isidentifier()) or keyword.iskeyword(v):
                fails.append({"cls": "style:rename_variable:not-an-identifier", "what": f"rename_variable({name!r}, static={static}, private={private}) == {v!r}"})
        except Exception as ex:  # noqa: BLE001
            fails.append({"cls": f"style:rename_variable:raises:{type(ex).__name__}", "what": f"rename_variable({name!r}, static={static}, private={private}) raised {type(ex).__name__}: {ex}"})
    for private in (False, True):
        try:
            v = style.rename_class(name, private=private)
            if not (isinstance(v, str) and v.isidentifier()) or keyword.iskeyword(v):
                fails.append({"cls": "style:rename_class:not-an-identifier", "what": f"rename_class({name!r}, private={private}) == {v!r}"})
        except Exception as ex:  # noqa: BLE001
            fails.append({"cls": f"style:rename_class:raises:{type(ex).__name__}", "what": f"rename_class({name!r}, private={private}) raised {type(ex).__name__}: {ex}"})
    return fails


def identifiers(maxlen):
    alpha = "aA_1bZ"
    out = []
    for n in range(1, maxlen + 1):
        for t in itertools.product(alpha, repeat=n):
            s = "".join(t)
            if s.isidentifier():
                out.append(s)
    return out


def run(tier, seed):
    items = inputs(tier, seed)
    res = P.pool_map(work, items, chunksize=2)
    idents = identifiers(4 if tier == "quick" else 5)
    sres = P.pool_map(work_style, idents, chunksize=200)
    fl = []
    for (kind, src, _), rs in zip(items, res):
        for r in rs:
            fl.append({"id": f"{r['cls']}::{kind}::{P.sha(src)}", "cls": r["cls"], "input": src, "observed": f"[{kind}] " + r["what"], "output": r.get("output"),
                       "required": "format_code returns a str, raises nothing, terminates; invalid input unchanged up to whitespace; positions handed to get_charnos lie inside the text"})
    kinds = {}
    for k, _, _ in items:
        kinds[k] = kinds.get(k, 0) + 1
    out = [{"name": "c04-total", "function": "main.format_code", "contract": "str result, no exception, <= 120 s; invalid input handed back up to whitespace; every node handed to core.get_charnos has 1 <= lineno <= lines + 1 and col_offset >= 0 (run-time check of the proof's assumed precondition)",
            "space": f"inputs by kind {kinds} x {len(OPTS)} option sets; adversarial expressions: {len(ADVERSARIAL)} x positions; last statements: {len(LAST_STATEMENTS)} x 7 containers x trailing newline or not",
            "bound": "enumerated families", "evaluations": len(items) * len(OPTS), "distinct_nontrivial": len({s for _, s, _ in items}), "exhaustive": False, "failures": P.cap(fl),
            "samples": [items[0][1], items[len(items) // 2][1]]}]
    fl = []
    for nm, rs in zip(idents, sres):
        for r in rs:
            fl.append({"id": f"{r['cls']}::{nm}", "cls": r["cls"], "input": nm, "observed": r["what"], "required": "returns a valid identifier that is not a keyword; never raises"})
    out.append({"name": "c04-style-total", "function": "style.rename_variable / style.rename_class", "contract": "total: returns a valid non-keyword identifier for every identifier",
                "space": f"all identifiers of length <= {4 if tier == 'quick' else 5} over the alphabet 'aA_1bZ' ({len(idents)}) x static/private flags", "bound": "identifier length",
                "evaluations": len(idents) * 6, "distinct_nontrivial": len(idents), "exhaustive": True, "failures": P.cap(fl, 6), "samples": idents[:3] + idents[-2:]})
    return out


if __name__ == "__main__":
    import collections
    import json
    import sys
    for r in run(sys.argv[1] if len(sys.argv) > 1 else "quick", 0):
        print(json.dumps({k: v for k, v in r.items() if k not in ("failures", "samples")}, indent=1)[:600])
        print(collections.Counter(f["cls"] for f in r["failures"]))
        seen = set()
        for f in r["failures"]:
            if f["cls"] not in seen:
                print("  ", f["cls"], "|", f["observed"][:220], "|", repr(f["input"])[:200])
                seen.add(f["cls"])
