"""Bounded stand-in for C15: core.literal_value against CPython's eval, and the consumers of constant values against execution.

Contract (run time, real functions): literal_value(e) either raises ValueError ("unknown") or returns a value v with
type(v) is type(eval(e)) and v == eval(e); if eval(e) raises, literal_value(e) raises ValueError; nothing is printed and
nothing but ValueError escapes.  Consumers: a program whose condition / operand / comparison is e prints the same after
remove_dead_ifs, delete_unreachable_code, remove_redundant_boolop_values, simplify_boolean_expressions and format_code.
Identity tests between non-singleton literals are excluded, as the property says.
"""
import ast
import contextlib
import io
import itertools
import math
import multiprocessing as mp
import random

LEAVES = ["0", "1", "-1", "2", "True", "False", "None", "''", "'a'", "'ab'", "()", "(1,)", "[]", "[0]", "[1, 2]", "{}", "{1: 2}", "1.5", "{1}", "{1, 2}", "{2, 3}",
          "float('nan')", "b'a'", "0.0"]
BIN = ["+", "-", "*", "/", "//", "%", "**", "<<", "<", "<=", ">", ">=", "==", "!=", "in", "not in", "and", "or"]
CMP = ["<", "<=", ">", ">=", "==", "!="]
CALLS = ["len", "abs", "bool", "int", "str", "max", "min", "sum", "sorted", "list", "tuple", "float", "repr", "set", "all", "any", "print", "id", "hash", "input", "exit"]
SINGLETONS = {"True", "False", "None"}


def expressions(tier, seed):
    rnd = random.Random(seed)
    out = list(LEAVES)
    out += [f"not {a}" for a in LEAVES] + [f"-{a}" for a in LEAVES] + [f"+{a}" for a in LEAVES]
    for a, b in itertools.product(LEAVES, LEAVES):
        for op in BIN:
            out.append(f"{a} {op} {b}")
        if a in SINGLETONS or b in SINGLETONS:
            out.append(f"{a} is {b}")
            out.append(f"{a} is not {b}")
    n_exh = len(out)
    for f in CALLS:
        for a in LEAVES:
            out.append(f"{f}({a})")
    out += ["''.join(('1', '2'))", "'a'.upper()", "'a b'.split()", "', '.join(['a', 'b'])", "'abc'.startswith('a')", "(1).bit_length()", "'{}'.format(1)", "max(1, 2)", "min((1, 2), (0, 5))",
            "1 if 0 else 2", "1 / 0", "1 % 0", "2 ** -1", "2 ** 0.5", "0 ** -1", "'a' * 3", "[0] * 2", "1 < 2 < 3", "3 > 2 > 2", "1 < 2 > 0 == 0", "1 == 1.0 == True", "'a' < 'b' <= 'b'",
            "{1} <= {1, 2} <= {1, 2, 3}", "1 < 'a' < 2", "0 < 1 / 0", "1 and 2 and 0 and 1 / 0", "0 or '' or [] or 7", "0 or 1 / 0", "1 or 1 / 0", "not not 2", "not (1, )", "9 ** 9 ** 9", "1 << 100000",
            "len('abc') == 3", "bool([]) or bool([0])", "sum([1, 2, 3]) > 5", "sorted([3, 1, 2])[0]", "abs(-3) + max(1, 2)", "str(1) + 'a'", "int('12') * 2", "int('x')", "list(range(3))", "tuple('ab')",
            # keyword arguments, typed operands under type-sensitive operators (the same value as int / float / bool in one process)
            "int('11', base=2)", "int('11', 2)", "dict(a=1)", "dict(a=1) == {'a': 1}", "sorted([1, 2], reverse=True)", "sorted([1, 2], reverse=True) == [2, 1]", "sum([1], start=1)", "sum([1], 1)",
            "round(2.567, ndigits=1)", "max([], default=3)", "min([4], default=0)", "str(b'a', encoding='ascii')", "int(x='3') if False else 0", "list(**{})", "dict(**{'a': 1})", "sorted([1, 2], key=abs)",
            # constant-receiver method calls with keyword arguments (dropping a keyword still leaves a valid call)
            "'a b c'.split(maxsplit=1)", "'a b c'.split(maxsplit=1) == ['a', 'b c']", "'a b c'.split(sep=' ', maxsplit=1)", "'a\\tb'.expandtabs(tabsize=4)", "'a\\tb'.expandtabs(tabsize=4) == 'a   b'",
            "(255).to_bytes(2, byteorder='little')", "(255).to_bytes(2, byteorder='little') == b'\\xff\\x00'", "(0).from_bytes(b'\\xff', 'big', signed=True)", "'a\\nb'.splitlines(keepends=True)",
            "len('a\\nb'.splitlines(keepends=True)[0]) == 2", "'abc'.encode(encoding='ascii')", "b'abc'.decode(encoding='ascii', errors='strict')", "'{x}'.format(x=1)", "'a,b'.rsplit(sep=',', maxsplit=1)",
            "'a b'.split(maxsplit=0) == ['a b']", "'aXbXc'.replace('X', '-', 1)", "'x'.center(3, '*')", "'%(a)s' % dict(a=1)", "'ab'.startswith('b', 1)",
            "'v%s' % 2", "'v%s' % 2.0", "'%s' % True", "'%s' % 1", "'ab' * 2", "'ab' * 2.0", "'ab' * True", "1 << 4", "1 << 4.0", "6 & 3", "6 & 3.0", "2 ** 10", "2.0 ** 10", "True + True", "1 + 1", "1.0 + 1.0",
            "[0] * 2", "[0] * 2.0", "7 // 2", "7.0 // 2", "7 % 3", "7.0 % 3", "-7 // 2", "divmod(7, 2)", "divmod(7.0, 2)", "1 == 1.0", "1 is 1.0", "hash(1) == hash(1.0)", "str(1)", "str(1.0)", "str(True)",
            # sets: the order of iteration depends on the hash seed (texts) and on HOW the set was built (a display compiled by CPython is not the
            # set the evaluator builds element by element): nothing that exposes the order may get a value
            "list({4096, 15, 23})", "list({4096, 15, 23}) == [4096, 15, 23]", "tuple({40, -1, 16, 32, 4096})", "str({4096, 15, 23})", "repr({8, 16, 24, 32, 40})", "'{}'.format({4096, 15, 23})",
            "'%s' % {4096, 15, 23}", "'%s' % ({4096, 15, 23},)", "list(enumerate({4096, 15, 23}))", "sorted({4096, 15, 23})", "sum({4096, 15, 23})", "max({4096, 15, 23})", "len({4096, 15, 23})",
            "sum({0.1, 0.2, 0.3})", "sum({1e100, 1.0, -1e100})", "str([{4096, 15, 23}])", "list({'a', 'b'})", "''.join({'a', 'b'})", "str([{'a', 'b'}])", "'%s' % {'a', 'b'}", "len([{1, 2}])", "list({1: {4096, 15, 23}}.values())",
            "hash('abc')", "'abc'.__hash__()", "hash(('a', 1))", "hash(1)", "{'a', 'b'} == {'b', 'a'}", "'a' in {'a', 'b'}", "sorted({'b', 'a'})", "len({'a', 'b'})", "frozenset({'a'}) | {'b'}",
            "repr(2)", "repr(2.0)", "bool(0.0)", "bool(0)", "int(True)", "int(2.9)", "float(2)", "complex(1)", "abs(-2)", "abs(-2.0)", "round(2.5)", "round(3.5)", "round(2)", "type(1) == type(1.0)"]
    n = 4000 if tier == "quick" else 80000
    for _ in range(n):
        k = rnd.random()
        a, b, c = (rnd.choice(LEAVES) for _ in range(3))
        if k < 0.3:
            out.append(f"{a} {rnd.choice(CMP)} {b} {rnd.choice(CMP)} {c}")
        elif k < 0.55:
            out.append(f"{a} {rnd.choice(('and', 'or'))} {b} {rnd.choice(('and', 'or'))} {c}")
        elif k < 0.8:
            out.append(f"({a} {rnd.choice(BIN)} {b}) {rnd.choice(BIN)} {c}")
        elif k < 0.9:
            out.append(f"{rnd.choice(CALLS[:15])}({a} {rnd.choice(BIN)} {b})")
        else:
            out.append(f"not ({a} {rnd.choice(BIN)} {b})")
    seen, uniq = set(), []
    for e in out:
        if e not in seen:
            seen.add(e)
            uniq.append(e)
    return uniq, n_exh


def same(a, b):
    if type(a) is not type(b):
        return False
    if isinstance(a, float) and math.isnan(a) and math.isnan(b):
        return True
    try:
        return bool(a == b)
    except Exception:
        return False


def py_eval(e):
    buf = io.StringIO()
    try:
        with contextlib.redirect_stdout(buf):
            v = eval(compile(e, "<e>", "eval"), {"__builtins__": __builtins__, "input": lambda *a: "", "exit": lambda *a: None})
        return ("value", v, buf.getvalue())
    except BaseException as ex:  # noqa: BLE001
        return ("raises", type(ex).__name__, buf.getvalue())


def check_expr(e):
    from pyrefact import core, logs
    logs.set_level(100)
    if "9 ** 9 ** 9" in e or "<< 100000" in e:
        want = ("raises", "TooLarge", "")
    else:
        want = py_eval(e)
    node = ast.parse(e, mode="eval").body
    buf = io.StringIO()
    try:
        with contextlib.redirect_stdout(buf):
            got = ("value", core.literal_value(node))
    except ValueError:
        got = ("unknown",)
    except BaseException as ex:  # noqa: BLE001
        return {"cls": f"escapes:{type(ex).__name__}", "what": f"literal_value({e!r}) raised {type(ex).__name__}: {str(ex)[:80]}"}
    if buf.getvalue():
        return {"cls": "effect:stdout", "what": f"literal_value({e!r}) printed {buf.getvalue()!r}"}
    if got[0] == "unknown":
        return None
    if want[0] == "raises":
        return {"cls": "value-for-raising-expression", "what": f"literal_value({e!r}) == {got[1]!r} but Python raises {want[1]}"}
    if want[2]:
        return {"cls": "value-for-effectful-expression", "what": f"literal_value({e!r}) == {got[1]!r} but evaluating it prints {want[2]!r}"}
    if not same(got[1], want[1]):
        return {"cls": "wrong-value", "what": f"literal_value({e!r}) == {got[1]!r} ({type(got[1]).__name__}) but Python computes {want[1]!r} ({type(want[1]).__name__})"}
    return {"known": True}


def run_prog(src):
    buf = io.StringIO()
    try:
        with contextlib.redirect_stdout(buf):
            exec(compile(src, "<p>", "exec"), {"__name__": "__main__"})
        return ("ok", buf.getvalue())
    except BaseException as ex:  # noqa: BLE001
        return ("raises:" + type(ex).__name__, buf.getvalue())


CONSUMERS = ["fixes.remove_dead_ifs", "fixes.delete_unreachable_code", "fixes.remove_redundant_boolop_values", "symbolic_math.simplify_boolean_expressions", "format_code"]


def check_consumers(e):
    import importlib
    import pyrefact
    from pyrefact import logs
    logs.set_level(100)
    fails = []
    progs = [
        f"def f():\n    return 'called'\nif {e}:\n    print('T')\nelse:\n    print('F')\nprint('end')\n",
        f"def f():\n    print('f called')\n    return 1\nprint(bool(({e}) and f()))\nprint(bool(({e}) or f()))\n",
        f"def g():\n    while {e}:\n        return 'in'\n    return 'after'\nprint(g())\n",
        f"r = ({e})\nprint(repr(r))\n",
    ]
    try:
        tree_e = ast.parse(e, mode="eval").body
        top = type(tree_e).__name__
        # an and/or whose VALUE is used: operand of an arithmetic / comparison operator, call argument, subscript, ...
        value_used_boolop = any(isinstance(c, ast.BoolOp) for n in ast.walk(tree_e) if not isinstance(n, (ast.BoolOp,)) and not (isinstance(n, ast.UnaryOp) and isinstance(n.op, ast.Not))
                                for c in ast.iter_child_nodes(n))
        eq_singleton = any(isinstance(n, ast.Compare) and any(isinstance(o, (ast.Eq, ast.NotEq)) for o in n.ops)
                           and any(isinstance(c, ast.Constant) and (c.value is True or c.value is False) for c in [n.left] + n.comparators) for n in ast.walk(tree_e))
    except SyntaxError:
        return []
    for k_, prog in enumerate(progs):
        try:
            ast.parse(prog)
        except SyntaxError:
            continue
        # and/or with constant operands used for its VALUE (not its truth): separate failure class (known finding F-15b)
        ctx = ":value-context-boolop" if ((k_ == 3 and top == "BoolOp") or value_used_boolop) else ""
        want = run_prog(prog)
        if want[0] != "ok":
            continue        # the original program raises: outside the class of programs whose behaviour must be kept (removing the exception of an ill-typed operand is allowed)
        for cn in CONSUMERS:
            try:
                if cn == "format_code":
                    out = pyrefact.format_code(prog)
                else:
                    mod, fn = cn.split(".")
                    out = getattr(importlib.import_module("pyrefact." + mod), fn)(prog)
            except BaseException as ex:  # noqa: BLE001
                fails.append({"cls": f"{cn}:raises:{type(ex).__name__}", "what": f"{cn} raised {type(ex).__name__} on condition {e!r}"})
                continue
            if out == prog:
                continue
            got = run_prog(out)
            if got != want:
                ctx2 = ctx
                if cn == "format_code" and (" in set()" in out or " in {" in out) and " in set()" not in prog and " in {" not in prog:
                    ctx2 = ":contains-rewritten-to-set"       # performance.optimize_contains_types, not constant evaluation (known finding F-02a)
                elif cn == "format_code" and eq_singleton and " is " not in prog:
                    ctx2 = ":singleton-eq-rewritten-to-is"    # fixes.singleton_eq_comparison, not constant evaluation (known finding F-02b)
                fails.append({"cls": f"{cn}:behaviour{ctx2}", "what": f"{cn}: condition {e!r}: program printed {want} before and {got} after", "output": out, "prog": prog})
    return fails


def _w1(e):
    try:
        return check_expr(e)
    except Exception as ex:  # noqa: BLE001
        return {"harness_error": repr(ex)}


def _w2(e):
    try:
        return check_consumers(e)
    except Exception as ex:  # noqa: BLE001
        return [{"harness_error": repr(ex)}]


SEED_EXPRS = ["list({'a', 'b'})", "list({'a', 'b'}) == ['a', 'b']", "''.join({'ab', 'cd'})", "tuple({'p', 'q'})[0]", "str({'east', 'west'})", "repr(frozenset({'x', 'y'}))", "'%s' % {'a', 'b'}", "'{}'.format({'a', 'b'})",
              "str([{'a', 'b'}])", "list({1: {'a', 'b'}}.values())", "hash('abc')", "'abc'.__hash__()", "hash(('a', 1)) % 7", "sorted({'b', 'a'})", "len({'a', 'b'})", "'a' in {'a', 'b'}", "{'a', 'b'} == {'b', 'a'}",
              "min({'b', 'a'})", "list(enumerate({'a', 'b'}))", "dict.fromkeys({'a', 'b'})", "next(iter({'a', 'b'}))", "list(map(str, {'a', 'b'}))", "list(zip({'a', 'b'}, 'xy'))", "[*{'a', 'b'}]", "list(reversed(list({'a', 'b'})))",
              "sum({0.1, 0.2, 0.3})", "max({'a', 'b'}, key=len)", "sorted({'b', 'a'}, key=len)"]
SEED_SNIPPET = r"""
import sys, json
sys.path.insert(0, %r)
from pyrefact import core, logs
logs.set_level(100)
out = []
for e in json.load(sys.stdin):
    try:
        out.append(repr(core.literal_value(core.parse(e).body[0].value)))
    except ValueError:
        out.append("<unknown>")
    except BaseException as ex:
        out.append("RAISES " + type(ex).__name__)
print(json.dumps(out))
"""


def run_hash_seeds():
    import json, os, subprocess, sys
    res = {}
    for hs in ("1", "2", "3", "4", "5", "6"):
        p = subprocess.run([sys.executable, "-c", SEED_SNIPPET % os.environ.get("PYREFACT_REPO", "/repo")], input=json.dumps(SEED_EXPRS), capture_output=True, text=True, timeout=300,
                           env=dict(os.environ, PYTHONHASHSEED=hs))
        res[hs] = json.loads(p.stdout.strip().splitlines()[-1])
    fl = []
    for k, e in enumerate(SEED_EXPRS):
        vals = {hs: r[k] for hs, r in res.items()}
        if len(set(vals.values())) > 1:
            fl.append({"id": f"value-depends-on-the-hash-seed::{e}", "cls": "value-depends-on-the-hash-seed", "input": e, "observed": f"literal_value({e!r}) under PYTHONHASHSEED 1..6: {vals}",
                       "required": "one value in every process, or unknown"})
    return {"name": "c15-value-independent-of-the-process", "function": "core.literal_value", "contract": "the value found for an expression is the same under every string-hash seed (or the expression is unknown)",
            "space": f"{len(SEED_EXPRS)} expressions that expose the iteration order of a set of texts or the hash of a text x PYTHONHASHSEED 1..6 in fresh processes", "bound": "enumerated expressions, six seeds",
            "evaluations": len(SEED_EXPRS) * 6, "distinct_nontrivial": len(SEED_EXPRS), "exhaustive": False, "failures": fl, "samples": SEED_EXPRS[:2]}


def run(tier, seed):
    exprs, n_exh = expressions(tier, seed)
    rnd = random.Random(seed + 7)
    cons = [e for e in exprs if not any(x in e for x in ("input", "exit", "9 ** 9", "<< 100000", "id(", "hash("))]      # id / hash: nondeterministic programs
    cons = rnd.sample(cons, min(len(cons), 700 if tier == "quick" else 8000))
    ctx = mp.get_context("fork")
    with ctx.Pool(16, maxtasksperchild=400) as pool:
        r1 = pool.map(_w1, exprs, chunksize=100)
        r2 = pool.map(_w2, cons, chunksize=10)
    out = []
    fl, errs, known = [], [], 0
    for e, r in zip(exprs, r1):
        if r is None:
            continue
        if "harness_error" in r:
            errs.append(r["harness_error"])
        elif r.get("known"):
            known += 1
        else:
            fl.append({"id": f"{r['cls']}::{e}", "cls": r["cls"], "input": e, "observed": r["what"], "required": "value == eval(e), or ValueError"})
    res = {"name": "c15-literal-value-vs-eval", "function": "core.literal_value", "contract": "returns eval(e) (same type and value) or raises ValueError; no output; nothing else escapes",
           "space": f"leaves {LEAVES}; all unary and binary combinations (operators {BIN}, is/is not with a singleton) = {n_exh} expressions exhaustively; builtin calls {CALLS} on every leaf; hand-written chains/short-circuits; {len(exprs) - n_exh} further seeded depth-2/3 expressions",
           "bound": "expression depth <= 2 exhaustive over the leaf set, depth 3 sampled", "evaluations": len(exprs), "distinct_nontrivial": known, "exhaustive": False,
           "failures": _cap(fl), "samples": exprs[:2] + exprs[-2:], "known_values": known}
    if errs:
        res["error"] = f"{len(errs)} harness errors, first: {errs[0]}"
    out.append(res)
    fl, errs = [], []
    for e, rs in zip(cons, r2):
        for r in rs:
            if "harness_error" in r:
                errs.append(r["harness_error"])
            else:
                fl.append({"id": f"{r['cls']}::{e}", "cls": r["cls"], "input": r.get("prog", e), "observed": r["what"], "output": r.get("output"), "required": "same printed output before and after the rule"})
    res = {"name": "c15-consumers-executed", "function": ", ".join(CONSUMERS), "contract": "programs whose condition/operand/assigned value is e print the same before and after",
           "space": f"{len(cons)} of the expressions above x 4 program shapes (if/else, and/or with a call operand, while-return, assignment) x {len(CONSUMERS)} consumers",
           "bound": "sample of the expression space", "evaluations": len(cons) * 4 * len(CONSUMERS), "distinct_nontrivial": len(cons), "exhaustive": False, "failures": _cap(fl), "samples": cons[:3]}
    if errs:
        res["error"] = f"{len(errs)} harness errors, first: {errs[0]}"
    out.append(res)
    out.append(run_hash_seeds())
    return out


def _cap(fl, per_cls=5):
    seen, out = {}, []
    for f in fl:
        seen[f["cls"]] = seen.get(f["cls"], 0) + 1
        if seen[f["cls"]] <= per_cls:
            out.append(f)
    return out


if __name__ == "__main__":
    import collections
    import json
    import sys
    for r in run(sys.argv[1] if len(sys.argv) > 1 else "quick", 0):
        print(json.dumps({k: v for k, v in r.items() if k not in ("failures", "samples", "space")}, indent=1)[:700])
        print(collections.Counter(f["cls"] for f in r["failures"]))
        seen = set()
        for f in r["failures"]:
            if f["cls"] not in seen:
                print("  ", f["cls"], "|", f["observed"][:300])
                seen.add(f["cls"])
