"""Bounded stand-in for C19: renaming is consistent and capture-free.

(1) name construction: style.rename_variable / rename_class on ALL identifiers of length <= 5 over the alphabet {a, B, _, 1} (exhaustive)
    plus a word list: the result is a valid identifier (str.isidentifier) or the function raises; rename is idempotent on its result.
(2) programs: generated from binding-form frames x adversarial identifier triples (camelCase / snake_case / UPPER variants of each other,
    a name equal to the would-be new name, builtins, generated-name prefixes).  Each program prints what it computes.  Oracle: the program
    after each renaming rule (align_variable_names_with_convention, undefine_unused_variables, remove_duplicate_functions,
    move_staticmethod_static_scope, format_code) still compiles, and executed it prints exactly what it printed before and raises the same
    exception type if any (a reference that was not renamed with its binding gives NameError / a different value; a capture changes a value).
    Programs that raise before formatting, or print nothing, are not counted.
"""
import ast
import itertools
import keyword
import random

from . import pipeline as P
from .c15_eval import run_prog

ALPHABET = "aB_1"
WORDS = ["someVar", "some_var", "SOME_VAR", "SomeVar", "_someVar", "__x__", "_", "__", "___", "x1", "X", "xY", "HTTPServer", "getHTTPResponse", "a_B", "A_b", "_A", "a__b", "aB1c", "é", "Δx", "class_", "list_", "_1", "a1B2"]

# identifier triples: (v, w, u) are used as three distinct bindings in every frame
TRIPLES = [
    ("someVar", "some_var", "SOME_VAR"), ("someVar", "SOME_VAR", "other"), ("myList", "my_list", "list"), ("Value", "value", "VALUE"), ("fooBar", "foo_bar", "fooBar2"),
    ("x", "X", "_x"), ("idValue", "id", "ID_VALUE"), ("pyrefact_x", "pyrefactX", "PYREFACT_X"), ("camelCase", "camel_case", "CamelCase"), ("a", "b", "c"),
    ("dataSet", "DATA_SET", "data_set"), ("getValue", "get_value", "GetValue"), ("typeName", "type", "TYPE_NAME"), ("maxLen", "max", "len"),
]

FRAMES = [
    # module-level variables and a function with a same-named parameter of each kind
    "{v} = 1\n{w} = 2\n\n\ndef f(a, *{v}):\n    return len({v}) + a + {w}\n\n\nprint(f(1, 2, 3), {v}, {w})\n",
    "{v} = 1\n{w} = 2\n\n\ndef f(a, **{v}):\n    return len({v}) + a + {w}\n\n\nprint(f(1, k=3), {v}, {w})\n",
    "{v} = 1\n{w} = 2\n\n\ndef f({v}, /, b):\n    return {v} + b + {w}\n\n\nprint(f(5, 6), {v}, {w})\n",
    "{v} = 1\n{w} = 2\n\n\ndef f(a, *, {v}=7):\n    return {v} + a + {w}\n\n\nprint(f(5), {v}, {w})\n",
    "{v} = 1\n{w} = 2\n\n\ndef f({v}={w}):\n    return {v} * 3\n\n\nprint(f(), f(4), {v}, {w})\n",
    "{v} = 1\n{w} = 2\n{u} = 3\nprint({v}, {w}, {u})\n{v} += {w}\nprint({v} + {u})\n",
    "def {v}(x):\n    return x + 1\n\n\ndef {w}(x):\n    return {v}(x) * 2\n\n\n{u} = {w}(3)\nprint({u}, {v}(1))\n",
    "class {v}:\n    {w} = 3\n\n    def {u}(self):\n        return self.{w} + 1\n\n\nobj = {v}()\nprint(obj.{u}(), {v}.{w})\n",
    "{v} = 0\n\n\ndef bump():\n    global {v}\n    {v} += 1\n    return {v}\n\n\nbump()\nbump()\nprint({v})\n",
    "def outer():\n    {v} = 1\n\n    def inner():\n        nonlocal {v}\n        {v} += 1\n        return {v}\n\n    inner()\n    return {v}\n\n\nprint(outer())\n",
    "def f():\n    {v} = [1, 2, 3]\n    {w} = [{v} for {v} in {v}]\n    return {w}, {v}\n\n\nprint(f())\n",
    "{v} = [1, 2, 3]\n{w} = [x * 2 for x in {v} if x]\nfor {u} in {w}:\n    print({u}, {v}[0])\n",
    "import os as {v}\nimport sys as {w}\nprint({v}.sep, {w}.maxsize > 0)\n",
    "def f({v}):\n    {w} = {v} + 1\n    for {u} in range({w}):\n        {w} += {u}\n    return {w}\n\n\nprint(f(3))\n",
    "def f(x):\n    with open(__file__) if False else __import__('contextlib').nullcontext(x) as {v}:\n        {w} = {v} + 1\n    return {w}\n\n\nprint(f(2))\n",
    "{v} = 1\n\n\ndef f():\n    {v} = 2\n    return {v}\n\n\ndef g():\n    return {v}\n\n\nprint(f(), g(), {v})\n",
    "{v} = 5\n{w} = lambda {v}: {v} + 1\nprint({w}(1), {v})\n",
    "class K:\n    def m(self, {v}):\n        self.{w} = {v}\n        return self.{w}\n\n    @staticmethod\n    def {u}(z):\n        return z * 2\n\n\nprint(K().m(3), K.{u}(4), K().{u}(5))\n",
    "def {v}(a):\n    return a + 1\n\n\ndef {w}(a):\n    return a + 1\n\n\ndef {u}(b):\n    return b + 1\n\n\nprint({v}(1), {w}(2), {u}(3))\n",
    "{v} = 1\n{w} = {v} + 1\n_ = {w}\n{u} = 'unused'\n\n\ndef f():\n    {u} = 4\n    unused_local = 5\n    return {v}\n\n\nprint(f(), {w})\n",
    "def f(data):\n    {v}, {w} = data\n    {u} = {v}\n    return {u} + {w}\n\n\nprint(f((1, 2)))\n",
    "{v} = {{'k': 1}}\nprint({v}['k'], dict({v}=2) if False else 0, dict(k={v}['k']))\n",
    "def f(**kw):\n    return sorted(kw.items())\n\n\n{v} = 3\nprint(f({v}={v}, {w}=4))\n",
    "try:\n    {v} = 1\n    raise ValueError('invalid literal')\nexcept ValueError as {w}:\n    {u} = str({w})[:7]\n    print({u}, {v})\n",
    "{v} = 10\n\n\nclass C:\n    {v} = 20\n    {w} = {v} + 1\n\n    def get(self):\n        return {v}, self.{v}, self.{w}\n\n\nprint(C().get(), {v})\n",
    "def f():\n    {v} = 1\n    del {v}\n    {v} = 2\n    return {v}\n\n\nprint(f())\n",
    "{v}: int = 4\n{w}: 'list' = [{v}]\nprint({v}, {w})\n",
    "def gen():\n    {v} = 0\n    while {v} < 3:\n        yield {v}\n        {v} += 1\n\n\nprint(list(gen()), [({w} := 5), {w}] if True else 0)\n",
]

FRAMES += [
    # class members reached through attributes / keywords, in classes that are NOT at module level, and members bound by unpacking
    "def make():\n    class Node:\n        {v} = 3\n\n        def {w}(self):\n            return self.{v} + 1\n\n    return Node()\n\n\nprint(make().{w}(), make().{v})\n",
    "class Outer:\n    class Inner:\n        {v} = 5\n\n        def {w}(self):\n            return 1\n\n    def get(self):\n        return self.Inner.{v} + self.Inner().{w}()\n\n\nprint(Outer().get())\n",
    "import dataclasses\n\n\ndef make_point():\n    @dataclasses.dataclass\n    class Point:\n        {v}: int = 0\n        {w}: int = 1\n\n    return Point({v}=4)\n\n\np = make_point()\nprint(p.{v}, p.{w})\n",
    "import dataclasses\n\n\n@dataclasses.dataclass\nclass Point:\n    {v}: int = 0\n    {w}: int = 1\n\n\np = Point({v}=4, {w}=5)\nprint(p.{v} + p.{w})\n",
    "class Limits:\n    {v}, {w} = 0, 10\n    [{u}] = [7]\n\n\nprint(Limits.{v}, Limits.{w}, Limits.{u})\n",
    "class Config:\n    {v} = 1\n\n    @classmethod\n    def {w}(cls):\n        return cls.{v} + 1\n\n\nprint(Config.{w}(), getattr(Config, '{v}'))\n",
    "def factory():\n    def {v}(x):\n        return x + 1\n\n    {w} = {v}\n    return {w}(1), {v}(2)\n\n\nprint(factory())\n",
    "class Base:\n    def {v}(self):\n        return 1\n\n\nclass Child(Base):\n    def {w}(self):\n        return self.{v}() + 1\n\n\nprint(Child().{w}(), Child().{v}())\n",
    "import collections\n\n{v} = collections.namedtuple('{v}', ['{w}', '{u}'])\nitem = {v}({w}=1, {u}=2)\nprint(item.{w} + item.{u})\n",
    "def f():\n    {v} = 1\n\n    class Local:\n        {w} = {v} + 1\n\n        def get(self):\n            return {v}, self.{w}\n\n    return Local().get()\n\n\nprint(f())\n",
]

FRAMES += [
    # equivalent functions where the name of the one that is kept, or of the one that is removed, is also bound in another way
    "def {v}(a):\n    return a + 1\n\n\ndef {w}(a):\n    return a + 1\n\n\ndef use({v}):\n    return {w}({v})\n\n\nprint(use(3), {v}(1))\n",
    "def {v}(a):\n    return a + 1\n\n\ndef {w}(a):\n    return a + 1\n\n\ndef use({w}):\n    return {v}({w})\n\n\nprint(use(3), {w}(1))\n",
    "def {v}(a):\n    return a + 1\n\n\ndef {w}(a):\n    return a + 1\n\n\ndef use(x):\n    {v} = x * 2\n    return {w}({v})\n\n\nprint(use(3), {v}(1))\n",
    "def {v}(a):\n    return a + 1\n\n\ndef {w}(a):\n    return a + 1\n\n\nprint({v}(1))\n\n\ndef {v}(a):\n    return a * 10\n\n\nprint({w}(2), {v}(2))\n",
    "def {v}(a):\n    return a + 1\n\n\ndef {w}(a):\n    return a + 1\n\n\ndef use(x):\n    try:\n        raise ValueError(x)\n    except ValueError as {v}:\n        return {w}(len(str({v})))\n\n\nprint(use(3), {v}(1))\n",
    "import math as {v}\n\n\ndef {w}(a):\n    return a + 1\n\n\ndef {u}(a):\n    return a + 1\n\n\ndef use(x):\n    from os import sep as {w}\n    return {u}(len({w})) + x\n\n\nprint(use(3), {w}(1), {v}.floor(1.5))\n",
]

FRAMES += [
    # functions that are equal up to the outer names they use are not duplicates
    "def {v}(x):\n    return x + 1\n\n\ndef {w}(x):\n    return x * 10\n\n\ndef first(x):\n    return {v}(x)\n\n\ndef second(x):\n    return {w}(x)\n\n\nprint(first(1), second(1))\n",
    "{v} = 3\n{w} = 5\n\n\ndef first(x):\n    return x * {v}\n\n\ndef second(x):\n    return x * {w}\n\n\nprint(first(1), second(1))\n",
    "{v} = {w} = 0\n\n\ndef first():\n    global {v}\n    {v} = 1\n\n\ndef second():\n    global {w}\n    {w} = 2\n\n\nfirst()\nsecond()\nprint({v}, {w})\n",
    # a name that is assigned and deleted
    "def make():\n    return [1]\n\n\ndef f():\n    {v} = make()\n    del {v}\n    return 2\n\n\nprint(f())\n",
    "import sys\n{v} = len(sys.argv)\ndel {v}\n{w} = 1\nprint({w})\n",
    # a function that is defined again in a nested block of the same scope
    "import sys\n\n\ndef {v}(x):\n    return 1\n\n\nif len(sys.argv) >= 0:\n    def {v}(x):\n        return x + 2\n\n\nprint({v}(3))\n",
    "import sys\n\n\nclass {v}:\n    val = 1\n\n\nfor _i in [0]:\n    class {v}:\n        val = 2\n\n\nprint({v}.val)\n",
    # a name in a class body that refers to a method, and class members named in match patterns
    "class Base:\n    pass\n\n\nclass A(Base):\n    def {v}(self):\n        return 7\n\n    {w} = {v}\n\n\nprint(A().{w}(), A().{v}())\n",
    "class A:\n    def {v}(self):\n        return 7\n\n    {w} = {v}\n\n\nprint(A().{w}())\n",
    "import dataclasses\n\n\n@dataclasses.dataclass\nclass Point:\n    {v}: int\n    {w}: int\n\n\ndef f(p):\n    match p:\n        case Point({v}=0, {w}=y):\n            return y\n    return -1\n\n\nprint(f(Point(0, 5)))\n",
    # static methods that move to module level: the new name and the place they are put
    "_{v} = 5\n\n\nclass K:\n    @staticmethod\n    def {v}(x):\n        return x + _{v}\n\n\nprint(K.{v}(1), _{v})\n",
    "class K:\n    @staticmethod\n    def {v}(x):\n        return x + 1\n\n\ndef f(x):\n    y = K.{v}(x)\n    return y * 2\n\n\nprint(f(1))\n",
    "def deco(c):\n    c.tag = getattr(c, 'tag', 0) + 1\n    return c\n\n\n@deco\n@deco\nclass K:\n    @staticmethod\n    def {v}(x):\n        return x + 1\n\n\nprint(K.{v}(1), K.tag)\n",
    "TEXT = \"\"\"\nabc\n\"\"\"\nclass K:\n    @staticmethod\n    def {v}(x):\n        return x + 1\n\n\nprint(K.{v}(1), TEXT)\n",
    "import math as _{v}\n\n\nclass K:\n    def {v}(self, x):\n        return x + 1\n\n\nprint(K().{v}(1), _{v}.floor(2.5))\n",
]

FRAMES += [
    # a generated loop variable (nested loops ending in container.extend(...) become one generator expression) must stay clear of single
    # letters bound by something that is not an assignment: an exception name, a match capture, a with target, a walrus, an import alias,
    # a global declared elsewhere, a lambda parameter in scope, a comprehension variable read by the expression
    "def collect(groups, table, out):\n    try:\n        return table['missing']\n    except LookupError as a:\n        for group in groups:\n            for item in group:\n                out.extend(a.args + (item,))\n    return out\n\n\nprint(collect([[1], [2]], {{}}, []))\n",
    "def collect(groups, shape, out):\n    match shape:\n        case [a, *_]:\n            for group in groups:\n                for item in group:\n                    out.extend((a, item))\n    return out\n\n\nprint(collect([[1], [2]], [9, 8], []))\n",
    "import contextlib\n\n\ndef collect(groups, out):\n    with contextlib.nullcontext((7,)) as a:\n        for group in groups:\n            for item in group:\n                out.extend(a + (item,))\n    return out\n\n\nprint(collect([[1], [2]], []))\n",
    "def collect(groups, out):\n    if (a := (5,)):\n        for group in groups:\n            for item in group:\n                out.extend(a + (item,))\n    return out\n\n\nprint(collect([[1], [2]], []))\n",
    "import os.path as a\n\n\ndef collect(groups, out):\n    for group in groups:\n        for item in group:\n            out.extend((a.sep, item))\n    return out\n\n\nprint(collect([[1], [2]], []))\n",
    "from os import sep as a, linesep as b, curdir as c\n\n\ndef collect(groups, out):\n    for group in groups:\n        for item in group:\n            out.extend((a, b, c, item))\n    return out\n\n\nprint(collect([[1], [2]], []))\n",
    "def collect(groups, out, a=(3,), b=(4,)):\n    for group in groups:\n        for item in group:\n            out.extend(a + b + (item,))\n    return out\n\n\nprint(collect([[1], [2]], []))\n",
    "def collect[a](groups: list[a], out):\n    for group in groups:\n        for item in group:\n            out.extend((item, item))\n    return out\n\n\nprint(collect([[1], [2]], []), collect.__type_params__)\n",
]

FRAMES += [
    # a static method reached through an expression that is neither the class name nor a plain instance name: the method must stay (or every
    # such reference must follow it)
    "class K:\n    @staticmethod\n    def {v}(x):\n        return x * 2\n\n    def run(self):\n        return type(self).{v}(3) + K.{v}(1)\n\n\nprint(K().run())\n",
    "class K:\n    @staticmethod\n    def {v}(x):\n        return x * 2\n\n    def run(self):\n        return self.__class__.{v}(3) + K.{v}(1)\n\n\nprint(K().run())\n",
    "class K:\n    @staticmethod\n    def {v}(x):\n        return x * 2\n\n\nitems = [K()]\nprint(items[0].{v}(2) + K.{v}(1))\n",
    "class K:\n    @staticmethod\n    def {v}(x):\n        return x * 2\n\n\ndef make():\n    return K()\n\n\nprint(make().{v}(2) + K.{v}(1))\n",
    "class K:\n    @staticmethod\n    def {v}(x):\n        return x * 2\n\n\nclass Box:\n    item = K()\n\n\nprint(Box.item.{v}(2) + K.{v}(1), Box().item.{v}(3))\n",
    "class K:\n    @staticmethod\n    def {v}(x):\n        return x * 2\n\n\nprint((K if True else None).{v}(2) + K.{v}(1), [K][0].{v}(3), {{'k': K}}['k'].{v}(4))\n",
    "class K:\n    @staticmethod\n    def {v}(x):\n        return x * 2\n\n    @classmethod\n    def build(cls):\n        return cls.{v}(3) + K.{v}(1)\n\n\nprint(K.build())\n",
]

FRAMES += [
    # a module variable that only an earlier defined function reads; a second assignment between two calls
    "def flat(rows):\n    return [c + {v} for c in rows]\n\n\n{v} = 10\nprint(flat([1, 2]))\n",
    "{v} = 'a'\n\n\ndef show():\n    return {v}\n\n\nprint(show())\n{v} = 'b'\nprint(show())\n",
    "{w} = lambda q: q + {v}\n{v} = 3\nprint({w}(1))\n",
    # _ is a name that is read (gettext idiom): nothing may be renamed to it
    "from gettext import gettext as _\n\n\ndef pair():\n    return 1, 2\n\n\ndef f():\n    {v}, {w} = pair()\n    return _('hello') + str({v})\n\n\nprint(f())\n",
    "_ = str.upper\nfor i, {v} in enumerate('ab'):\n    print(_('x'), i)\n",
    # assignments to names declared nonlocal / global
    "def outer():\n    {v} = 0\n\n    def inner():\n        nonlocal {v}\n        {v} += 1\n\n    inner()\n    return 5\n\n\nprint(outer())\n",
    "{v} = 0\n\n\ndef bump():\n    global {v}\n    {v} += 1\n\n\nbump()\nprint(globals().get('{v}'))\n",
    # a comprehension merged into its enclosing one must not capture
    "def above(ys, {v}):\n    return [{v} for {v} in [{w} for {w} in ys if {w} > {v}]]\n\n\nprint(above([1, 3, 4], 2))\n",
    # 'duplicates' that differ in a constant that is no str or int, or in a global next to a comprehension variable of the same name
    "def half(x):\n    return x * 0.5\n\n\ndef quarter(x):\n    return x * 0.25\n\n\nprint(half(8), quarter(8))\n",
    "def fa(x):\n    return x is None, b'a', 1, 1j\n\n\ndef fb(x):\n    return x is ..., b'b', True, 2j\n\n\nprint(fa(None), fb(None))\n",
    "{v} = 1\n{w} = 2\n\n\ndef fa(xs):\n    return [{v} for {v} in xs], {v}\n\n\ndef fb(xs):\n    return [{w} for {w} in xs], {w}\n\n\nprint(fa([0]), fb([0]))\n",
    "def first(x):\n    return x + 1\n\n\ndef second(x):\n    return x + 1\n\n\ndef hash(x):\n    return x * 2\n\n\ndef digest(x):\n    return x * 2\n\n\nprint(first(1), second(1), hash(2), digest(2))\n",
    # renamed definitions keep their type parameters; members of a class with a metaclass keep their names
    "def {v}[T](x: T) -> T:\n    return x\n\n\nclass {w}[T]:\n    pass\n\n\nprint({v}(1), {w}[int].__name__ is not None)\n",
    "class Meta(type):\n    def __new__(m, n, b, d):\n        d['names'] = sorted(k for k in d if not k.startswith('_'))\n        return super().__new__(m, n, b, d)\n\n\nclass K(metaclass=Meta):\n    {v} = 1\n\n\nprint(K.names)\n",
]

RULES = ["fixes.align_variable_names_with_convention", "fixes.undefine_unused_variables", "fixes.remove_duplicate_functions", "object_oriented.move_staticmethod_static_scope", "fixes.merge_nested_comprehensions",
         "fixes.replace_nested_loops_with_set_list_comp", "abstractions.overused_constant", "format_code"]      # the last two before format_code INVENT names (loop variables, constants)


def work_names(chunk):
    from pyrefact import style
    fails = []
    n = 0
    for name in chunk:
        for label, f in (("rename_variable(static=False, private=False)", lambda s: style.rename_variable(s, static=False, private=False)),
                         ("rename_variable(static=True, private=False)", lambda s: style.rename_variable(s, static=True, private=False)),
                         ("rename_variable(static=False, private=True)", lambda s: style.rename_variable(s, static=False, private=True)),
                         ("rename_class(private=False)", lambda s: style.rename_class(s, private=False)),
                         ("rename_class(private=True)", lambda s: style.rename_class(s, private=True))):
            n += 1
            try:
                r = f(name)
            except (ValueError, RuntimeError):
                continue
            except Exception as ex:  # noqa: BLE001
                fails.append({"cls": f"name:raises:{type(ex).__name__}:{label.split('(')[0]}", "what": f"style.{label} on {name!r} raised {type(ex).__name__}: {ex}"})
                continue
            if not isinstance(r, str) or not r.isidentifier():
                fails.append({"cls": f"name:not-an-identifier:{label.split('(')[0]}", "what": f"style.{label} on {name!r} returns {r!r}, which is not an identifier"})
    return n, fails


def format_code_without_renaming(src):
    """format_code with the four renaming rules replaced by no-ops: a failure that persists is not caused by renaming (C01 / C02 territory)"""
    import pyrefact
    from pyrefact import fixes, object_oriented, processing

    def nothing(source, preserve=frozenset(), **_options):
        return
        yield
    noop = processing.fix(nothing)
    from pyrefact import abstractions
    targets = [(fixes, "align_variable_names_with_convention"), (fixes, "undefine_unused_variables"), (fixes, "remove_duplicate_functions"), (object_oriented, "move_staticmethod_static_scope"),
               (fixes, "replace_nested_loops_with_set_list_comp"), (abstractions, "overused_constant")]
    saved = [(m, n, getattr(m, n)) for m, n in targets]
    try:
        for m, n in targets:
            setattr(m, n, noop)
        return P.guarded(lambda s: pyrefact.format_code(s), src, 120)
    finally:
        for m, n, f in saved:
            setattr(m, n, f)


def work_prog(src):
    import pyrefact
    P.quiet()
    fails = []
    n = 0
    try:
        compile(src, "<p>", "exec")
    except SyntaxError:
        return 0, []
    before = run_prog(src)
    if before[0] != "ok" or not before[1].strip():
        return 0, []
    for q in RULES:
        if q == "format_code":
            f = lambda s: pyrefact.format_code(s)  # noqa: E731
        else:
            try:
                f = P.get_rule(q)
            except Exception:  # noqa: BLE001
                continue
        r = P.guarded(f, src, 120)
        if r[0] != "ok":
            continue        # exceptions / timeouts are C04's subject
        out = r[1]
        n += 1
        if out == src:
            continue
        try:
            compile(out, "<p>", "exec")
        except SyntaxError as ex:
            fails.append({"cls": f"invalid-result:{q}", "what": f"{q}: result does not compile ({ex.msg})", "out": out})
            continue
        after = run_prog(out)
        if after != before and q == "format_code":
            r2 = format_code_without_renaming(src)
            if r2[0] == "ok" and run_prog(r2[1]) != before:
                continue        # the same program breaks with the renaming rules switched off: not a renaming defect
        if after != before:
            kind = "unbound-or-wrong-reference" if after[0].startswith("raises:") else "different-output"
            fails.append({"cls": f"{kind}:{q}", "what": f"{q}: before -> {before!r}; after -> {after!r}", "out": out})
            continue
        # new bindings must not take over a builtin that the program did not bind before
        def bound(s):
            t = ast.parse(s)
            return {n_.id for n_ in ast.walk(t) if isinstance(n_, ast.Name) and isinstance(n_.ctx, ast.Store)} | {n_.name for n_ in ast.walk(t) if isinstance(n_, (ast.FunctionDef, ast.ClassDef, ast.AsyncFunctionDef))}
        import builtins
        new_builtin = {b for b in bound(out) - bound(src) if hasattr(builtins, b) or keyword.iskeyword(b)}
        if new_builtin:
            fails.append({"cls": f"new-name-is-a-builtin:{q}", "what": f"{q}: introduces a binding of builtin name(s) {sorted(new_builtin)}", "out": out})
    return n, fails


def programs(tier, rnd):
    out = []
    for fr in FRAMES:
        trs = TRIPLES if tier == "thorough" else rnd.sample(TRIPLES, 6)
        for t in trs:
            perms = list(itertools.permutations(t)) if tier == "thorough" else [t, rnd.choice(list(itertools.permutations(t)))]
            for v, w, u in perms:
                if len({v, w, u}) < 3:
                    continue
                out.append(fr.format(v=v, w=w, u=u))
    return sorted(set(out))


def run(tier, seed):
    rnd = random.Random(seed)
    names = ["".join(t) for k in range(1, 6) for t in itertools.product(ALPHABET, repeat=k)]
    names = [n for n in names if n.isidentifier()] + WORDS
    r1 = P.pool_map(work_names, [names[i::32] for i in range(32)], chunksize=1)
    progs = programs(tier, rnd)
    r2 = P.pool_map(work_prog, progs, chunksize=4)
    out = []
    fl, n = [], 0
    for cnt, fs in r1:
        n += cnt
        for f in fs:
            fl.append({"id": f"{f['cls']}::{f['what'][:90]}", "cls": f["cls"], "input": f["what"], "observed": f["what"], "required": "a valid identifier, or an exception"})
    out.append({"name": "c19-name-construction", "function": "style.rename_variable, style.rename_class", "contract": "result.isidentifier() or raises ValueError / RuntimeError",
                "space": f"all {len(names) - len(WORDS)} identifiers of length <= 5 over {ALPHABET!r} + {len(WORDS)} words x 5 (function, flags) combinations", "bound": "identifier length <= 5 over a 4-letter alphabet",
                "evaluations": n, "distinct_nontrivial": len(names), "exhaustive": True, "failures": P.cap(fl), "samples": names[:3]})
    fl, n, counted = [], 0, 0
    for s, (cnt, fs) in zip(progs, r2):
        n += cnt
        counted += 1 if cnt else 0
        for f in fs:
            fl.append({"id": f"{f['cls']}::{P.sha(s)}", "cls": f["cls"], "input": s, "observed": f["what"] + f" | result: {f.get('out')!r}", "required": "same printed output, same exception type; no new binding of a builtin"})
    out.append({"name": "c19-programs-executed", "function": ", ".join(RULES), "contract": "program prints the same before and after each renaming rule and format_code; result compiles; no newly bound builtin",
                "space": f"{len(progs)} programs = {len(FRAMES)} binding-form frames x identifier triples ({len(TRIPLES)} triples{' x all 6 orders' if tier == 'thorough' else ', sampled'}); {counted} run cleanly before formatting and are counted",
                "bound": "enumerated frames x triples", "evaluations": n, "distinct_nontrivial": counted, "exhaustive": tier == "thorough", "failures": P.cap(fl), "samples": [progs[0]]})
    return out


if __name__ == "__main__":
    import collections
    import json
    import sys
    for r in run(sys.argv[1] if len(sys.argv) > 1 else "quick", 0):
        print(json.dumps({k: v for k, v in r.items() if k not in ("failures", "samples")}, indent=1)[:900])
        c = collections.Counter(f["cls"] for f in r["failures"])
        print(c)
        seen = collections.Counter()
        for f in r["failures"]:
            seen[f["cls"]] += 1
            if seen[f["cls"]] <= 2:
                print("  ", f["id"], "|", f["input"][:500], "|", f["observed"][:900])
