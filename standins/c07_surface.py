"""Bounded stand-ins for C07 (safe mode keeps the public surface) and C08 (preserved names survive).

C07 contract on main.format_code(s, safe=True): every function / class defined and every variable bound by an assignment statement
at the top level of s, and every method defined or attribute assigned in the body of a top-level class, is still defined
under the same name in the output (surface computed independently with ast).
C08 contract: for a generated (library, client) pair, formatting the library with the names the client uses preserved - through
format_code(preserve=...) and through the command line (--preserve client) - keeps every used definition, and the client
prints the same afterwards.
"""
import ast
import itertools
import os
import random
import subprocess
import sys
import tempfile

from . import pipeline as P


def surface(src):
    tree = ast.parse(src)
    out = set()

    def targets(t):
        if isinstance(t, ast.Name):
            yield t.id
        elif isinstance(t, (ast.Tuple, ast.List)):
            for e in t.elts:
                yield from targets(e)
        elif isinstance(t, ast.Starred):
            yield from targets(t.value)

    def assigned(st):
        if isinstance(st, ast.Assign):
            for t in st.targets:
                yield from targets(t)
        elif isinstance(st, (ast.AnnAssign, ast.AugAssign)) and (not isinstance(st, ast.AnnAssign) or st.value is not None):
            yield from targets(st.target)

    for st in tree.body:
        if isinstance(st, (ast.FunctionDef, ast.AsyncFunctionDef, ast.ClassDef)):
            out.add(st.name)
            if isinstance(st, ast.ClassDef):
                for c in st.body:
                    if isinstance(c, (ast.FunctionDef, ast.AsyncFunctionDef)):
                        out.add(f"{st.name}.{c.name}")
                    for nm in assigned(c):
                        out.add(f"{st.name}.{nm}")
        for nm in assigned(st):
            out.add(nm)
    return out


TEMPLATES = [
    "def {f}(a, b):\n    return a + b\n",
    "def {f}():\n    pass\n\ndef {g}():\n    return {f}()\n",
    "class {C}:\n    def {m}(self):\n        return 1\n\n    def {n}(self, x):\n        return x\n",
    "class {C}:\n    {attr} = 3\n\n    @staticmethod\n    def {m}(x):\n        return x\n\n    def {n}(self):\n        return self.{attr}\n",
    "class {C}(object):\n    def {m}(self):\n        return 2\n\n    @classmethod\n    def {n}(cls):\n        return cls\n",
    "{v} = 1\n{w} = {v} + 1\n",
    "{v} = 1\n",
    "{v}: int = 5\n{w} = [i for i in range(3)]\n",
    "def {f}(x):\n    return x * 2\n\ndef {g}(x):\n    return x * 2\n",
    "def {f}(q):\n    y = q + 1\n    return y\n\n{v} = {f}(1)\n",
    "import os\n\ndef {f}():\n    return os.getcwd()\n\n{v} = 10\n\nclass {C}:\n    pass\n",
    "class {C}:\n    def {m}(self):\n        return 1\n\n{v} = {C}()\n{w} = {v}.{m}()\n",
    "{v}, {w} = 1, 2\n",
    "import sys\n{v}, *{w} = sys.argv\n",
    "[{v}, {w}] = 1, 2\n",
    "({v}, [{w}, *rest_{attr}]) = 0, [1, 2, 3]\n",
    "{v} = {w} = 4\n",
    "{v} = 1\n{v} += 2\n{w}: int\n",
    "for {v} in range(3):\n    pass\n{w} = 0\n",
    # names whose only top-level assignment statement is an augmented one
    "from os import *\nsep += '!'\nif sep:\n    {v} = []\nelse:\n    {v} = [0]\n{v} *= 2\n",
    "import sys\nif sys.argv:\n    {w} = 1\n{w} += 1\n",
    "def {f}():\n    {v} = 'a fairly long constant string'\n    return {v}\n",
    "class {C}:\n    def {m}(self):\n        text = str(1)\n        return text\n\n    def {n}(self):\n        return 'x'\n\n{v} = 3\n",
    "def {f}():\n    result = [1, 2]\n    return result\n\ndef {g}():\n    return 0\n\n{v} = 'aaaaaaaaaaaaaaaaaaaaaaaaa'\n{w} = ['aaaaaaaaaaaaaaaaaaaaaaaaa', 'aaaaaaaaaaaaaaaaaaaaaaaaa', 'aaaaaaaaaaaaaaaaaaaaaaaaa', 'aaaaaaaaaaaaaaaaaaaaaaaaa', 'aaaaaaaaaaaaaaaaaaaaaaaaa']\n",
]
NAMES_F = ["foo", "fooBar", "FooBar", "_foo", "__foo", "FOO", "f", "foo_bar", "doIt"]
NAMES_C = ["Foo", "foo", "fooBar", "_Foo", "FOO", "foo_bar", "Spam"]
NAMES_V = ["x", "X", "someVar", "SOME_VAR", "_x", "some_var", "SomeVar", "value"]
NAMES_M = ["run", "Run", "doRun", "_run", "setUp", "RUN", "get_value"]


def generated(rnd, n):
    out = []
    for _ in range(n):
        parts = []
        for t in rnd.sample(TEMPLATES, rnd.choice((1, 2, 3))):
            f, g = rnd.sample(NAMES_F, 2)
            v, w = rnd.sample(NAMES_V, 2)
            m, n_ = rnd.sample(NAMES_M, 2)
            parts.append(t.format(f=f, g=g, C=rnd.choice(NAMES_C), m=m, n=n_, v=v, w=w, attr=rnd.choice(NAMES_V)))
        src = "\n".join(parts)
        try:
            ast.parse(src)
            out.append(src)
        except SyntaxError:
            pass
    return out


def other_bindings(src):
    """names that are still DEFINED at module level in the output through another binding form (with / for target, import, walrus): the
    property asks that a surface name `is still defined under the same name in the output`, not that it is bound by the same kind of statement
    (missing_context_manager turns `x = open(p) ... x.close()` into `with open(p) as x:`)"""
    tree = ast.parse(src)
    out = set()

    def targets(t):
        if isinstance(t, ast.Name):
            yield t.id
        elif isinstance(t, (ast.Tuple, ast.List)):
            for e in t.elts:
                yield from targets(e)
        elif isinstance(t, ast.Starred):
            yield from targets(t.value)

    def visit(stmts):
        for st in stmts:
            if isinstance(st, (ast.With, ast.AsyncWith)):
                for it in st.items:
                    if it.optional_vars is not None:
                        out.update(targets(it.optional_vars))
                visit(st.body)
            elif isinstance(st, (ast.For, ast.AsyncFor)):
                out.update(targets(st.target))
                visit(st.body)
                visit(st.orelse)
            elif isinstance(st, (ast.If, ast.While)):
                visit(st.body)
                visit(st.orelse)
            elif isinstance(st, ast.Try):
                visit(st.body)
                visit(st.orelse)
                visit(st.finalbody)
                for h in st.handlers:
                    visit(h.body)
            elif isinstance(st, (ast.Import, ast.ImportFrom)):
                out.update((a.asname or a.name).split(".")[0] for a in st.names)
            elif isinstance(st, (ast.Assign, ast.AnnAssign, ast.AugAssign)):
                for t in (st.targets if isinstance(st, ast.Assign) else [st.target]):
                    out.update(targets(t))
            for n_ in ast.walk(st) if not isinstance(st, (ast.FunctionDef, ast.AsyncFunctionDef, ast.ClassDef)) else []:
                if isinstance(n_, ast.NamedExpr):
                    out.update(targets(n_.target))
    visit(tree.body)
    return out


def work_safe(src):
    import pyrefact
    P.quiet()
    fails = []
    try:
        before = surface(src)
    except SyntaxError:
        return fails
    for kw in ({"safe": True}, {"safe": True, "keep_imports": True}):
        r = P.guarded(lambda s: pyrefact.format_code(s, **kw), src, 120)
        if r[0] != "ok" or not isinstance(r[1], str):
            continue
        try:
            after = surface(r[1]) | other_bindings(r[1])
        except SyntaxError:
            continue
        lost = sorted(before - after)
        if lost:
            kinds = set()
            for nm in lost:
                base = nm.split(".")[-1]
                if base == "_" or base.strip("_") == "":
                    kinds.add("underscore-name")
                elif "." in nm:
                    kinds.add("class-member")
                else:
                    kinds.add("module-level")
            cls = "safe-surface-lost:" + "+".join(sorted(kinds))
            fails.append({"cls": cls, "what": f"safe mode lost {lost}", "output": r[1]})
            break
    return fails


# ----------------------------------------------------------------------------- C08
LIB = '''
import subprocess


def run(cmd):
    return "ran " + cmd


def join(parts):
    return "/".join(parts)


def describe(x):
    return "value " + str(x)


def double(x):
    return x * 2


def unusedHelper(x):
    return x + 1


class Engine:
    cylinders = 4

    def start(self):
        return "started"

    def stopNow(self):
        return "stopped"

    @staticmethod
    def make():
        return Engine()


CONSTANT_value = 7
otherValue = 8
verboseFlag = False
retryCount = 1
tempValue = 0


def fetchRemote():
    return "remote"


def report():
    return (verboseFlag, retryCount, fetchRemote())


class Gauge:
    def __init__(self, level):
        self.level = level

    def __repr__(self):
        return "Gauge(%d)" % self.level

    def __len__(self):
        return self.level

    def __eq__(self, other):
        return self.level == other.level


def exported_only():
    return 1


class ExportedOnly:
    pass


def exportedAlias():
    return 2


class Converter:
    def toCelsius(self, f):
        return round((f - 32) / 1.8, 1)

    @staticmethod
    def toKelvin(c):
        return c + 273


def makeConverter():
    return Converter()


defaultConverter = Converter()


def size(items):
    total = len(items)
    return total


def length(values):
    count = len(values)
    return count


def extent(things):
    number = len(things)
    return number
'''
USES = {
    "run": ("from lib import run", "print(run('x'))"), "join": ("import lib", "print(lib.join(['a', 'b']))"), "describe": ("from lib import describe as d", "print(d(3))"),
    "double": ("import lib as L", "print(L.double(4))"), "unusedHelper": ("from lib import unusedHelper", "print(unusedHelper(1))"),
    "Engine": ("from lib import Engine", "print(Engine().start())"), "Engine.stopNow": ("import lib", "print(lib.Engine().stopNow())"), "Engine.make": ("from lib import Engine", "print(Engine.make().cylinders)"),
    "CONSTANT_value": ("from lib import CONSTANT_value", "print(CONSTANT_value)"), "otherValue": ("import lib", "print(lib.otherValue)"),
    # store-only / augmented / monkey-patching access: the client never READS the name
    "store:verboseFlag": ("import lib", "lib.verboseFlag = True\nprint(lib.report())"), "augmented:retryCount": ("import lib", "lib.retryCount += 2\nprint(lib.report())"),
    "patch:fetchRemote": ("import lib", "lib.fetchRemote = lambda: 'stub'\nprint(lib.report())"), "del:tempValue": ("import lib", "del lib.tempValue\nprint(hasattr(lib, 'tempValue'))"),
    # a preserved class used only through its constructor and special methods
    "ctor:Gauge": ("from lib import Gauge", "print(Gauge(3), len(Gauge(4)), Gauge(2) == Gauge(2))"),
    # names only imported (re-exported), never used
    "reexport:exported_only": ("from lib import exported_only, ExportedOnly", "print('imported')"), "reexport-alias": ("from lib import exportedAlias as ea", "print('imported alias')"),
    # methods of a class the client never names: reached through a factory or a module-level instance
    "factory:Converter.toCelsius": ("from lib import makeConverter", "print(makeConverter().toCelsius(212))"), "instance:Converter.toKelvin": ("import lib", "print(lib.defaultConverter.toKelvin(1))"),
    "factory:Converter.toKelvin": ("from lib import makeConverter as mk", "print(mk().toKelvin(2))"),
    # equivalent functions (same code up to parameter / local names) that the library itself never calls: two / all of them preserved
    "equivalent:size+length": ("from lib import size, length", "print(size([1]), length([1, 2]))"), "equivalent:extent": ("import lib", "print(lib.extent('abc'))"),
    # getattr / hasattr with a literal name is beyond the tool's reach by design: not part of the space
}


def client_for(keys):
    imports, body = [], []
    for k in keys:
        imp, use = USES[k]
        if imp not in imports:
            imports.append(imp)
        body.append(use)
    return "\n".join(imports) + "\n\n" + "\n".join(body) + "\n"


def run_client(d):
    p = subprocess.run([sys.executable, "client.py"], cwd=d, capture_output=True, text=True, timeout=60)
    return p.returncode, p.stdout, p.stderr[-300:]


def work_pair(args):
    import importlib
    keys, mode = args
    P.quiet()
    pmain = importlib.import_module("pyrefact.main")
    fails = []
    client = client_for(keys)
    with tempfile.TemporaryDirectory() as d:
        open(os.path.join(d, "lib.py"), "w").write(LIB)
        open(os.path.join(d, "client.py"), "w").write(client)
        want = run_client(d)
        if want[0] != 0:
            return [{"cls": "harness", "what": f"client fails before formatting: {want[2]}"}]
        try:
            if mode.startswith("cli-"):
                extra = {"cli-preserve-client": [os.path.join(d, "client.py")], "cli-preserve-folder": [d],
                         "cli-preserve-both-files": [os.path.join(d, "lib.py"), os.path.join(d, "client.py")]}[mode]
                code = "import sys; sys.path.insert(0, %r); import importlib; m = importlib.import_module('pyrefact.main'); sys.exit(m.main(sys.argv[1:]))" % P.REPO
                p = subprocess.run([sys.executable, "-c", code, os.path.join(d, "lib.py"), "--preserve", *extra, "--n_cores", "2"], capture_output=True, text=True, timeout=600, cwd=d)
                r = ("ok", None) if p.returncode == 0 else ("raises", f"exit {p.returncode}: {p.stderr[-300:]}")
            else:
                used = pmain._used_names_in_file(os.path.join(d, "client.py"))
                r = P.guarded(lambda s: pmain.format_code(s, preserve=used), LIB, 120)
                if r[0] == "ok":
                    open(os.path.join(d, "lib.py"), "w").write(r[1])
        except Exception as ex:  # noqa: BLE001
            return [{"cls": "harness", "what": repr(ex)}]
        if r[0] != "ok":
            fails.append({"cls": f"preserve:{mode}:{r[0]}", "what": f"{mode} {r[0]}: {r[1]}"})
            return fails
        got = run_client(d)
        if got[:2] != want[:2]:
            fails.append({"cls": f"preserve:{mode}:client-broken", "what": f"client using {keys} printed {want[1]!r} before; after formatting the library ({mode}): rc={got[0]} {got[1]!r} {got[2]}",
                          "output": open(os.path.join(d, "lib.py")).read()})
    return fails


def run_c07(tier, seed):
    rnd = random.Random(seed)
    srcs = P.corpus()
    gen = generated(rnd, 150 if tier == "quick" else 1500)
    inputs = rnd.sample(srcs, 100 if tier == "quick" else len(srcs)) + gen
    res = P.pool_map(work_safe, inputs, chunksize=2)
    fl = []
    for s, rs in zip(inputs, res):
        for r in rs:
            fl.append({"id": f"{r['cls']}::{P.sha(s)}", "cls": r["cls"], "input": s, "observed": r["what"], "output": r.get("output"), "required": "surface(input) is a subset of surface(format_code(input, safe=True))"})
    return [{"name": "c07-safe-surface", "function": "main.format_code(safe=True)", "contract": "top-level defs, classes, assigned names, methods and class-level attributes keep their names",
             "space": f"{len(inputs) - len(gen)} corpus modules + {len(gen)} generated modules (unused / mis-cased / duplicate / static / constant definitions from {len(TEMPLATES)} templates) x safe with and without keep_imports",
             "bound": "corpus sample + seeded generation", "evaluations": len(inputs) * 2, "distinct_nontrivial": len(set(inputs)), "exhaustive": False, "failures": P.cap(fl), "samples": [gen[0], gen[-1]]}]


def run_c08(tier, seed):
    rnd = random.Random(seed)
    keys = list(USES)
    subsets = [[k] for k in keys] + [rnd.sample(keys, rnd.choice((2, 3, 4))) for _ in range(10 if tier == "quick" else 60)] + [keys]
    modes = ["library", "cli-preserve-client", "cli-preserve-folder", "cli-preserve-both-files"]
    items = [(ks, m) for ks in subsets for m in modes]
    res = P.pool_map(work_pair, items, chunksize=1, maxtasks=20)
    fl = []
    for (ks, m), rs in zip(items, res):
        for r in rs:
            fl.append({"id": f"{r['cls']}::{'+'.join(ks)}", "cls": r["cls"], "input": client_for(ks), "observed": r["what"], "output": r.get("output"), "required": "definitions used by the preserved client survive; the client prints the same"})
    return [{"name": "c08-preserved-names", "function": "main.format_code(preserve=...), main.main(--preserve ...), main.format_files, main._used_names_in_file",
             "contract": "client program keeps working and prints the same after the library is formatted with the client preserved",
             "space": f"{len(subsets)} subsets of {len(keys)} access forms (from-import, alias, module attribute, class, method, static method, constants) x {modes}",
             "bound": "one library module, enumerated access forms", "evaluations": len(items), "distinct_nontrivial": len(subsets), "exhaustive": False, "failures": P.cap(fl), "samples": [client_for(subsets[-1])]}]


if __name__ == "__main__":
    import collections
    import json
    for r in run_c07(sys.argv[1] if len(sys.argv) > 1 else "quick", 0) + run_c08(sys.argv[1] if len(sys.argv) > 1 else "quick", 0):
        print(json.dumps({k: v for k, v in r.items() if k not in ("failures", "samples")}, indent=1)[:500])
        print(collections.Counter(f["cls"] for f in r["failures"]))
        seen = set()
        for f in r["failures"]:
            if f["cls"] not in seen:
                print("  ", f["cls"], "|", f["observed"][:400], "\n", f["input"][:300])
                seen.add(f["cls"])
