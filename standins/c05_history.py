"""Bounded stand-in for C05: run-time contract "the result depends on the input only" on the real rules and format_code.

For each input x and each f (every public rule, format_code with option sets):  f(x) after the histories
  [] (fresh process), [x], [y, x], [x, y, x], [x, 120 unrelated parses, x]  (the last one evicts the 100-entry parse cache while the
  100000-entry trace/validity caches keep their entries)
are all equal; and after every run each entry of the parse / template caches still equals a fresh build from its key
(cache faithfulness: ast.dump(core.parse(s), include_attributes=True) == ast.dump(ast.parse(s), include_attributes=True): contexts and positions included).
"""
import ast
import random
import subprocess
import sys
import json
import os

from . import pipeline as P

FILLER = [f"def unrelated_{i}(a, b):\n    c_{i} = a + b * {i}\n    return c_{i} - {i}\n" for i in range(130)]


def parse_cache_faithful(texts):
    from pyrefact import core
    bad = []
    for t in texts:
        try:
            fresh = ast.dump(ast.parse(t), include_attributes=True)
        except SyntaxError:
            continue
        try:
            cached = ast.dump(core.parse(t), include_attributes=True)
        except Exception as ex:  # noqa: BLE001
            bad.append((t, f"core.parse raised {type(ex).__name__}"))
            continue
        if cached != fresh:
            bad.append((t, "cached tree differs from a fresh parse of the same text"))
    return bad


def work_rules(args):
    x, y = args
    P.quiet()
    from pyrefact import core
    fails = []
    for q in P.rule_names():
        try:
            f = P.get_rule(q)
        except Exception:  # noqa: BLE001
            continue
        r1 = P.guarded(f, x, 60)
        r2 = P.guarded(f, x, 60)
        if r1[0] == "ok" and r2 != r1:
            fails.append({"cls": f"second-call-differs:{q}", "what": f"{q}: second call on the same input gives a different result ({str(r2)[:80]!r} vs first {str(r1)[:80]!r})"})
            continue
        P.guarded(f, y, 60)
        r3 = P.guarded(f, x, 60)
        if r1[0] == "ok" and r3 != r1:
            fails.append({"cls": f"history-dependent:{q}", "what": f"{q}: result after an unrelated call differs from the first result"})
        bad = parse_cache_faithful([x, y] + ([r1[1]] if r1[0] == "ok" and isinstance(r1[1], str) else []))
        for t, why in bad[:1]:
            fails.append({"cls": f"cache-corrupted:{q}", "what": f"after {q}: {why}", "text": t})
            core.parse.cache_clear()
    return fails


OPTS = [{}, {"safe": True}, {"keep_imports": True}]


def work_format_code(args):
    import pyrefact
    P.quiet()
    from pyrefact import core
    x, y = args
    fails = []
    for kw in OPTS:
        f = lambda s: pyrefact.format_code(s, **kw)  # noqa: E731
        tag = ",".join(sorted(kw)) or "default"
        r1 = P.guarded(f, x, 120)
        if r1[0] != "ok":
            continue
        r2 = P.guarded(f, x, 120)
        if r2 != r1:
            fails.append({"cls": f"second-call-differs:format_code:{tag}", "what": f"format_code({tag}): second call on the same input differs"})
        P.guarded(f, y, 120)
        for t in FILLER:           # evict the bounded caches (parse: 100 entries) but not the large ones
            core.parse(t)
        r3 = P.guarded(f, x, 120)
        if r3 != r1:
            fails.append({"cls": f"history-dependent:format_code:{tag}", "what": f"format_code({tag}): result after other calls and cache eviction differs from the first result"})
        bad = parse_cache_faithful([x, y, r1[1]])
        for t, why in bad[:1]:
            fails.append({"cls": "cache-corrupted:format_code", "what": f"after format_code({tag}): {why}", "text": t})
            core.parse.cache_clear()
    return fails, {k: None for k in ()}


FRESH_SNIPPET = r"""
import sys, json
sys.path.insert(0, %r)
import pyrefact
from pyrefact import logs
logs.set_level(100)
xs = json.load(sys.stdin)
out = []
for x in xs:
    try:
        out.append(pyrefact.format_code(x))
    except BaseException as ex:
        out.append("RAISES " + type(ex).__name__)
print(json.dumps(out))
"""


def fresh_process_results(xs):
    p = subprocess.run([sys.executable, "-c", FRESH_SNIPPET % P.REPO], input=json.dumps(xs), capture_output=True, text=True, timeout=1200)
    return json.loads(p.stdout.strip().splitlines()[-1])


def work_vs_fresh(args):
    """in a long-lived process with a shuffled history, every result equals the fresh-process result"""
    import pyrefact
    P.quiet()
    xs, want, seed = args
    rnd = random.Random(seed)
    order = list(range(len(xs))) * 2
    rnd.shuffle(order)
    fails = []
    for i in order:
        r = P.guarded(pyrefact.format_code, xs[i], 120)
        got = r[1] if r[0] == "ok" else "RAISES " + str(r[1]).split(":")[0]
        if got != want[i]:
            fails.append({"cls": "differs-from-fresh-process:format_code", "what": f"format_code in a process with history gives {got!r}, a fresh process gives {want[i]!r}", "input": xs[i]})
    return fails


def related_family():
    """programs that share sub-expressions in different surroundings: the same constant inner call (among them the one-shot iterators the
    constant evaluator may build: zip, enumerate, reversed, map, filter, iter) under different consumers and in different statements - what a
    cache keyed by the TEXT of an expression, a node hash or a template would confuse"""
    inners = ['zip("a", "b")', 'enumerate("ab")', 'reversed("ab")', 'map(str, (1, 2))', 'filter(None, (0, 1))', 'iter((1, 2))', 'range(2)', '[1, 2]', '{"k": 1}.items()']
    consumers = ["list({})", "tuple({})", "sorted({})", "any({})", "len(list({}))", "bool(list({}))", "dict(enumerate({}))"]
    frames = ["import sys\n\nif {c}:\n    sys.exit(1)\n", "x = 1 if {c} else 2\nprint(x)\n", "def f(y):\n    return {c} and y\n\n\nprint(f(3))\n"]
    out = []
    for k, inner in enumerate(inners):
        for j, cons in enumerate(consumers):
            out.append(frames[(k + j) % len(frames)].format(c=cons.format(inner)))
    return out


def fresh_each(xs):
    return [fresh_process_results([x])[0] for x in xs]


def run(tier, seed):
    rnd = random.Random(seed)
    srcs = P.corpus()
    n1 = 120 if tier == "quick" else len(srcs)
    xs = rnd.sample(srcs, n1)
    pairs = [(x, rnd.choice(srcs)) for x in xs]
    n2 = 48 if tier == "quick" else 300
    fc_pairs = [(x, rnd.choice(srcs)) for x in rnd.sample(srcs, n2)]
    r1 = P.pool_map(work_rules, pairs, chunksize=2)
    r2 = P.pool_map(work_format_code, fc_pairs, chunksize=1)
    # fresh-process comparison: 16 groups
    groups = [[x for x, _ in fc_pairs[i::16]] for i in range(16)]
    groups = [g_ for g_ in groups if g_]
    wants = P.pool_map(fresh_process_results, groups, chunksize=1, maxtasks=1)
    # related programs: each one's reference result comes from a process of its own
    rel = related_family()
    rel_groups = [rel[i::8] for i in range(8)]
    rel_wants = P.pool_map(fresh_each, rel_groups, chunksize=1, maxtasks=1)
    rel_all, rel_want_all = [x for g_ in rel_groups for x in g_], [w for ws in rel_wants for w in ws]
    groups = groups + [rel_all]
    wants = wants + [rel_want_all]
    r3 = P.pool_map(work_vs_fresh, [(g_, w, seed + i) for i, (g_, w) in enumerate(zip(groups, wants))], chunksize=1)
    rules = P.rule_names()
    out = []
    fl = []
    for (x, y), rs in zip(pairs, r1):
        for r in rs:
            fl.append({"id": f"{r['cls']}::{P.sha(x)}", "cls": r["cls"], "input": x, "observed": r["what"], "required": "f(x) is the same after any history; caches stay faithful"})
    out.append({"name": "c05-rules-history", "function": f"{len(rules)} public rules", "contract": "f(x) == f(x) again == f(x) after f(y); parse cache entries equal fresh parses",
                "space": f"{len(pairs)} (x, y) pairs of corpus modules x {len(rules)} rules x histories [x], [x, x], [x, x, y, x]", "bound": "corpus sample", "evaluations": len(pairs) * len(rules) * 4,
                "distinct_nontrivial": len(pairs), "exhaustive": False, "failures": P.cap(fl), "samples": [pairs[0][0][:200]]})
    fl = []
    for (x, y), (rs, _) in zip(fc_pairs, r2):
        for r in rs:
            fl.append({"id": f"{r['cls']}::{P.sha(x)}", "cls": r["cls"], "input": x, "observed": r["what"], "required": "format_code(x) is the same after any history"})
    for g_, rs in zip(groups, r3):
        for r in rs:
            fl.append({"id": f"{r['cls']}::{P.sha(r['input'])}", "cls": r["cls"], "input": r["input"], "observed": r["what"], "required": "same result as in a fresh process"})
    out.append({"name": "c05-format-code-history", "function": "main.format_code", "contract": "same result: first call, second call, after other inputs and eviction of the 100-entry parse cache, fresh process, shuffled history",
                "space": f"{len(fc_pairs)} corpus modules x {len(OPTS)} option sets x histories [x], [x, x], [x, x, y, 130 parses, x]; fresh-process comparison with a shuffled double pass; " + f"{len(rel)} related programs (9 constant inner calls x 7 consumers x 3 statement frames) in one shuffled history against one fresh process each", "bound": "corpus sample",
                "evaluations": len(fc_pairs) * (len(OPTS) * 4 + 3) + 3 * len(rel), "distinct_nontrivial": len(fc_pairs), "exhaustive": False, "failures": P.cap(fl), "samples": [fc_pairs[0][0][:200]]})
    return out


if __name__ == "__main__":
    import collections
    for r in run(sys.argv[1] if len(sys.argv) > 1 else "quick", 0):
        print(json.dumps({k: v for k, v in r.items() if k not in ("failures", "samples")}, indent=1)[:500])
        print(collections.Counter(f["cls"] for f in r["failures"]))
        seen = set()
        for f in r["failures"]:
            if f["cls"] not in seen:
                print("  ", f["cls"], "|", f["observed"][:220], "|", repr(f["input"])[:300])
                seen.add(f["cls"])
