"""C17: the pairwise bound case analysis inside symbolic_math.simplify_boolean_expressions.

The region is located structurally in the REAL AST: loops over `bounds[ast.Op]` / `itertools.combinations(bounds[ast.Op], 2)`
fix which comparison operator each threshold variable carries; every `if <comparison over thresholds>:` is a guard;
every action is `redundant_and_values.add(v)`, `redundant_or_values.add(v)`, `always_true |= ...Or`, `always_false |= ...And`.

One obligation per (guard, action), over the reals (hence the integers), for ALL thresholds and ALL x:
   and-drop  v : G  =>  (C_other => C_v)          dropping v from a conjunction keeps its value
   or-drop   v : G  =>  (C_v => C_other)          dropping v from a disjunction keeps its value
   always-false : G => not (C_1 and ... and C_n)
   always-true  : G => (C_1 or ... or C_n)
where C_i is `x <op_i> thr_i`.  Spec = Python's comparison semantics over numbers (C17's statement).
"""
import ast
import z3

from pyvc.tables import Gen
from pyvc.unit import find_def, segment_sha, NotGenerated

OPS = {"Eq": lambda x, t: x == t, "NotEq": lambda x, t: x != t, "Gt": lambda x, t: x > t, "Lt": lambda x, t: x < t,
       "GtE": lambda x, t: x >= t, "LtE": lambda x, t: x <= t}
CMP = {ast.Gt: lambda a, b: a > b, ast.Lt: lambda a, b: a < b, ast.GtE: lambda a, b: a >= b, ast.LtE: lambda a, b: a <= b,
       ast.Eq: lambda a, b: a == b, ast.NotEq: lambda a, b: a != b}
PYOP = {"Eq": "==", "NotEq": "!=", "Gt": ">", "Lt": "<", "GtE": ">=", "LtE": "<="}


def bounds_op(node):
    if isinstance(node, ast.Subscript) and isinstance(node.value, ast.Name) and node.value.id == "bounds":
        s = node.slice
        if isinstance(s, ast.Attribute) and isinstance(s.value, ast.Name) and s.value.id == "ast" and s.attr in OPS:
            return s.attr
    return None


def extract(fn):
    """-> list of (lineno, guard stack [ast.Compare], action stmt, binds {thr: (op, valuename)})"""
    found = []

    def walk(stmts, binds, guards):
        for st in stmts:
            if isinstance(st, ast.For):
                new = dict(binds)
                ok = False
                op = bounds_op(st.iter)
                if op and isinstance(st.target, ast.Tuple) and len(st.target.elts) == 2 and all(isinstance(e, ast.Name) for e in st.target.elts):
                    thr, val = st.target.elts
                    new[thr.id] = (op, val.id if val.id != "_" else f"_{thr.id}")
                    ok = True
                it = st.iter
                if (isinstance(it, ast.Call) and isinstance(it.func, ast.Attribute) and it.func.attr == "combinations" and it.args
                        and bounds_op(it.args[0]) and isinstance(st.target, ast.Tuple) and len(st.target.elts) == 2):
                    op = bounds_op(it.args[0])
                    try:
                        (t1, v1), (t2, v2) = [(e.elts[0].id, e.elts[1].id) for e in st.target.elts]
                    except Exception:
                        raise NotGenerated(f"combinations target shape at L{st.lineno}")
                    new[t1] = (op, v1 if v1 != "_" else f"_{t1}")
                    new[t2] = (op, v2 if v2 != "_" else f"_{t2}")
                    ok = True
                walk(st.body, new if ok else binds, guards if ok or not binds else guards)
            elif isinstance(st, ast.If):
                t = st.test
                if binds and isinstance(t, ast.Compare) and len(t.ops) == 1 and isinstance(t.left, ast.Name) and isinstance(t.comparators[0], ast.Name) \
                        and t.left.id in binds and t.comparators[0].id in binds:
                    for act in st.body:
                        if isinstance(act, (ast.If, ast.For)):
                            walk([act], binds, guards + [t])
                        else:
                            found.append((st.lineno, guards + [t], act, dict(binds)))
                    if st.orelse:
                        raise NotGenerated(f"guard with else branch at L{st.lineno} (not in the recognised shape)")
                    continue
                walk(st.body, binds, guards)
                walk(st.orelse, binds, guards)
            elif isinstance(getattr(st, "body", None), list):
                walk(st.body, binds, guards)
                walk(getattr(st, "orelse", []) or [], binds, guards)
    walk(fn.body, {}, [])
    return found


def replay_factory(kind, ops_thrs, drop_idx=None):
    """replay of a refuted table obligation on the real rule: smallest source driving the public function"""
    def rp(model):
        import fractions
        vals = {}
        for k, v in model.items():
            try:
                vals[k] = fractions.Fraction(v.replace("?", ""))
            except Exception:
                pass
        try:
            from pyrefact import symbolic_math
        except Exception as ex:
            return {"reproduced": False, "error": repr(ex)}
        atoms = []
        for op, thr in ops_thrs:
            t = vals.get(thr, fractions.Fraction(0))
            tv = int(t) if t.denominator == 1 else float(t)
            atoms.append(f"x {PYOP[op]} {tv}")
        joiner = " or " if kind in ("or-drop", "always-true") else " and "
        expr = joiner.join(atoms)
        src = f"y = {expr}\n"
        out = symbolic_math.simplify_boolean_expressions(src)
        xs = []
        for t in [vals.get(thr, 0) for _, thr in ops_thrs] + [vals.get("x", 0)]:
            t = fractions.Fraction(t)
            xs += [float(t), float(t) - 1, float(t) + 1, float(t) - 0.5, float(t) + 0.5]
        bad = None
        for x in xs:
            try:
                a = eval(compile(src, "<a>", "exec"), {"x": x}, (ga := {}))  # noqa: F841
                b = eval(compile(out, "<b>", "exec"), {"x": x}, (gb := {}))  # noqa: F841
            except Exception as ex:
                return {"reproduced": False, "error": repr(ex)}
            if bool(ga["y"]) != bool(gb["y"]):
                bad = x
                break
        return {"reproduced": bad is not None, "input": src, "output": out, "x": bad,
                "observed": f"values differ at x={bad}" if bad is not None else "no differing x among probes",
                "how": "symbolic_math.simplify_boolean_expressions(input) evaluated before/after at x"}
    return rp


def generate(g: Gen):
    fn, text = find_def("symbolic_math", "simplify_boolean_expressions")
    g.sha = segment_sha(text, fn)
    g.lines = [fn.lineno, fn.end_lineno]
    items = extract(fn)
    if len(items) < 40:
        raise NotGenerated(f"only {len(items)} guarded actions recognised (expected ~80)")
    x = z3.Real("x")
    n_and = n_or = 0
    for lineno, guards, act, binds in items:
        T = {k: z3.Real(k) for k in binds}
        C = {v: OPS[op](x, T[k]) for k, (op, v) in binds.items()}
        thr_of = {v: k for k, (op, v) in binds.items()}
        G = [CMP[type(t.ops[0])](T[t.left.id], T[t.comparators[0].id]) for t in guards]
        names = []
        for t in guards:
            for nm in (t.left.id, t.comparators[0].id):
                if nm not in names:
                    names.append(nm)
        involved = [binds[k][1] for k in names]
        gtxt = " and ".join(ast.unparse(t) for t in guards)
        ops = "x".join(binds[k][0] for k in names)
        if isinstance(act, ast.Expr) and isinstance(act.value, ast.Call) and isinstance(act.value.func, ast.Attribute) \
                and act.value.func.attr == "add" and isinstance(act.value.func.value, ast.Name) and act.value.func.value.id in ("redundant_and_values", "redundant_or_values"):
            setname = act.value.func.value.id
            arg = act.value.args[0]
            if not isinstance(arg, ast.Name) or arg.id not in C:
                raise NotGenerated(f"action argument not a bound value name at L{act.lineno}")
            v = arg.id
            others = [o for o in involved if o != v]
            if len(others) != 1:
                raise NotGenerated(f"cannot pair action at L{act.lineno}")
            w = others[0]
            if setname == "redundant_and_values":
                kind, goal = "and-drop", z3.Implies(C[w], C[v])
                n_and += 1
            else:
                kind, goal = "or-drop", z3.Implies(C[v], C[w])
                n_or += 1
            ot = [(binds[thr_of[w]][0], thr_of[w]), (binds[thr_of[v]][0], thr_of[v])]
            g.oblige("table", f"{kind}:{ops}:[{gtxt}]:drops-{binds[thr_of[v]][0]}", G, goal, act.lineno, replay_factory(kind, ot))
        elif isinstance(act, ast.AugAssign) and isinstance(act.target, ast.Name) and act.target.id in ("always_true", "always_false") and isinstance(act.op, ast.BitOr):
            # `always_true |= isinstance(node.op, ast.Or)` : only meaningful for Or nodes (resp. And for always_false)
            rhs = ast.unparse(act.value)
            want = "ast.Or" if act.target.id == "always_true" else "ast.And"
            if rhs != f"isinstance(node.op, {want})":
                raise NotGenerated(f"unexpected right-hand side `{rhs}` at L{act.lineno}")
            cs = [C[v] for v in involved]
            if act.target.id == "always_true":
                kind, goal = "always-true", z3.Or(*cs)
            else:
                kind, goal = "always-false", z3.Not(z3.And(*cs))
            ot = [(binds[k][0], k) for k in names]
            g.oblige("table", f"{kind}:{ops}:[{gtxt}]", G, goal, act.lineno, replay_factory(kind, ot))
        else:
            raise NotGenerated(f"unrecognised action `{ast.unparse(act)[:60]}` at L{act.lineno}")
        g.cover(f"guard-satisfiable:{ops}:[{gtxt}]", G, lineno)
    # identical-constraint check: `if thr1 == thr2:` over combinations of one operator's bounds (operator unknown => all six)
    ident = [n for n in ast.walk(fn) if isinstance(n, ast.If) and ast.unparse(n.test) == "thr1 == thr2"]
    if len(ident) != 1:
        raise NotGenerated("identical-constraint check `if thr1 == thr2` not found")
    t1, t2 = z3.Reals("thr1 thr2")
    for op in OPS:
        g.oblige("table", f"identical:{op}", [t1 == t2], OPS[op](x, t1) == OPS[op](x, t2), ident[0].lineno)
    # opposite_op_mapping: swapping the operands of `k op x` to `x op' k`
    dicts = [n for n in ast.walk(fn) if isinstance(n, ast.Assign) and isinstance(n.targets[0], ast.Name) and n.targets[0].id == "opposite_op_mapping"]
    if len(dicts) != 1 or not isinstance(dicts[0].value, ast.Dict):
        raise NotGenerated("opposite_op_mapping literal not found")
    a, b = z3.Reals("a b")
    seen = set()
    for k, v in zip(dicts[0].value.keys, dicts[0].value.values):
        ko, vo = k.attr, v.attr
        seen.add(ko)
        g.oblige("table", f"opposite_op_mapping:{ko}", [], OPS[ko](a, b) == OPS[vo](b, a), k.lineno)
    if seen != set(OPS):
        raise NotGenerated(f"opposite_op_mapping keys {sorted(seen)}")
    g.assumptions.add("numeric thresholds (int/float/bool literals) are modelled as reals: no NaN/inf literals")
    g.assumptions.add("compositionality: each dropped operand is implied by (and: implies / or: is implied by) an operand that is kept or itself justified by a strictly stronger one; the rank argument is stated in DESIGN.md, not mechanised")
    return g
