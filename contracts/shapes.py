"""Shapes of the repo's record types (NamedTuple / frozen dataclasses) as used by the contracts."""
RANGE = ("rec", "Range", {"start": "int", "end": "int"})
POSITION = ("rec", "_Position", {"lineno": "int", "col_offset": "int", "end_lineno": "int", "end_col_offset": "int"})
TRANSACTION = ("rec", "_Transaction", {"group_number": "int", "transaction_number": "int", "group_name": "str"})
REWRITE = ("rec", "_Rewrite", {"old": RANGE, "new": "obj"})
RW_ENTRY = ("tuple", [RANGE, REWRITE])                  # (range, rewrite)
SCHED_ENTRY = ("tuple", [TRANSACTION, RW_ENTRY])        # (transaction, (range, rewrite))

RECORDS = {
    "Range": ["start", "end"], "core.Range": ["start", "end"],
    "_Position": ["lineno", "col_offset", "end_lineno", "end_col_offset"],
    "_Transaction": ["group_number", "transaction_number", "group_name"],
    "_Rewrite": ["old", "new"],
}
