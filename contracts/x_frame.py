"""C05: frame obligations from the ownership checker (pyvc/frame.py), one per write site of the package."""
import z3
from pyvc.tables import Gen
from pyvc.unit import NotGenerated


PURE_ANALYSES = {"core.has_side_effect", "core.is_blocking", "core._is_exception", "core._loop_may_be_left", "core.literal_value", "core._literal_value", "core.match_template",
                 "core._match_list", "core._match_set", "core._match_tuple", "core._match_wildcard", "core.merge_matches", "core.walk", "core.walk_wildcard", "core.walk_sequence",
                 "core.filter_nodes", "core.get_charnos", "core.get_code", "core.has_ignore_comment", "core.unparse", "parsing.safe_callable_names", "parsing.assignment_targets",
                 "tracing.get_imported_names", "tracing.get_defined_names", "fixes._get_uses_of", "fixes._iter_unused_names", "abstractions.hash_node"}
REVIEWED_CACHES = {"core._get_line_start_charnos", "core._group_nodes_in_scope", "core._issubclas_cache", "core._make_match_type", "core.compile_template", "core.is_valid_python",
                   "core.parse", "core.parse_line_length_from_pyproject_toml", "tracing.trace_origin"}


def generate(g: Gen):
    from pyvc import frame
    pkg, res = frame.analyse()
    n = 0
    cached = sorted(k for k in pkg.cached if k in pkg.funcs)
    if len(cached) < 5:
        raise NotGenerated(f"only {len(cached)} lru_cache'd functions found")
    for key, a in sorted(res.items()):
        for line, kind, text, recv in a.sites:
            n += 1
            name = f"{kind}:{text}"
            if recv.kind in ("FRESH", "DEEP", "IMM"):
                g.oblige("frame", f"{key}:{name}", [], z3.BoolVal(True), line)
            elif recv.kind == "PARAM" and key in PURE_ANALYSES and not kind.startswith("call:"):
                # the analyses every rule relies on are called again and again with the same tree / whitelist / preserve set: a write through one
                # of their parameters makes a later answer depend on the earlier questions (C05), whoever owns the argument
                g.oblige("frame", f"{key}:{name}:analysis-writes-through-its-parameter-{'-'.join(sorted(recv.params))}", [], z3.BoolVal(False), line)
            elif recv.kind == "PARAM":
                # accounted to the caller: every call site passing this parameter is its own obligation (kind call:...)
                g.oblige("frame", f"{key}:{name}:through-parameter-{'-'.join(sorted(recv.params))}", [], z3.BoolVal(True), line)
            elif recv.kind == "SHARED":
                g.oblige("frame", f"{key}:{name}", [], z3.BoolVal(False), line)
            elif recv.kind == "GLOBAL":
                # a write into module-level state (a table shared by all calls): what one call leaves there is seen by the next one - the
                # pinned tree has no such site outside the lru_caches
                g.oblige("frame", f"{key}:{name}:write-into-module-level-state", [], z3.BoolVal(False), line)
            else:
                # unclassifiable receiver: undecided, never a violation
                g.obligs.append(_undecided(g, f"{key}:frame:{name}@L{line}", line))
    # every cache is a place where a history can leak: the ownership rules were reviewed against the caches below (what they hand out is an AST, a
    # compiled template, a tuple, a bool or a string).  A cache that is not on the list hands out values of an unreviewed kind (an iterator is
    # consumed by reading it): undecided, and the history stand-in decides.
    for k in cached:
        g.oblige_text("frame", f"cached-function-hands-out-a-reviewed-kind-of-value:{k}", k in REVIEWED_CACHES, pkg.funcs[k].node.lineno if hasattr(pkg.funcs[k], "node") else 0)
    if n < 300:
        raise NotGenerated(f"only {n} write sites found")
    g.lines = None
    g.assumptions.add(f"cached functions discovered: {', '.join(cached)}")
    g.assumptions.add("soundness of the ownership rules (pyvc/frame.py) is stated, not mechanised; no setattr by computed name on shared objects (scanned: setattr sites are write sites)")
    g.assumptions.add("library calls other than the modelled ones (copy, ast helpers, NodeTransformer.visit, container methods) do not write through their arguments")
    g.assumptions.add("cached functions are pure in their arguments except parse_line_length_from_pyproject_toml (cwd) and trace_origin (import system / file system), fixed during a run")
    g.assumptions.add("meta-argument (not mechanised): no write through cache-reachable references + pure cached functions => every cache entry equals a fresh computation")


def _undecided(g, name, line):
    from pyvc.engine import Oblig
    # an obligation whose goal is an uninterpreted Bool constant is neither provable nor refutable with a meaningful model:
    # the discharge step reports it as refuted-with-trivial-model, so it is emitted with kind 'unclassified' and mapped below
    o = Oblig(name, [], z3.Bool("receiver_is_fresh_" + str(line)), line, "unclassified")
    return o
