"""core.literal_value / _literal_value (C15, C04).

C15: "that value equals what Python computes ... expressions whose evaluation would raise or has effects are treated as
unknown, never as a value and never as a crash".  Contracts:
  * literal_value lets only ValueError escape, whatever _literal_value raises (C04: "signals unknown only via ValueError");
  * `and` returns the first falsy operand value else the last, `or` the first truthy else the last (Python's semantics),
    each operand evaluated left to right, at most once on the returned path;
  * a comparison chain is the conjunction of the adjacent comparisons, operands aligned as Python aligns them;
  * `not` negates the truth of its operand;
  * the set of builtins the evaluator may call is inside the allow-list of pure, deterministic, terminating builtins;
  * every call site of literal_value is lexically inside a `try` whose handlers cover ValueError.
The operator table itself (COMPARISON_OPERATORS) is contracts/x_tables.py.  CPython's operators are the oracle of the
bounded stand-in, not of these contracts.
"""
import ast
import os
import z3

from pyvc.unit import Unit, NotGenerated, find_def, segment_sha, module_source, REPO
from pyvc.tables import Gen
from pyvc.values import VBool, VObj, VInt, OBJ, B, I, fresh, fresh_val

ESCAPING = ("ZeroDivisionError", "TypeError", "OverflowError", "AttributeError", "RecursionError", "MemoryError", "IndexError", "KeyError",
            "SyntaxError", "ValueError", "UnicodeDecodeError", "NameError", "RuntimeError", "AssertionError", "StopIteration")

inner_summary = Unit("core", "_literal_value", name="core._literal_value#raises-anything", params={"node": "obj"}, returns="obj",
                     raises_spec=ESCAPING)

literal_value = Unit(
    "core", "literal_value",
    params={"node": "obj"}, returns="obj", raises={"ValueError"},
    ensures=[("value-is-the-evaluators", "True")],
    calls={"_literal_value": ("contract", inner_summary)},
    exc_mode={"*": "edge"}, props=("C04", "C15"),
    note="every exception class the evaluator can raise (operators, builtins, methods of constants, ast.literal_eval, recursion, memory) is an exceptional edge of the call",
)

# ----------------------------------------------------------------------------- and / or / not / comparison chain
lv = z3.Function("literal_value_of", OBJ, OBJ)       # value of a child expression (recursive call, by contract)
truthy = z3.Function("truthy", OBJ, B)
apply_op = z3.Function("apply_operator", OBJ, OBJ, OBJ, OBJ)   # COMPARISON_OPERATORS[type(op)](l, r)


def _lv_call(eng, args, kw, env, pc, node):
    flag = fresh("raises_ValueError_literal_value", B)
    eng.may_raise("ValueError", flag, pc, getattr(node, "lineno", 0), "call:literal_value")
    return VObj(lv(args[0].t))


def g_lv(eng, args, kw, env, pc, node):
    return VObj(lv(args[0].t))


def g_apply(eng, args, kw, env, pc, node):
    return VObj(apply_op(args[0].t, args[1].t, args[2].t))


def _op_table_call(eng, f, args, kw, env, pc, e):
    """constants.COMPARISON_OPERATORS[type(op)](l, r): f is the looked-up function value (opaque, tagged with the op)"""
    if getattr(f, "op", None) is None:
        from pyvc.engine import Undecided
        raise Undecided("call of an opaque value", e.lineno)
    return VObj(apply_op(f.op.t, args[0].t, args[1].t))


def _subscript_vfunc(eng, base, idx, pc, line):
    from pyvc.engine import Undecided
    if getattr(base, "name", None) != "constants.COMPARISON_OPERATORS" or getattr(idx, "type_of", None) is None:
        raise Undecided("subscript of a module attribute", line)
    out = VObj(fresh("opfn", OBJ))
    out.op = idx.type_of
    return out


def _type(eng, args, kw, env, pc, node):
    out = VObj(fresh("type", OBJ))
    out.type_of = args[0]
    return out


def _branch(fn, test_src):
    for n in ast.walk(fn):
        if isinstance(n, ast.If) and ast.unparse(n.test) == test_src:
            return n
    raise NotGenerated(f"_literal_value: branch `if {test_src}` not found")


def slice_and(fn):
    return _branch(fn, "isinstance(node.op, ast.And)").body, "and"


def slice_or(fn):
    return _branch(fn, "isinstance(node.op, ast.Or)").body, "or"


def slice_not(fn):
    return _branch(fn, "match_template(node, ast.UnaryOp(op=ast.Not, operand=object))").body, "not"


def slice_compare(fn):
    return _branch(fn, "match_template(node, ast.Compare(left=object, ops={object}, comparators={object}))").body, "compare-chain"


NODE = {"values": ("seq", "obj"), "operand": "obj", "left": "obj", "ops": ("seq", "obj"), "comparators": ("seq", "obj")}
COMMON = dict(params={"node": "obj"}, returns="obj", attrs=NODE, calls={"literal_value": _lv_call}, ghost={"lv": g_lv},
              exc_mode={"ValueError": "edge", "IndexError": "oblige"}, props=("C15",))

and_loop = Unit(
    "core", "_literal_value", slice=slice_and,
    requires=[("nonempty-checked-before", "len(node.values) >= 1")],
    ensures=[("first-falsy-else-last",
              "exists(lambda k: 0 <= k and k < len(node.values) and result == lv(node.values[k]) and not result"
              " and forall(lambda j: implies(0 <= j and j < k, truth(lv(node.values[j])))))"
              " or (result == lv(node.values[len(node.values) - 1]) and forall(lambda j: implies(0 <= j and j < len(node.values), truth(lv(node.values[j])))))")],
    loops={0: {"inv": ["forall(lambda j: implies(0 <= j and j < _i, truth(lv(node.values[j]))))", "implies(_i > 0, result == lv(node.values[_i - 1]))"],
               "declare": {"result": "obj"}}},
    **COMMON,
)
and_loop.ghost = dict(and_loop.ghost, truth=lambda eng, args, kw, env, pc, node: VBool(eng.truth(args[0])))
and_loop.key_suffix = "and"

or_loop = Unit(
    "core", "_literal_value", slice=slice_or,
    requires=[("nonempty-checked-before", "len(node.values) >= 1")],
    ensures=[("first-truthy-else-last",
              "exists(lambda k: 0 <= k and k < len(node.values) and result == lv(node.values[k]) and truth(result)"
              " and forall(lambda j: implies(0 <= j and j < k, not truth(lv(node.values[j])))))"
              " or (result == lv(node.values[len(node.values) - 1]) and forall(lambda j: implies(0 <= j and j < len(node.values), not truth(lv(node.values[j])))))")],
    loops={0: {"inv": ["forall(lambda j: implies(0 <= j and j < _i, not truth(lv(node.values[j]))))", "implies(_i > 0, result == lv(node.values[_i - 1]))"],
               "declare": {"result": "obj"}}},
    **COMMON,
)
or_loop.ghost = dict(or_loop.ghost, truth=lambda eng, args, kw, env, pc, node: VBool(eng.truth(args[0])))
or_loop.key_suffix = "or"

not_branch = Unit(
    "core", "_literal_value", slice=slice_not,
    ensures=[("negates-operand-truth", "iff(result, not truth(lv(node.operand)))")],
    **COMMON,
)
not_branch.ghost = dict(not_branch.ghost, truth=lambda eng, args, kw, env, pc, node: VBool(eng.truth(args[0])))
not_branch.returns = "bool"
not_branch.key_suffix = "not"

compare_chain = Unit(
    "core", "_literal_value", slice=slice_compare,
    requires=[("parser-shape", "len(node.ops) == len(node.comparators) and len(node.ops) >= 1")],
    ensures=[("conjunction-of-adjacent-comparisons",
              "iff(result, forall(lambda k: implies(0 <= k and k < len(node.ops),"
              " truth(apply(node.ops[k], lv(node.left) if k == 0 else lv(node.comparators[k - 1]), lv(node.comparators[k]))))))")],
    **{**COMMON, "calls": {"literal_value": _lv_call, "type": _type, "<call-value>": _op_table_call}},
    subscripts={"VFunc": _subscript_vfunc},
)
compare_chain.ghost = dict(compare_chain.ghost, truth=lambda eng, args, kw, env, pc, node: VBool(eng.truth(args[0])), apply=g_apply)
compare_chain.returns = "bool"
compare_chain.key_suffix = "compare-chain"

UNITS = [literal_value, and_loop, or_loop, not_branch, compare_chain]

# ----------------------------------------------------------------------------- allow-list and call sites (table obligations)
PURE_ALLOW_LIST = {"abs", "all", "any", "ascii", "bin", "bool", "bytes", "bytearray", "chr", "complex", "dict", "divmod", "enumerate", "float", "format",
                   "frozenset", "hex", "int", "len", "list", "max", "min", "oct", "ord", "pow", "range", "repr", "reversed", "round", "set", "slice",
                   "sorted", "str", "sum", "tuple", "zip", "isinstance", "issubclass", "callable", "map", "filter", "type"}


def gen_allow_list(g: Gen):
    """the callable set of the evaluator: (a) which constant gates calls, read from the real _literal_value; (b) every name in
    that constant is in the spec's allow-list of pure, deterministic, terminating builtins"""
    fn, text = find_def("core", "_literal_value")
    g.sha = segment_sha(text, fn)
    g.lines = [fn.lineno, fn.end_lineno]
    gates = set()
    for n in ast.walk(fn):
        if isinstance(n, ast.Compare) and len(n.ops) == 1 and isinstance(n.ops[0], ast.In) and ast.unparse(n.left) == "node.func.id":
            gates.add(ast.unparse(n.comparators[0]))
        if isinstance(n, ast.Call) and ast.unparse(n.func) == "has_side_effect":
            for kw in n.keywords:
                if kw.arg == "safe_callable_whitelist":
                    gates.add(ast.unparse(kw.value))
    calls_builtins = [n for n in ast.walk(fn) if isinstance(n, ast.Call) and ast.unparse(n.func) == "getattr" and n.args and ast.unparse(n.args[0]) == "builtins"]
    if not calls_builtins or not gates:
        raise NotGenerated("_literal_value: builtin call gate not found")
    g.oblige("table", "single-gate-constant", [], z3.BoolVal(len(gates) == 1), fn.lineno)
    text_c, tree_c = module_source("constants")
    for gate in sorted(gates):
        name = gate.split(".")[-1]
        node = None
        for st in tree_c.body:
            if isinstance(st, ast.Assign) and isinstance(st.targets[0], ast.Name) and st.targets[0].id == name:
                node = st
        if node is None:
            raise NotGenerated(f"constants.{name} not found")
        try:
            v = node.value
            if isinstance(v, ast.Call) and v.args:
                v = v.args[0]
            names = ast.literal_eval(v)
        except Exception:
            # not a literal (e.g. computed from dir(builtins)): evaluate the real constant
            import importlib
            import sys
            sys.path.insert(0, REPO)
            names = getattr(importlib.import_module("pyrefact.constants"), name)
        for nm in sorted(names):
            g.oblige("table", f"pure-deterministic-terminating:{nm}", [], z3.BoolVal(nm in PURE_ALLOW_LIST), node.lineno)
    g.assumptions.add("the allow-list of pure/deterministic/terminating builtins is part of the spec (contracts/c_literal_value.py); methods of constant receivers (str/bytes/int methods) are assumed pure")


CALLERS = ["core", "fixes", "symbolic_math", "performance", "performance_numpy", "performance_pandas", "abstractions", "object_oriented", "parsing", "tracing", "processing", "main"]


def gen_call_sites(g: Gen):
    """every call `literal_value(...)` outside literal_value/_literal_value is lexically inside a try whose handlers cover ValueError"""
    n_sites = 0
    for mod in CALLERS:
        try:
            text, tree = module_source(mod)
        except FileNotFoundError:
            continue
        parents = {}
        for p in ast.walk(tree):
            for c in ast.iter_child_nodes(p):
                parents[id(c)] = p
        for n in ast.walk(tree):
            if isinstance(n, ast.Call) and ast.unparse(n.func) in ("literal_value", "core.literal_value"):
                # enclosing function
                f = n
                covered = False
                fname = "<module>"
                child = n
                while id(f) in parents:
                    child, f = f, parents[id(f)]
                    if isinstance(f, ast.Try) and child in f.body:
                        for h in f.handlers:
                            names = ["BaseException"] if h.type is None else ([ast.unparse(x) for x in h.type.elts] if isinstance(h.type, ast.Tuple) else [ast.unparse(h.type)])
                            if any(x in ("ValueError", "Exception", "BaseException") for x in names):
                                covered = True
                    if isinstance(f, (ast.FunctionDef, ast.AsyncFunctionDef)):
                        fname = f.name
                        break
                if mod == "core" and fname in ("literal_value", "_literal_value"):
                    continue
                n_sites += 1
                g.oblige("guard", f"literal_value-handled:{mod}.{fname}", [], z3.BoolVal(covered), n.lineno)
    if n_sites < 5:
        raise NotGenerated(f"only {n_sites} call sites of literal_value found")
    g.lines = None
