"""processing._schedule_rewrites, _get_charnos, _apply_rewrites, fix, chain  (C10; shared by C03, C06, C09, C20)

Every top-level postcondition is a sentence of property C10:
  * "rewrites that a rule groups into a transaction are applied all together or not at all"     -> step:all-or-nothing
  * "no two applied rewrites touch overlapping text"                                             -> step/loop:never-overlap
  * "a transaction is dropped only if it overlaps itself, ... overlaps a transaction with
     precedence ..., or touches an ignored line"                                                 -> step:dropped-only-if
  * "precedence (earlier rule, then lower transaction number)"                                   -> loop:precedence
  * "If the combined result of a pass would not parse, the pass leaves the text exactly as
     it was"                                                                                     -> _apply_rewrites:valid-or-unchanged
"""
import ast
from pyvc.unit import Unit, NotGenerated
from .shapes import RANGE, REWRITE, RW_ENTRY, SCHED_ENTRY, TRANSACTION, RECORDS
from .c_core_range import and_ as range_and, OV


# ----------------------------------------------------------------------------- slices (located structurally)
def _group_loop(fn):
    """the LAST `for t in <...transaction_rewrites...>` loop inside the `for k, (...) in enumerate(funcs)` loop"""
    outer = [n for n in fn.body if isinstance(n, ast.For)]
    if not outer:
        raise NotGenerated("_schedule_rewrites: no outer loop over funcs")
    cands = [n for n in outer[0].body if isinstance(n, ast.For) and isinstance(n.target, ast.Name) and n.target.id == "t"
             and "transaction_rewrites" in ast.unparse(n.iter)]
    if not cands:
        raise NotGenerated("_schedule_rewrites: conflict loop `for t in ... transaction_rewrites` not found")
    return cands[-1]


def slice_step(fn):
    return _group_loop(fn).body, "step"


def slice_loop(fn):
    return [_group_loop(fn)], "conflict-loop"


def slice_final_sort(fn):
    outer = [n for n in fn.body if isinstance(n, ast.For)]
    idx = fn.body.index(outer[0])
    rest = [s for s in fn.body[idx + 1:] if not isinstance(s, ast.If)]   # the `if ... logger.error` report is dropped
    if not rest or not isinstance(rest[-1], ast.Return):
        raise NotGenerated("_schedule_rewrites: tail (sort + return) not found")
    return rest, "final-sort"


# ----------------------------------------------------------------------------- shared ghost definitions
GHOST = {
    "ov": OV,
    "ign": "lambda r: core.has_ignore_comment(source, r)",
    # conflict witness for the transaction being processed (R = its normalised rewrites, S = schedule before the step)
    "witness": "lambda R, S: exists(lambda p: 0 <= p and p < len(R) and ign(R[p][0]))"
               " or exists(lambda p, q: 0 <= p and p < q and q < len(R) and ov(R[p][0], R[q][0]))"
               " or exists(lambda p, s: 0 <= p and p < len(R) and 0 <= s and s < len(S) and ov(R[p][0], S[s][1][0]))",
    "pairwise_ok": "lambda S: forall(lambda a, b: implies(0 <= a and a < b and b < len(S), not ov(S[a][1][0], S[b][1][0])))",
    "no_ignored": "lambda S: forall(lambda a: implies(0 <= a and a < len(S), not ign(S[a][1][0])))",
    "rep": "lambda R: forall(lambda p: implies(0 <= p and p < len(R), R[p][0] == R[p][1].old))",
    "clean_upto": "lambda R, S, i: forall(lambda p, q: implies(0 <= p and p < i and p < q and q < len(R), not ov(R[p][0], R[q][0])))"
                  " and forall(lambda p, s: implies(0 <= p and p < i and 0 <= s and s < len(S), not ov(R[p][0], S[s][1][0])))",
    "tlt": "lambda a, b: a.group_number < b.group_number or (a.group_number == b.group_number and"
           " (a.transaction_number < b.transaction_number or (a.transaction_number == b.transaction_number and a.group_name < b.group_name)))",
}

get_charnos_rw = Unit(
    "processing", "_get_charnos",
    params={"obj": REWRITE, "source": "str"}, returns=RANGE,
    ensures=[("range-target-is-its-own-range", "result == obj.old")],
    records=RECORDS, props=("C10",),
    note="restricted to rewrites whose target is already a Range (what fill_transaction produces)",
)

CALLS = {
    "Range.__and__": ("contract", range_and),
    "_get_charnos": ("contract", get_charnos_rw),
    "core.has_ignore_comment": ("uf", "bool"),
}


# cut point after `rewrites = sorted({(_get_charnos(r, source), r) for r in rewrites}, ...)`: what the rest of the
# step needs to know about the normalised list (applies to the second assignment to `rewrites`, whose elements are (range, rewrite) tuples)
CUTS = {"rewrites": {"when": lambda v: getattr(v, "shape", None) is not None and v.shape[0] == "tuple",
                     "facts": [("entry-range-is-target-range", "forall(lambda p: implies(0 <= p and p < len(rewrites), rewrites[p][0] == rewrites[p][1].old))")]}}


def inner_loops(base):
    """invariants of the three inner loops, keyed by syntactic ordinal (base = ordinal of the enumerate loop)"""
    return {
        base: {"inv": ["not conflicting", "clean_upto(rewrites, scheduled_rewrites, _i)"]},
        # absolute indices into `rewrites` (the loop iterates the slice rewrites[i + 1:]): robust for the solver
        base + 1: {"inv": ["not conflicting",
                           "forall(lambda q: implies(i < q and q < i + 1 + _i and q < len(rewrites), not ov(rewrite_range, rewrites[q][0])))"]},
        base + 2: {"inv": ["forall(lambda q: implies(0 <= q and q < _i, not ov(rewrite_range, _iter[q][1][0])))",
                           "implies(conflicting, witness(rewrites, scheduled_rewrites))",
                           "implies(not conflicting, forall(lambda q: implies(i < q and q < len(rewrites), not ov(rewrite_range, rewrites[q][0]))))"]},
    }


STEP_PARAMS = {"t": TRANSACTION, "k": "int", "transaction_rewrites": ("map", TRANSACTION, ("seq", REWRITE)),
               "scheduled_rewrites": ("seq", SCHED_ENTRY), "source": "str"}

step = Unit(
    "processing", "_schedule_rewrites", slice=slice_step,
    params=STEP_PARAMS,
    requires=[("schedule-pairwise-disjoint", "pairwise_ok(scheduled_rewrites)"),
              ("schedule-free-of-ignored-lines", "no_ignored(scheduled_rewrites)")],
    ensures=[
        ("all-or-nothing",
         "scheduled_rewrites == old(scheduled_rewrites)"
         " or implies(defined('rewrites'), scheduled_rewrites == old(scheduled_rewrites) + [(t, r) for r in rewrites])"),
        ("other-group-untouched", "implies(t.group_number != k, scheduled_rewrites == old(scheduled_rewrites))"),
        ("dropped-only-if",
         "implies(defined('rewrites'), implies(len(scheduled_rewrites) == len(old(scheduled_rewrites)) and len(rewrites) > 0,"
         " witness(rewrites, old(scheduled_rewrites))))"),
        ("applied-if-no-conflict",
         "implies(defined('rewrites'), implies(not witness(rewrites, old(scheduled_rewrites)),"
         " len(scheduled_rewrites) == len(old(scheduled_rewrites)) + len(rewrites)))"),
        ("normalised-entries", "implies(defined('rewrites'), rep(rewrites))"),
        ("never-overlap", "pairwise_ok(scheduled_rewrites)"),
        ("no-ignored-line", "no_ignored(scheduled_rewrites)"),
        ("earlier-schedule-kept", "len(scheduled_rewrites) >= len(old(scheduled_rewrites))"
         " and forall(lambda s: implies(0 <= s and s < len(old(scheduled_rewrites)), scheduled_rewrites[s] == old(scheduled_rewrites)[s]))"),
        ("appended-entries-carry-t", "forall(lambda s: implies(len(old(scheduled_rewrites)) <= s and s < len(scheduled_rewrites), scheduled_rewrites[s][0] == t))"),
        ("only-own-group-appended", "implies(len(scheduled_rewrites) > len(old(scheduled_rewrites)), t.group_number == k)"),
    ],
    modifies=("scheduled_rewrites",),
    loops=inner_loops(0), ghost=GHOST, calls=CALLS, records=RECORDS, props=("C10", "C20"), cuts=CUTS,
)
step.key_suffix = "step"

loop = Unit(
    "processing", "_schedule_rewrites", slice=slice_loop,
    params={k: v for k, v in STEP_PARAMS.items() if k != "t"},
    requires=[("schedule-pairwise-disjoint", "pairwise_ok(scheduled_rewrites)"),
              ("schedule-free-of-ignored-lines", "no_ignored(scheduled_rewrites)"),
              ("earlier-groups-only", "forall(lambda s: implies(0 <= s and s < len(scheduled_rewrites), scheduled_rewrites[s][0].group_number < k))")],
    ensures=[
        ("never-overlap", "pairwise_ok(scheduled_rewrites)"),
        ("no-ignored-line", "no_ignored(scheduled_rewrites)"),
        ("earlier-schedule-kept", "len(scheduled_rewrites) >= len(old(scheduled_rewrites))"
         " and forall(lambda s: implies(0 <= s and s < len(old(scheduled_rewrites)), scheduled_rewrites[s] == old(scheduled_rewrites)[s]))"),
        ("groups-up-to-k", "forall(lambda s: implies(0 <= s and s < len(scheduled_rewrites), scheduled_rewrites[s][0].group_number <= k))"),
    ],
    loops={
        0: {"iter_facts": [("transactions-visited-in-strictly-increasing-order",
                            "forall(lambda p, q: implies(0 <= p and p < q and q < _n, tlt(_iter[p], _iter[q])))")],
            "inv": ["pairwise_ok(scheduled_rewrites)", "no_ignored(scheduled_rewrites)",
                    "len(scheduled_rewrites) >= len(_entry.scheduled_rewrites)",
                    "forall(lambda s: implies(0 <= s and s < len(_entry.scheduled_rewrites), scheduled_rewrites[s] == _entry.scheduled_rewrites[s]))",
                    # precedence: whatever is scheduled has precedence over every transaction still to be processed
                    "forall(lambda s, q: implies(0 <= s and s < len(scheduled_rewrites) and _i <= q and q < _n and _iter[q].group_number == k,"
                    " tlt(scheduled_rewrites[s][0], _iter[q])))",
                    "forall(lambda s: implies(0 <= s and s < len(scheduled_rewrites), scheduled_rewrites[s][0].group_number <= k))"],
            "body_contract": step},
    },
    ghost=GHOST, calls=CALLS, records=RECORDS, props=("C10", "C06"), cuts=CUTS,
)
loop.key_suffix = "conflict-loop"


final_sort = Unit(
    "processing", "_schedule_rewrites", slice=slice_final_sort,
    params={"scheduled_rewrites": ("seq", SCHED_ENTRY)},
    requires=[("schedule-pairwise-disjoint", "pairwise_ok(scheduled_rewrites)")],
    ensures=[
        ("same-length", "len(result) == len(old(scheduled_rewrites))"),
        ("never-overlap", "pairwise_ok(result)"),
        ("descending-by-range", "forall(lambda a, b: implies(0 <= a and a < b and b < len(result),"
         " result[a][1][0].start > result[b][1][0].start or (result[a][1][0].start == result[b][1][0].start and result[a][1][0].end >= result[b][1][0].end)))"),
        # reverse-position application: a later-applied non-empty rewrite lies entirely before every earlier-applied one
        ("later-applied-lies-before", "forall(lambda a, b: implies(0 <= a and a < b and b < len(result)"
         " and result[a][1][0].start < result[a][1][0].end and result[b][1][0].start < result[b][1][0].end,"
         " result[b][1][0].end <= result[a][1][0].start))"),
    ],
    ghost={k: v for k, v in GHOST.items() if k in ("ov", "pairwise_ok")},
    calls={"core.unparse": ("uf", "str")}, records=RECORDS, props=("C10", "C06"),
)
final_sort.key_suffix = "final-sort"

VALID_CALLS = {"core.is_valid_python": ("uf", "bool"), "_do_rewrite": ("uf", "str"),
               "_substitute_original_strings": ("uf", "str"), "_substitute_original_fstrings": ("uf", "str")}

apply_rewrites = Unit(
    "processing", "_apply_rewrites",
    params={"source": "str", "rewrites": ("seq", SCHED_ENTRY)}, returns="str",
    ensures=[("valid-or-unchanged", "result == source or core.is_valid_python(result)"),
             # "If the combined result of a pass would not parse, the pass leaves the text as it was" - and only then: whatever is returned, every
             # scheduled rewrite has been applied to the text first (no rewrite is skipped, the pass is not abandoned half way: a validity test
             # can only look at the COMBINED text)
             ("every-scheduled-rewrite-is-applied-before-the-pass-is-judged", "__calls__do_rewrite__ == len(rewrites)")],
    loops={0: {"inv": ["__calls__do_rewrite__ == _i"]}},
    calls=VALID_CALLS, records=RECORDS, props=("C10", "C03"),
)

apply_summary = Unit("processing", "_apply_rewrites", name="processing._apply_rewrites#summary",
                     params={"source": "str", "rewrites": ("seq", SCHED_ENTRY)}, returns="str",
                     ensures=[("valid-or-unchanged", "result == source or core.is_valid_python(result)")],
                     calls=VALID_CALLS, records=RECORDS)


def _lazy_schedule(eng, e, env, pc):
    """_schedule_rewrites(...) at its call sites in fix/chain: arguments are not evaluated (rule generator objects);
    the result is an arbitrary schedule -- the callers' contracts must hold for every schedule"""
    from pyvc.values import fresh_val
    eng.assumptions.add("havoc:_schedule_rewrites result (callers proved for every schedule)")
    return fresh_val("schedule", ("seq", SCHED_ENTRY))


_lazy_schedule.lazy_args = True

PASS_CALLS = {"_schedule_rewrites": _lazy_schedule, "_apply_rewrites": ("contract", apply_summary),
              "core.is_valid_python": ("uf", "bool"), "_build_chain": ("havoc", "obj")}

fix_wrapper = Unit(
    "processing", "fix.fix_decorator.wrapper",
    params={"source": "str", "max_iter": "int"}, returns="str",
    requires=[("valid-input", "core.is_valid_python(source)")],
    ensures=[("valid-output", "core.is_valid_python(result)")],
    loops={0: {"inv": ["core.is_valid_python(source)"]}},
    calls=PASS_CALLS, records=RECORDS, props=("C03", "C10", "C09"),
)

chain_func = Unit(
    "processing", "chain.func_chain",
    params={"source": "str", "max_iter": "int", "preserve": ("set", "str"), "fix_funcs": "obj"}, returns="str",
    requires=[("valid-input", "core.is_valid_python(source)")],
    ensures=[("valid-output", "core.is_valid_python(result)")],
    loops={0: {"inv": ["core.is_valid_python(source)"]}},
    calls=PASS_CALLS, records=RECORDS, props=("C03", "C10", "C09"),
)

UNITS = [get_charnos_rw, step, loop, final_sort, apply_rewrites, fix_wrapper, chain_func]


# ----------------------------------------------------------------------------- duplicate elimination (C10, C06)
def slice_dedupe(fn):
    """inside the loop over funcs: from `seen_transactions = set()` through the loop that collects duplicate_transaction_keys"""
    outer = [n for n in fn.body if isinstance(n, ast.For)]
    if not outer:
        raise NotGenerated("_schedule_rewrites: no outer loop over funcs")
    body = outer[0].body
    idx = [k for k, s in enumerate(body) if isinstance(s, ast.Assign) and ast.unparse(s.targets[0]) == "seen_transactions"]
    if not idx:
        raise NotGenerated("_schedule_rewrites: `seen_transactions = set()` not found")
    out = body[idx[0]:]
    loops_ = [k for k, s in enumerate(out) if isinstance(s, ast.For)]
    if not loops_:
        raise NotGenerated("_schedule_rewrites: duplicate-collecting loop not found")
    return out[:loops_[0] + 1], "duplicate-detection"


def _tuple_hook(eng, args, kw, env, pc, line):
    """tuple(<list of rewrites>): an opaque value that is a function of the list (equal lists give equal tuples; tuples of frozen dataclasses
    compare element-wise, so equal tuples mean equal lists - the reading the postcondition relies on is stated, not derived)"""
    from pyvc.values import VObj, OBJ
    seq = args[0]
    flat = eng.flatten(seq)
    return VObj(eng.uf("as_tuple", [t.sort() for t in flat], OBJ)(*flat))


dedupe = Unit(
    "processing", "_schedule_rewrites", slice=slice_dedupe,
    params={"transaction_rewrites": ("map", TRANSACTION, ("seq", REWRITE))},
    ensures=[
        # C10: "a transaction is dropped only if it ... duplicates ... a transaction with precedence": every key collected for deletion has
        # the same rewrites as a transaction that comes EARLIER in the sorted order (= has precedence)
        ("marked-duplicate-only-if-an-earlier-transaction-has-the-same-rewrites",
         "forall(lambda j: implies(0 <= j and j < len(duplicate_transaction_keys), exists(lambda i, e: 0 <= e and e < i and i < len(order())"
         " and order()[i] == duplicate_transaction_keys[j] and content(order()[e]) == content(order()[i]))))"),
    ],
    loops={0: {"inv": [
        "forall_obj(lambda x: implies(x in seen_transactions, exists(lambda e: 0 <= e and e < _i and content(_iter[e]) == x)))",
        "forall(lambda j: implies(0 <= j and j < len(duplicate_transaction_keys), exists(lambda i, e: 0 <= e and e < i and i < _i"
        " and _iter[i] == duplicate_transaction_keys[j] and content(_iter[e]) == content(_iter[i]))))",
    ]}},
    ghost={"order": "lambda: sorted(transaction_rewrites)", "content": "lambda t: tuple(transaction_rewrites[t])"},
    calls={"tuple": _tuple_hook}, records=RECORDS, props=("C10", "C06"),
    local_shapes={"duplicate_transaction_keys": ("seq", TRANSACTION), "seen_transactions": ("set", "obj")},
    note="the 'dropped only if' direction that C10 states; that every later copy IS marked (completeness) is not claimed here: its invariant (exists under forall over the sorted "
         "keys) times out in z3 and cvc5, and stays with the bounded marker drive",
)
dedupe.key_suffix = "duplicate-detection"
UNITS.append(dedupe)
