"""core._get_line_start_charnos, Match.*, _get_position, get_charnos, has_ignore_comment; pattern_matching API  (C13, C20, C04)

Ghost model of a source text: nl(s) = number of lines of s.splitlines(keepends=True), ls(s, i) = character offset at which
line i starts (prefix sum of the line lengths), so ls(s, 0) = 0, ls(s, i+1) = ls(s, i) + len(line i), ls(s, nl(s)) = len(s).

ASSUMED contract of str.splitlines(keepends=True) (CPython): the pieces are non-empty and their concatenation is the string.
ASSUMED contract of the parser positions (stated, property C13's precondition `wf`): 1 <= lineno <= nl(source) and
0 <= col_offset, and lineno/col_offset count the same lines/characters as splitlines/`str` indexing do.  That assumption is
FALSE for non-ASCII text (col_offset is a UTF-8 byte offset) and for \\x0c, \\x1c-\\x1e, \\x85, \\u2028, \\u2029 (splitlines splits
there, the parser does not): those are findings F-13a / F-13b, decided by the bounded stand-in, not by these contracts.
"""
import ast
import z3

from pyvc.unit import Unit, NotGenerated
from pyvc.values import (QAll, QEx, VInt, VStr, VSeq, VBool, VObj, VOpt, VRec, VPy, STR, I, B, OBJ, strlen, charat, fresh, fresh_val, seq_read)
from .shapes import RANGE, RECORDS
from .c_core_range import and_ as range_and, OV

nl = z3.Function("nl", STR, I)
ls = z3.Function("ls", STR, I, I)
line_of = z3.Function("line_of", STR, I, STR)     # i-th piece of splitlines(keepends=True)

POSITION = ("rec", "_Position", {"lineno": "int", "col_offset": "int", "end_lineno": "int", "end_col_offset": "int"})
MATCH = ("rec", "Match", {"span": RANGE, "source": "str", "groups": "obj"})
REC = dict(RECORDS)
REC.update({"Match": ["span", "source", "groups"], "core.Match": ["span", "source", "groups"],
            "_Position": ["lineno", "col_offset", "end_lineno", "end_col_offset"]})


def text_axioms(eng, s):
    """facts about the ghost line model of string term s (consequences of the splitlines contract)"""
    i, j = z3.Ints("i!ta j!ta")
    n = nl(s)
    facts = [n >= 0, ls(s, 0) == 0, ls(s, n) == strlen(s),
             QAll([i], z3.Implies(z3.And(0 <= i, i < n), z3.And(strlen(line_of(s, i)) >= 1, ls(s, i + 1) == ls(s, i) + strlen(line_of(s, i)))))]
    from pyvc.values import substr
    from pyvc import values as _vals
    if _vals.BOUND is not None:      # bounded refutation mode: texts have few lines, so that index quantifiers expand exactly
        facts.append(n <= _vals.BOUND)
    facts.append(QAll([i], z3.Implies(z3.And(0 <= i, i < n), line_of(s, i) == substr(s, ls(s, i), ls(s, i + 1)))))
    for k, f in enumerate(facts):
        eng.axioms_once(("text", str(s), k), f)
    eng.assumptions.add("assumed contract: str.splitlines(keepends=True) / io.StringIO(s, newline='').readlines() yield non-empty pieces whose concatenation is the string (CPython)")


def monotone_lemma(eng, s):
    """ls is monotone: forall 0 <= i <= j <= nl: ls(i) <= ls(j).  Proved by induction on j in unit `lemma:ls-monotone`
    (base + step obligations); here its conclusion is assumed."""
    i, j = z3.Ints("i!ml j!ml")
    eng.axioms_once(("mono", str(s)), QAll([i, j], z3.Implies(z3.And(0 <= i, i <= j, j <= nl(s)), ls(s, i) <= ls(s, j))))
    eng.assumptions.add("lemma ls-monotone (induction schema; base and step discharged in unit core.lemma:ls-monotone)")


def _splitlines(eng, args, kw, env, pc, node):
    s = args[0]
    keep = kw.get("keepends")
    if keep is None or not z3.is_true(z3.simplify(keep.t)):
        from pyvc.engine import Undecided
        raise Undecided("splitlines without keepends=True")
    text_axioms(eng, s.t)
    k = z3.Int("k!sl")
    return VSeq({(): z3.Lambda([k], line_of(s.t, k))}, nl(s.t), "str")


def _stringio(eng, args, kw, env, pc, node):
    from pyvc.values import VRec
    from pyvc.engine import Undecided
    nlv = kw.get("newline")
    if nlv is None or getattr(nlv, "lit", None) != "":
        raise Undecided("io.StringIO without newline=''")
    return VRec("StringIO", {"text": args[0]})


def _readlines(eng, args, kw, env, pc, node):
    """io.StringIO(s, newline="").readlines(): the lines of s as the parser counts them (\\n, \\r\\n, \\r), line ends kept.
    Same ASSUMED contract as for splitlines(keepends=True): pieces non-empty, concatenation is s."""
    s = args[0].fields["text"]
    text_axioms(eng, s.t)
    k = z3.Int("k!sl")
    return VSeq({(): z3.Lambda([k], line_of(s.t, k))}, nl(s.t), "str")


def g_ls(eng, args, kw, env, pc, node):
    text_axioms(eng, args[0].t)
    return VInt(ls(args[0].t, eng.as_int(args[1], pc, 0).t))


def g_nl(eng, args, kw, env, pc, node):
    text_axioms(eng, args[0].t)
    return VInt(nl(args[0].t))


def g_linelen(eng, args, kw, env, pc, node):
    return VInt(strlen(line_of(args[0].t, args[1].t)))


def g_mono(eng, args, kw, env, pc, node):
    monotone_lemma(eng, args[0].t)
    return VBool(True)


TEXT_GHOST = {"ls": g_ls, "nl": g_nl, "linelen": g_linelen, "use_monotone": g_mono}

# ----------------------------------------------------------------------------- _get_line_start_charnos
line_starts = Unit(
    "core", "_get_line_start_charnos",
    params={"source": "str"}, returns=("seq", "int"),
    ensures=[("one-entry-per-line", "len(result) == nl(source)"),
             ("entry-is-prefix-sum", "forall(lambda k: implies(0 <= k and k < len(result), result[k] == ls(source, k)))")],
    loops={0: {"inv": ["len(charnos) == _i", "start == ls(source, _i)",
                       "forall(lambda k: implies(0 <= k and k < _i, charnos[k] == ls(source, k)))"]}},
    calls={"str.splitlines": _splitlines, "io.StringIO": _stringio, "StringIO.readlines": _readlines}, ghost=TEXT_GHOST, props=("C13", "C04", "C20"),
    local_shapes={"charnos": ("seq", "int")},
)

line_starts_summary = Unit(
    "core", "_get_line_start_charnos", name="core._get_line_start_charnos#summary", pure=True,
    params={"source": "str"}, returns=("seq", "int"),
    ensures=[("one-entry-per-line", "len(result) == nl(source)"),
             ("entry-is-prefix-sum", "forall(lambda k: implies(0 <= k and k < len(result), result[k] == ls(source, k)))")],
    ghost=TEXT_GHOST,
)


def gen_monotone_lemma(g):
    """induction lemma: base and step as two obligations over an arbitrary string s"""
    s = z3.Const("s", STR)
    i, j = z3.Ints("i j")
    n = nl(s)
    ax = [n >= 0, ls(s, 0) == 0,
          QAll([i], z3.Implies(z3.And(0 <= i, i < n), z3.And(strlen(line_of(s, i)) >= 1, ls(s, i + 1) == ls(s, i) + strlen(line_of(s, i)))))]
    P = lambda jj: QAll([i], z3.Implies(z3.And(0 <= i, i <= jj), ls(s, i) <= ls(s, jj)))
    g.oblige("lemma", "ls-monotone:base", ax, P(z3.IntVal(0)), 763)
    g.oblige("lemma", "ls-monotone:step", ax + [0 <= j, j < n, P(j)], P(j + 1), 763)
    g.assumptions.add("induction schema on the natural numbers (the only trusted step of the lemma)")
    g.lines = None


# ----------------------------------------------------------------------------- Match
def _prop_start(eng, base, pc, line):
    return base.fields["span"].fields["start"]


def _prop_end(eng, base, pc, line):
    return base.fields["span"].fields["end"]


MATCH_PROPS = {"Match.start": _prop_start, "Match.end": _prop_end}

match_start = Unit("core", "Match.start", params={"self": MATCH}, returns="int", ensures=[("is-span-start", "result == self.span.start")], records=REC, props=("C13",))
match_end = Unit("core", "Match.end", params={"self": MATCH}, returns="int", ensures=[("is-span-end", "result == self.span.end")], records=REC, props=("C13",))
match_string = Unit(
    "core", "Match.string", params={"self": MATCH}, returns="str",
    requires=[("span-inside-source", "0 <= self.span.start and self.span.start <= self.span.end and self.span.end <= len(self.source)")],
    ensures=[("text-is-source-slice-of-span", "result == self.source[self.span.start:self.span.end]"),
             ("length-is-span-length", "len(result) == self.span.end - self.span.start")],
    properties=MATCH_PROPS, records=REC, props=("C13",))

lineno_col = Unit(
    "core", "Match._lineno_col_offset",
    params={"self": MATCH}, returns=("tuple", ["int", "int"]),
    requires=[("span-start-inside-source", "0 <= self.span.start and self.span.start <= len(self.source)"),
              ("source-not-empty", "len(self.source) >= 1")],
    ensures=[("lineno-in-range", "1 <= result[0] and result[0] <= nl(self.source)"),
             ("line-start-plus-column-is-span-start", "ls(self.source, result[0] - 1) + result[1] == self.span.start"),
             ("column-nonnegative", "result[1] >= 0"),
             ("start-before-next-line", "implies(result[0] < nl(self.source), self.span.start < ls(self.source, result[0]))")],
    loops={0: {"inv": ["forall(lambda k: implies(1 <= k and k <= _i, ls(self.source, k) <= self.span.start))"]}},
    calls={"_get_line_start_charnos": ("contract", line_starts_summary)},
    properties=MATCH_PROPS, ghost=TEXT_GHOST, records=REC, props=("C13",),
    exc_mode={"IndexError": "oblige"},
)

# ----------------------------------------------------------------------------- _get_position
NODE_ATTRS = {"lineno": "int", "col_offset": "int", "end_lineno": ("opt", "int"), "end_col_offset": ("opt", "int"),
              "decorator_list": ("seq", "obj"), "body": ("seq", "obj")}

get_position = Unit(
    "core", "_get_position",
    params={"node": "obj"}, returns=POSITION,
    requires=[("end-fields-set-when-present", "implies(hasattr(node, 'end_lineno'), node.end_lineno is not None) and implies(hasattr(node, 'end_col_offset'), node.end_col_offset is not None)")],
    ensures=[("lineno-or-default", "result.lineno == (node.lineno if hasattr(node, 'lineno') else 1)"),
             ("col-or-default", "result.col_offset == (node.col_offset if hasattr(node, 'col_offset') else 0)"),
             ("end-lineno-or-lineno", "result.end_lineno == (node.end_lineno if hasattr(node, 'end_lineno') else result.lineno)"),
             ("end-col-or-col", "result.end_col_offset == (node.end_col_offset if hasattr(node, 'end_col_offset') else result.col_offset)")],
    attrs=NODE_ATTRS, records=REC, props=("C13",),
)

UNITS = [line_starts, match_start, match_end, match_string, lineno_col, get_position]

# ----------------------------------------------------------------------------- has_ignore_comment (C20)
marked = z3.Function("line_has_ignore_comment", STR, B)


def _pattern_search(eng, args, kw, env, pc, node):
    eng.assumptions.add("regex `#\\s*pyrefact\\s*:\\s*(skip_file|ignore)` is an uninterpreted predicate on a line (pattern.search)")
    if len(args) == 4:
        # pattern.search(s, pos, endpos) searches s[pos:endpos]
        from pyvc.values import substr
        s, a, b = args[1], eng.as_int(args[2], pc, 0), eng.as_int(args[3], pc, 0)
        text_axioms(eng, s.t)
        return VBool(marked(substr(s.t, a.t, b.t)))
    return VBool(marked(args[1].t))


def g_marked(eng, args, kw, env, pc, node):
    return VBool(marked(line_of(args[0].t, args[1].t)))


IGN_GHOST = dict(TEXT_GHOST, ov=OV, marked_line=g_marked)

has_ignore_comment = Unit(
    "core", "has_ignore_comment",
    params={"source": "str", "rng": RANGE}, returns="bool",
    ensures=[("true-iff-some-overlapped-line-is-marked",
              "iff(result, exists(lambda i: 0 <= i and i < nl(source) and ov(rng, Range(ls(source, i), ls(source, i + 1))) and marked_line(source, i)))")],
    loops={0: {"inv": ["character_count == ls(source, _i)",
                       "forall(lambda k: implies(0 <= k and k < _i, not (ov(rng, Range(ls(source, k), ls(source, k + 1))) and marked_line(source, k))))"]}},
    calls={"str.splitlines": _splitlines, "re.compile": ("havoc", "obj"), "obj.search": _pattern_search, "Range.__and__": ("contract", range_and),
           "_get_line_start_charnos": ("contract", line_starts_summary), "io.StringIO": _stringio, "StringIO.readlines": _readlines},
    ghost=IGN_GHOST, records=REC, props=("C20", "C10"),
)

UNITS.append(has_ignore_comment)

# ----------------------------------------------------------------------------- _get_charno (byte column -> character number)
u8c = z3.Function("utf8_prefix_chars", STR, I, I, I)     # (source, line start, byte column) -> number of characters
isascii = z3.Function("isascii", STR, B)


def _u8_axioms(eng, s, start, col):
    t = u8c(s, start, col)
    eng.axioms_once(("u8c", str(t)), z3.And(0 <= t, t <= col, z3.Implies(col < 0, t == 0)))
    eng.assumptions.add("assumed contract: len(prefix.encode('utf-8')[:col].decode('utf-8', errors='ignore')) is between 0 and min(col, len(prefix)) (CPython codecs)")
    return t


def g_charpos(eng, args, kw, env, pc, node):
    """charpos(source, lineno, col): character number of the parser position (lineno, byte column col)"""
    s, ln, col = args
    ln, col = eng.as_int(ln, pc, 0), eng.as_int(col, pc, 0)
    text_axioms(eng, s.t)
    start = ls(s.t, ln.t - 1)
    return VInt(start + z3.If(isascii(s.t), col.t, _u8_axioms(eng, s.t, start, col.t)))


def _str_isascii(eng, args, kw, env, pc, node):
    return VBool(isascii(args[0].t))


def _str_encode(eng, args, kw, env, pc, node):
    from pyvc.engine import Undecided
    s = args[0]
    w = getattr(s, "window", None)
    if w is None:
        raise Undecided("encode of a string that is not a source window")
    o = VObj(fresh("bytes", OBJ))
    o.meta = {"window": w}
    return o


def _bytes_slice(eng, base, lo, hi, pc, line):
    from pyvc.engine import Undecided
    if lo is not None or hi is None or not hasattr(base, "meta"):
        raise Undecided("bytes slice of another form", line)
    o = VObj(fresh("bytes", OBJ))
    o.meta = dict(base.meta, col=hi)
    return o


def _bytes_decode(eng, args, kw, env, pc, node):
    from pyvc.engine import Undecided
    b = args[0]
    if not hasattr(b, "meta") or "col" not in b.meta:
        raise Undecided("decode of unknown bytes")
    src, lo, ln = b.meta["window"]
    t = _u8_axioms(eng, src.t, lo, b.meta["col"])
    w = VStr(fresh("decoded", STR))
    pc.append(z3.And(strlen(w.t) == t, t <= ln))
    return w


U8_CALLS = {"str.isascii": _str_isascii, "str.encode": _str_encode, "obj.decode": _bytes_decode}

get_charno = Unit(
    "core", "_get_charno",
    params={"source": "str", "line_start_charnos": ("seq", "int"), "lineno": "int", "col_offset": "int"}, returns="int",
    requires=[("line-starts-are-prefix-sums", "len(line_start_charnos) == nl(source) and forall(lambda k: implies(0 <= k and k < nl(source), line_start_charnos[k] == ls(source, k)))"),
              ("lineno-in-range", "1 <= lineno and lineno <= nl(source)"),
              ("column-nonnegative", "0 <= col_offset"), ("monotone-lemma", "use_monotone(source)")],
    ensures=[("is-character-position", "result == charpos(source, lineno, col_offset)"),
             ("within-byte-column", "ls(source, lineno - 1) <= result and result <= ls(source, lineno - 1) + col_offset"),
             ("ascii-column-is-character-column", "implies(source.isascii(), result == ls(source, lineno - 1) + col_offset)")],
    calls=U8_CALLS, subscripts={"slice:VObj": _bytes_slice}, ghost=dict(TEXT_GHOST, charpos=g_charpos), props=("C13", "C04"),
    exc_mode={"IndexError": "oblige"},
)

get_charno_summary = Unit(
    "core", "_get_charno", name="core._get_charno#summary", pure=True,
    params={"source": "str", "line_start_charnos": ("seq", "int"), "lineno": "int", "col_offset": "int"}, returns="int",
    requires=[("line-starts-are-prefix-sums", "len(line_start_charnos) == nl(source) and forall(lambda k: implies(0 <= k and k < nl(source), line_start_charnos[k] == ls(source, k)))"),
              ("lineno-in-range", "1 <= lineno and lineno <= nl(source)"),
              ("column-nonnegative", "0 <= col_offset")],
    ensures=[("is-character-position", "result == charpos(source, lineno, col_offset)")],
    calls=U8_CALLS, ghost=dict(TEXT_GHOST, charpos=g_charpos),
)
UNITS.append(get_charno)

# ----------------------------------------------------------------------------- get_charnos
lead = z3.Function("leading_spaces", STR, I)
trail = z3.Function("trailing_spaces", STR, I)
SP = ord(" ")


def _space_axioms(eng, c):
    k = z3.Int("k!sp")
    n = strlen(c)
    eng.axioms_once(("lead", str(c)), z3.And(0 <= lead(c), lead(c) <= n, z3.Implies(lead(c) < n, charat(c, lead(c)) != SP),
                                             QAll([k], z3.Implies(z3.And(0 <= k, k < lead(c)), charat(c, k) == SP))))
    eng.axioms_once(("trail", str(c)), z3.And(0 <= trail(c), trail(c) <= n, z3.Implies(trail(c) < n, charat(c, n - 1 - trail(c)) != SP),
                                              QAll([k], z3.Implies(z3.And(n - trail(c) <= k, k < n), charat(c, k) == SP))))


def _re_findall(eng, args, kw, env, pc, node):
    """re.findall(r"\\A^ *", s) == [leading run of spaces]; re.findall(r" *\\Z$", s) == [trailing run of spaces] (possibly
    followed by an empty match, irrelevant under max(key=len)).  Assumed contract of `re` for these two literal patterns."""
    from pyvc.engine import Undecided
    pat, s = args
    if not isinstance(pat, VStr) or pat.lit not in ("\\A^ *", " *\\Z$"):
        raise Undecided(f"re.findall with pattern {getattr(pat, 'lit', None)!r}")
    _space_axioms(eng, s.t)
    w = VStr(fresh("ws", STR))
    pc.append(strlen(w.t) == (lead(s.t) if pat.lit == "\\A^ *" else trail(s.t)))
    out = VSeq({(): z3.K(I, w.t)}, z3.IntVal(1), "str")
    out.singleton = True
    eng.assumptions.add("assumed contract: re.findall(r'\\A^ *', s) / re.findall(r' *\\Z$', s) return the leading / trailing run of spaces")
    return out


AT = 64
gapchar = z3.Function("at_gap_char", I, B)
at_pos = z3.Function("at_search_pos", STR, I)


def _gap_axioms(eng):
    eng.axioms_once(("gapchar",), z3.And(gapchar(32), gapchar(40), gapchar(92), gapchar(10), gapchar(9), z3.Not(gapchar(AT))))


def _re_search_at(eng, args, kw, env, pc, node):
    """re.search(r"@[\\s(\\\\]*\\Z", s): the match, if any, starts at the last '@' of s and everything after it is white space,
    '(' or a backslash (`at_gap_char`, uninterpreted beyond the characters named in `_gap_axioms`); there is a match when s
    ends with '@'.  Assumed contract of `re` for this one literal pattern."""
    from pyvc.engine import Undecided
    pat, s = args
    if not isinstance(pat, VStr) or pat.lit != "@[\\s(\\\\]*\\Z":
        raise Undecided(f"re.search with pattern {getattr(pat, 'lit', None)!r}")
    _gap_axioms(eng)
    k = z3.Int("k!at")
    n = strlen(s.t)
    p = at_pos(s.t)
    eng.axioms_once(("at_pos", str(s.t)), z3.And(
        -1 <= p, p < z3.If(n > 0, n, 0),
        z3.Implies(p >= 0, z3.And(charat(s.t, p) == AT, QAll([k], z3.Implies(z3.And(p < k, k < n), gapchar(charat(s.t, k)))))),
        z3.Implies(z3.And(n > 0, charat(s.t, n - 1) == AT), p == n - 1)))
    eng.assumptions.add("assumed contract: re.search(r'@[\\s(\\\\]*\\Z', s) matches at the last '@' of s when only white space, '(' and backslashes follow it")
    return VOpt(p < 0, VRec("Match", {"pos": VInt(p)}))


def _match_start(eng, args, kw, env, pc, node):
    return args[0].fields["pos"]


def g_gap(eng, args, kw, env, pc, node):
    _gap_axioms(eng)
    return VBool(gapchar(args[0].t))


def _decorated(eng, e, env, pc):
    """match_template(node, ast.AST(decorator_list=list)): node has a list-valued decorator_list attribute"""
    node = eng.ev(e.args[0], env, pc)
    if ast.unparse(e.args[1]) != "ast.AST(decorator_list=list)":
        from pyvc.engine import Undecided
        raise Undecided("match_template with another template", e.lineno)
    return VBool(eng.uf("has_decorator_list", [OBJ], B)(node.t))


_decorated.lazy_args = True

POS_OPT = ("rec", "_Position", {"lineno": "int", "col_offset": "int", "end_lineno": ("opt", "int"), "end_col_offset": ("opt", "int")})

get_position2 = Unit(
    "core", "_get_position", name="core._get_position#opt", pure=True,
    params={"node": "obj"}, returns=POS_OPT,
    ensures=[("lineno-or-default", "result.lineno == (node.lineno if hasattr(node, 'lineno') else 1)"),
             ("col-or-default", "result.col_offset == (node.col_offset if hasattr(node, 'col_offset') else 0)"),
             ("end-lineno-or-lineno", "result.end_lineno == (node.end_lineno if hasattr(node, 'end_lineno') else result.lineno)"),
             ("end-col-or-col", "result.end_col_offset == (node.end_col_offset if hasattr(node, 'end_col_offset') else result.col_offset)")],
    attrs=NODE_ATTRS, records=REC,
)
get_position.returns = POS_OPT
get_position.requires = []


def slice_charnos_tail(fn):
    for k, st in enumerate(fn.body):
        if isinstance(st, ast.Assign) and ast.unparse(st.targets[0]) == "start_position":
            return fn.body[k:], "offsets"
    raise NotGenerated("get_charnos: `start_position = ...` not found")


def slice_charnos_head(fn):
    for k, st in enumerate(fn.body):
        if isinstance(st, ast.Assign) and ast.unparse(st.targets[0]) == "start_position":
            body = [s for s in fn.body[:k] if not (isinstance(s, ast.Expr) and isinstance(s.value, ast.Constant))]
            return body, "start-node"
    raise NotGenerated("get_charnos: `start_position = ...` not found")


WF = {
    # assumed parser contract for a node position (see module docstring)
    "wfpos": "lambda n: hasattr(n, 'lineno') and hasattr(n, 'col_offset') and 1 <= n.lineno and n.lineno <= nl(source)"
             " and 0 <= n.col_offset and charpos(source, n.lineno, n.col_offset) <= ls(source, n.lineno)",
    "wfend": "lambda n: implies(hasattr(n, 'end_lineno') and n.end_lineno is not None, hasattr(n, 'end_col_offset') and n.end_col_offset is not None"
             " and n.lineno <= n.end_lineno and n.end_lineno <= nl(source) and 0 <= n.end_col_offset and charpos(source, n.end_lineno, n.end_col_offset) <= ls(source, n.end_lineno))",
    "s0": "lambda n: charpos(source, n.lineno, n.col_offset)",
    "e0": "lambda n: charpos(source, n.end_lineno, n.end_col_offset)",
}

charnos_tail = Unit(
    "core", "get_charnos", slice=slice_charnos_tail,
    params={"node": "obj", "start": "obj", "source": "str", "keep_first_indent": "bool", "line_start_charnos": ("seq", "int")},
    requires=[
        ("line-starts-are-prefix-sums", "len(line_start_charnos) == nl(source) and forall(lambda k: implies(0 <= k and k < nl(source), line_start_charnos[k] == ls(source, k)))"),
        ("monotone-lemma", "use_monotone(source)"),
        ("node-position-wellformed", "wfpos(node) and wfend(node)"),
        ("start-position-wellformed", "wfpos(start) and s0(start) <= s0(node)"),
        ("start-not-after-end", "implies(hasattr(node, 'end_lineno') and node.end_lineno is not None, s0(node) <= e0(node))"),
        ("node-text-not-all-spaces", "implies(hasattr(node, 'end_lineno') and node.end_lineno is not None and s0(start) < e0(node),"
         " source[s0(start)] != ' ' or source[e0(node) - 1] != ' ' or exists(lambda k: s0(start) <= k and k < e0(node) and source[k] != ' ' and False)"
         " or leading_lt(source, s0(start), e0(node)))"),
    ],
    ensures=[
        ("inside-source", "0 <= result.start and result.start <= result.end and result.end <= len(source)"),
        ("point-range-when-no-end", "implies(not (hasattr(node, 'end_lineno') and node.end_lineno is not None), result.start == s0(start) and result.end == s0(start))"),
        ("end-at-most-node-end", "implies(hasattr(node, 'end_lineno') and node.end_lineno is not None, result.end <= e0(node))"),
        ("start-moves-left-only-onto-an-at-sign", "implies(has_end(node) and not keep_first_indent and result.start < s0(start),"
         " source[result.start] == '@' and isdef(node) and start is not node"
         " and forall(lambda k: implies(result.start < k and k < s0(start), gap(source[k]))))"),
        ("start-is-node-start", "implies(has_end(node) and not keep_first_indent and s0(start) < e0(node) and (source[s0(start)] != ' ' or is_string(node))"
         " and not (isdef(node) and start is not node), result.start == s0(start))"),
        ("at-sign-directly-before-is-included", "implies(has_end(node) and not keep_first_indent and s0(start) < e0(node) and source[s0(start)] != ' '"
         " and isdef(node) and start is not node and s0(start) > 0 and source[s0(start) - 1] == '@', result.start == s0(start) - 1)"),
        ("decorated-start-not-right-of-trimmed-start", "implies(has_end(node) and not keep_first_indent and s0(start) < e0(node) and source[s0(start)] != ' ', result.start <= s0(start))"),
        ("end-is-node-end", "implies(has_end(node) and s0(start) < e0(node) and (source[e0(node) - 1] != ' ' or is_string(node)), result.end == e0(node))"),
        ("no-trailing-space", "implies(has_end(node) and s0(start) < e0(node) and result.start < result.end and not keep_first_indent and not is_string(node), source[result.end - 1] != ' ')"),
        ("string-constants-keep-their-spaces", "implies(has_end(node) and is_string(node) and not keep_first_indent, result.start == s0(start) and result.end == e0(node))"),
    ],
    calls={"_get_position": ("contract", get_position2), "re.findall": _re_findall, "re.search": _re_search_at, "Match.start": _match_start,
           "_get_charno": ("contract", get_charno_summary)},
    ghost=dict(TEXT_GHOST, charpos=g_charpos, gap=g_gap,
               has_end="lambda n: hasattr(n, 'end_lineno') and n.end_lineno is not None",
               isdef="lambda n: isinstance(n, (ast.ClassDef, ast.FunctionDef, ast.AsyncFunctionDef))",
               is_string="lambda n: isinstance(n, ast.JoinedStr) or (isinstance(n, ast.Constant) and isinstance(n.value, str))", **WF),
    attrs=dict(NODE_ATTRS, value="obj"), records=REC, props=("C13", "C04"),
    exc_mode={"IndexError": "oblige", "TypeError": "oblige", "ValueError": "oblige"},
)
charnos_tail.key_suffix = "offsets"
charnos_tail.z3_timeout_ms = 90000     # the trailing-space post takes ~20 s on an idle machine; the verdict must not depend on the load


def g_leading_lt(eng, args, kw, env, pc, node):
    """leading_lt(source, a, b): the slice source[a:b] is not made of spaces only"""
    s, a, b = args
    from pyvc.values import substr
    c = substr(s.t, a.t, b.t)
    _space_axioms(eng, c)
    return VBool(lead(c) < b.t - a.t)


charnos_tail.ghost["leading_lt"] = g_leading_lt

charnos_head = Unit(
    "core", "get_charnos", slice=slice_charnos_head,
    params={"node": "obj", "source": "str"},
    requires=[("only-definitions-have-a-decorator-list", "iff(match_template(node, ast.AST(decorator_list=list)), isinstance(node, (ast.ClassDef, ast.FunctionDef, ast.AsyncFunctionDef)))"),
              ("decorators-have-positions", "forall(lambda k: implies(0 <= k and k < len(node.decorator_list), hasattr(node.decorator_list[k], 'end_lineno') and node.decorator_list[k].end_lineno is not None"
               " and hasattr(node.decorator_list[k], 'end_col_offset') and node.decorator_list[k].end_col_offset is not None))")],
    ensures=[
        ("line-starts-by-contract", "len(line_start_charnos) == nl(source)"),
        ("start-is-node-or-a-decorator", "start == node or exists(lambda k: 0 <= k and k < len(node.decorator_list) and start == node.decorator_list[k])"),
        ("undecorated-starts-at-node", "implies(not has_decorators(node), start == node)"),
        ("decorated-starts-at-first-decorator", "implies(has_decorators(node), forall(lambda k: implies(0 <= k and k < len(node.decorator_list),"
         " _get_position(start).lineno < _get_position(node.decorator_list[k]).lineno or (_get_position(start).lineno == _get_position(node.decorator_list[k]).lineno"
         " and _get_position(start).col_offset <= _get_position(node.decorator_list[k]).col_offset))))"),
    ],
    calls={"_get_position": ("contract", get_position2), "_get_line_start_charnos": ("contract", line_starts_summary), "match_template": _decorated},
    ghost=dict(TEXT_GHOST, has_decorators="lambda n: match_template(n, ast.AST(decorator_list=list)) and len(n.decorator_list) > 0"),
    attrs=NODE_ATTRS, records=REC, props=("C13",),
    exc_mode={"IndexError": "oblige", "TypeError": "oblige", "ValueError": "oblige"},
)
charnos_head.key_suffix = "start-node"

UNITS += [charnos_head, charnos_tail]


# ----------------------------------------------------------------------------- line table against the PARSER, on representatives
def gen_line_table(g):
    """core._get_line_start_charnos must number lines the way the parser does (that is the link between a node's lineno and a character
    offset).  The unit above proves the prefix-sum shape GIVEN the line splitting; here the real function is run on one text per kind of
    line terminator / separator-like character and compared with what CPython's own parser reports: statement k of the text starts at the
    offset the table gives for the line number the parser assigned to it.  Robust against any re-implementation of the splitting."""
    import ast as _ast
    import z3
    from pyvc.replay import call_real
    from pyvc.unit import find_def, segment_sha
    fn, text = find_def("core", "_get_line_start_charnos")
    g.sha = segment_sha(text, fn)
    g.lines = [fn.lineno, fn.end_lineno]
    seps = {"lf": "\n", "crlf": "\r\n", "cr": "\r", "lf-then-cr": None, "crlf-with-one-stray-cr": None, "ff-inside-a-line": None, "vt-inside-a-line": None, "u2028-in-a-string": None,
            "x1c-x1d-x1e-in-a-string": None, "x85-in-a-string": None, "cr-inside-a-triple-quoted-string": None, "blank-lines": None, "no-final-terminator": None, "crlf-no-final-terminator": None,
            "backslash-continuation": None, "only-one-line": None, "empty": None, "form-feed-line": None}
    stmts = [f"v{k} = {k}" for k in range(6)]
    texts = {
        "lf": "\n".join(stmts) + "\n", "crlf": "\r\n".join(stmts) + "\r\n", "cr": "\r".join(stmts) + "\r",
        "lf-then-cr": stmts[0] + "\n" + stmts[1] + "\r" + stmts[2] + "\n" + stmts[3] + "\r" + stmts[4] + "\n",
        "crlf-with-one-stray-cr": stmts[0] + "\r\n" + stmts[1] + "\r" + stmts[2] + "\r\n" + stmts[3] + "\r\n",
        "ff-inside-a-line": stmts[0] + "\n" + "v1 = 1 \x0c + 1\n" + stmts[2] + "\n", "vt-inside-a-line": stmts[0] + "\n" + "v1 = 1 \x0b + 1\n" + stmts[2] + "\n",
        "u2028-in-a-string": stmts[0] + "\n" + "s = 'a b c'\n" + stmts[2] + "\n", "x1c-x1d-x1e-in-a-string": stmts[0] + "\n" + "s = 'a\x1cb\x1dc\x1ed'\n" + stmts[2] + "\n",
        "x85-in-a-string": stmts[0] + "\n" + "s = 'a\x85b'\n" + stmts[2] + "\n", "cr-inside-a-triple-quoted-string": 's = """a\rb"""\n' + stmts[1] + "\n" + stmts[2] + "\n",
        "blank-lines": stmts[0] + "\n\n\n" + stmts[1] + "\r\n\r\n" + stmts[2] + "\n", "no-final-terminator": "\n".join(stmts[:3]), "crlf-no-final-terminator": "\r\n".join(stmts[:3]),
        "backslash-continuation": "v0 = 1 + \\\n    2\n" + stmts[1] + "\n", "only-one-line": "v0 = 0", "empty": "", "form-feed-line": stmts[0] + "\n\x0c\n" + stmts[1] + "\n",
    }
    res = call_real("from pyrefact import core\nprint(json.dumps({k: list(core._get_line_start_charnos(v)) for k, v in payload.items()}))\n", texts, timeout=60)
    for lab in seps:
        src = texts[lab]
        table = res.get(lab)
        try:
            tree = _ast.parse(src)
        except SyntaxError:
            continue
        ok = isinstance(table, list)
        witness = None
        for node in tree.body:
            seg = _ast.get_source_segment(src, node)
            want = src.index(seg.splitlines()[0] if seg else "")       # first occurrence: every statement text is unique in these sources
            if not ok or node.lineno - 1 >= len(table) or table[node.lineno - 1] + node.col_offset != want:
                ok = False
                witness = (node.lineno, want)
                break
        g.oblige("table", f"line-table-agrees-with-the-parser:{lab}", [], z3.BoolVal(bool(ok)), fn.lineno,
                 replay=lambda m, src=src, table=table, witness=witness: {"reproduced": True, "input": f"core._get_line_start_charnos({src!r})", "observed": table,
                                                                          "required": f"entry lineno-1 + col_offset is the offset of each statement; fails for (lineno, offset) = {witness}"})
    g.assumptions.add("one text per kind of line terminator and per separator-like character that str.splitlines treats as a line break but the parser does not")
