"""C16 consumers: what the deleting rules yield, against the analyses they consult.

  * fixes._iter_unreachable_nodes(body): a statement is yielded only if an EARLIER statement of the same body is blocking
    (loop invariant on the flag `after_block`); nothing before the first blocking statement is yielded.
  * fixes.delete_pointless_statements: a statement is yielded for deletion only if core.has_side_effect(child, safe_callables)
    is false for the safe-callable set of this very module (guarded-effect obligation; lenient unit).
  * fixes.delete_unreachable_code: every deletion it yields is (a) an element that _iter_unreachable_nodes gave for a body that
    is not an If / While, (b) a statement of the else / body branch of an `if` whose test is a constant that is true / false
    (with a non-empty other branch), (c) the whole `if` when the chosen branch is empty, or (d) a `while` with a constant false
    test and no else clause.  core.literal_value is uninterpreted and may raise ValueError (then nothing is yielded).
Calls outside the subset are abstracted (lenient), so only "effect under guard" obligations are stated - no value posts.
"""
import ast

from pyvc.unit import Unit, NotGenerated

iter_unreachable = Unit(
    "fixes", "_iter_unreachable_nodes",
    params={"body": ("seq", "obj")},
    yield_ensures=[("a-yielded-statement-follows-a-blocking-one", "exists(lambda j: 0 <= j and j < _i and core.is_blocking(body[j])) and value == body[_i]")],
    loops={0: {"inv": ["iff(after_block, exists(lambda j: 0 <= j and j < _i and core.is_blocking(body[j])))"]}},
    calls={"core.is_blocking": ("uf", "bool"), "ast.walk": ("uf", ("seq", "obj"))}, props=("C16",), fall_is_return=True,
    note="since repair e62dc16 an unreachable statement that contains a yield is kept (it makes the function a generator): fewer statements are yielded, each still follows a blocking one",
)

delete_pointless = Unit(
    "fixes", "delete_pointless_statements",
    params={"source": "str"},
    yield_ensures=[("deleted-only-if-judged-free-of-side-effects", "not core.has_side_effect(value[0], safe_callables) and value[1] is None")],
    loops={0: {"inv": ["True"]}, 1: {"inv": ["True"]}},
    calls={"core.has_side_effect": ("uf", "bool"), "parsing.safe_callable_names": ("uf", "obj"), "core.parse": ("uf", "obj")},
    attrs={"body": ("seq", "obj")}, lenient=True, props=("C16",), covers=False, fall_is_return=True,
)

UNITS = [iter_unreachable, delete_pointless]


# ----------------------------------------------------------------------------- delete_unreachable_code
def _unreachable_summary(eng, args, kw, env, pc, node):
    """list(_iter_unreachable_nodes(body)) by the yield contract proved above (unit fixes._iter_unreachable_nodes): every element is
    body[k] for some k that follows a blocking body[j].  (Bridging a generator's yields to the sequence a `for` loop sees is assumed.)"""
    import z3
    from pyvc.values import fresh_val, QAll, QEx, I, seq_read
    body = args[0]
    u = fresh_val("unreachable", ("seq", "obj"))
    m, k, j = z3.Int("m!u"), z3.Int("k!u"), z3.Int("j!u")
    blocking = eng.uf_call("core.is_blocking", [seq_read(body, j)], "bool").t
    pc.append(u.len >= 0)
    pc.append(QAll([m], z3.Implies(z3.And(0 <= m, m < u.len),
                                   QEx([k, j], z3.And(0 <= j, j < k, k < body.len, blocking, seq_read(u, m).t == seq_read(body, k).t)))))
    eng.assumptions.add("the sequence a for loop draws from the generator _iter_unreachable_nodes consists of its yields (yield contract proved as its own unit)")
    return u


def _literal_value_or_raise(eng, args, kw, env, pc, node):
    """core.literal_value(e): a value (uninterpreted function of e), or ValueError when the expression is not a known constant (uninterpreted
    predicate of e) - its only exception, by the contract proved for C04 / C15"""
    import z3
    from pyvc.values import OBJ, B
    known = eng.uf("literal_value_known", [OBJ], B)(args[0].t)
    eng.may_raise("ValueError", z3.Not(known), pc, getattr(node, "lineno", 0), "unknown-constant")
    return eng.uf_call("core.literal_value", [args[0]], "obj")


DELETED = (
    "value[1] is None and ("
    "(not isinstance(node, (ast.If, ast.While)) and exists(lambda k: exists(lambda j: 0 <= j and j < k and k < len(node.body) and core.is_blocking(node.body[j]) and value[0] == node.body[k])))"
    " or (isinstance(node, (ast.If, ast.While)) and exists(lambda k: exists(lambda j: 0 <= j and j < k and k < len(node.body) and core.is_blocking(node.body[j]) and value[0] == node.body[k])))"
    " or (isinstance(node, (ast.If, ast.While)) and exists(lambda k: exists(lambda j: 0 <= j and j < k and k < len(node.orelse) and core.is_blocking(node.orelse[j]) and value[0] == node.orelse[k])))"
    " or (isinstance(node, ast.While) and not core.literal_value(node.test) and len(node.orelse) == 0 and value[0] == node)"
    " or (isinstance(node, ast.If) and core.literal_value(node.test) and len(node.body) > 0 and exists(lambda k: 0 <= k and k < len(node.orelse) and value[0] == node.orelse[k]))"
    " or (isinstance(node, ast.If) and not core.literal_value(node.test) and len(node.orelse) > 0 and exists(lambda k: 0 <= k and k < len(node.body) and value[0] == node.body[k]))"
    " or (isinstance(node, ast.If) and ((core.literal_value(node.test) and len(node.body) == 0) or (not core.literal_value(node.test) and len(node.orelse) == 0)) and value[0] == node))")

delete_unreachable = Unit(
    "fixes", "delete_unreachable_code",
    params={"source": "str"},
    yield_ensures=[("deleted-only-if-unreachable-by-the-analyses", DELETED)],
    loops={k: {"inv": ["True"]} for k in range(6)},
    calls={"core.is_blocking": ("uf", "bool"), "core.literal_value": _literal_value_or_raise, "core.parse": ("uf", "obj"), "_iter_unreachable_nodes": _unreachable_summary},
    attrs={"body": ("seq", "obj"), "orelse": ("seq", "obj"), "test": "obj"}, lenient=True, props=("C16",), covers=False, fall_is_return=True,
    exc_mode={"ValueError": "edge"},
)

UNITS.append(delete_unreachable)

