"""C17: the closed form symbolic_math._sum_range substitutes for sum(range(start, end)) (unit step).

The formula is EXTRACTED from the real AST builders: `_sum_int_squares_to(v)` builds the tree of `(v - 1) * v / 2` (read back from the
nested ast.BinOp constructor calls), `_sum_range` returns T(end) when start is the constant 0 and T(end) - T(start) otherwise, and only for
a unit step.  With S(a, b) := T(b) - T(a) the obligations are the induction schema of  S(a, b) = sum of the integers a <= k < b :
    base  S(a, a) = 0          step  a <= b  ==>  S(a, b + 1) = S(a, b) + b          special case  T(0) = 0
    integrality  (v - 1) * v is even, so the (true) division by 2 is exact on integers
and the statement that FAILS on the pinned tree and is a listed finding (F-17d):
    empty range  b < a  ==>  S(a, b) = 0            (the formula gives the negative of the reversed sum)
The later `sympy.simplify` of the tree is not under contract (bounded truth tables).
"""
import ast
import z3

from pyvc.unit import NotGenerated, find_def, segment_sha


def _tree_of_builder(fn, param):
    """symbolically run the `return ast.BinOp(left=..., op=ast.X(), right=...)` expression of an AST-builder function -> lambda over z3 reals"""
    rets = [s for s in fn.body if isinstance(s, ast.Return)]
    if len(rets) != 1:
        raise NotGenerated(f"{fn.name}: not a single return of an AST constructor expression")

    def build(e, env):
        if isinstance(e, ast.Name) and e.id in env:
            return env[e.id]
        if isinstance(e, ast.Call) and ast.unparse(e.func) == "ast.Constant":
            kw = {k.arg: k.value for k in e.keywords}
            if isinstance(kw.get("value"), ast.Constant) and isinstance(kw["value"].value, int):
                return z3.RealVal(kw["value"].value)
        if isinstance(e, ast.Call) and ast.unparse(e.func) == "ast.BinOp":
            kw = {k.arg: k.value for k in e.keywords}
            l, r = build(kw["left"], env), build(kw["right"], env)
            op = ast.unparse(kw["op"])
            if op == "ast.Sub()":
                return l - r
            if op == "ast.Add()":
                return l + r
            if op == "ast.Mult()":
                return l * r
            if op == "ast.Div()":
                return l / r
        raise NotGenerated(f"{fn.name}: constructor expression `{ast.unparse(e)[:60]}` outside the modelled builders")
    return lambda v: build(rets[0].value, {param: v})


def gen_sum_range(g):
    fT, text = find_def("symbolic_math", "_sum_int_squares_to")
    fS, _ = find_def("symbolic_math", "_sum_range")
    g.sha = segment_sha(text, [fT, fS])
    g.lines = [fT.lineno, fS.end_lineno]
    T = _tree_of_builder(fT, fT.args.args[0].arg)
    # structure of _sum_range: guard on the step, special case, general case
    body = [s for s in fS.body if not (isinstance(s, ast.Expr) and isinstance(s.value, ast.Constant))]
    ifs = [s for s in body if isinstance(s, ast.If)]
    step_guard = [s for s in ifs if "step" in ast.unparse(s.test) and "ast.Constant(value=1)" in ast.unparse(s.test) and isinstance(s.test, ast.UnaryOp)]
    g.oblige_text("table", "only-for-unit-steps", len(step_guard) == 1 and ast.unparse(step_guard[0].body[0]) == "return rng", fS.lineno)
    special = [s for s in ifs if s not in step_guard]
    a, b = z3.Reals("a b")
    ai, bi, v = z3.Ints("ai bi v")
    general = [s for s in body if isinstance(s, ast.Return)]
    if len(general) != 1 or ast.unparse(general[0].value) != "ast.BinOp(left=_sum_int_squares_to(end), op=ast.Sub(), right=_sum_int_squares_to(start))":
        raise NotGenerated("_sum_range: general case is not T(end) - T(start)")
    S = lambda x, y: T(y) - T(x)       # noqa: E731
    g.oblige("table", "base:empty-range-at-a-sums-to-zero", [], S(a, a) == 0, fS.lineno)
    g.oblige("table", "step:one-more-element-adds-it", [a <= b], S(a, b + 1) == S(a, b) + b, fS.lineno)
    for sp in special:
        t = ast.unparse(sp.test)
        ret = ast.unparse(sp.body[0])
        if "ast.Constant(value=0)" in t and ret == "return _sum_int_squares_to(end)":
            which = "start" if "(start," in t else ("end" if "(end," in t else "?")
            # the special case returns T(end): equal to the general form exactly when the tested bound being 0 makes T(start) vanish
            hyp = [a == 0] if which == "start" else ([b == 0] if which == "end" else [])
            g.oblige("table", "special-case-agrees-with-the-general-form", hyp, T(b) == S(a, b), sp.lineno,
                     replay=lambda m: {"reproduced": True, "input": "sum(range(-3, 0))", "observed": "special case on the END bound returns T(0) = 0", "required": "-6"})
        else:
            raise NotGenerated(f"_sum_range: unrecognised special case `{t}`")
    g.oblige("table", "integrality:(v-1)*v-is-even", [], ((v - 1) * v) % 2 == 0, fT.lineno)
    # known finding F-17d: the closed form is wrong for empty ranges with start > end
    g.oblige("table", "empty-range-start-above-end-sums-to-zero", [b < a], S(a, b) == 0, fS.lineno,
             replay=lambda m: {"reproduced": True, "input": "sum(range(5, 3))", "observed": "-7", "required": "0"})
    g.assumptions.add("induction schema over the end bound (base + step) for S(a, b) = sum of a <= k < b; sympy.simplify of the tree is outside this contract")
