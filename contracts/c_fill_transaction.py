"""C10 / C06: processing._schedule_rewrites.fill_transaction - how a yielded item becomes (range, new text, transaction number).

  * an item with an explicit transaction keeps it; an item without one gets the running counter, which grows by exactly one per item
    (so implicit transactions are pairwise distinct, ordered by yield order and - starting at -100000000 - below every explicit one);
  * an insertion (`before is None`) becomes an EMPTY range at the start of the inserted node: it can never overlap anything;
  * a deletion (`after is None`) becomes the empty text.
"""
import ast
from pyvc.unit import Unit
from .shapes import RANGE, RECORDS

get_charnos_pure = Unit("core", "get_charnos", name="core.get_charnos#pure-ft", pure=True,
                        params={"node": "obj", "source": "str"}, returns=RANGE, ensures=[], records=RECORDS)

COMMON = dict(
    calls={"core.get_charnos": ("contract", get_charnos_pure), "<isinstance>": None},
    records=RECORDS, props=("C10", "C06"),
)
del COMMON["calls"]["<isinstance>"]


def _isinstance(eng, args, kw, env, pc, line):
    """isinstance(before, ast.AST): an uninterpreted predicate of the object (None is not an AST node)"""
    from pyvc.values import VBool, VNone, VOpt, OBJ, B
    import z3
    v = args[0]
    f = eng.uf("is_ast_node", [OBJ], B)
    if isinstance(v, VNone):
        return VBool(z3.BoolVal(False))
    if isinstance(v, VOpt):
        return VBool(z3.And(z3.Not(v.isnone), f(v.val.t)))
    return VBool(f(v.t))


def g_is_empty_text(eng, args, kw, env, pc, node):
    from pyvc.values import VBool, VStr, strlen
    import z3
    v = args[0]
    return VBool(strlen(v.t) == 0) if isinstance(v, VStr) else VBool(z3.BoolVal(False))


fill3 = Unit(
    "processing", "_schedule_rewrites.fill_transaction", name="processing._schedule_rewrites.fill_transaction[explicit]",
    params={"tup": ("tuple", [("opt", "obj"), ("opt", "obj"), "int"]), "default_transaction": ("dict", "str", "int"), "source": "str"},
    requires=[("counter-exists", "'count' in default_transaction"), ("before-is-a-node-or-none", "tup[0] is None or isinstance(tup[0], ast.AST)")],
    ensures=[("explicit-transaction-is-kept", "result[2] == tup[2]"),
             ("counter-advances-by-one", "default_transaction['count'] == old(default_transaction)['count'] + 1"),
             ("insertion-is-an-empty-range", "implies(tup[0] is None, result[0].start == result[0].end)"),
             ("deletion-is-the-empty-text", "implies(tup[1] is None, is_empty_text(result[1]))")],
    calls={"core.get_charnos": ("contract", get_charnos_pure), "<isinstance>": _isinstance, "core.unparse": ("uf", "str"), "textwrap.indent": ("uf", "str")}, records=RECORDS, props=("C10", "C06"),
    attrs={"start": "int", "end": "int", "col_offset": "int"}, ghost={"is_empty_text": g_is_empty_text},
)

fill2 = Unit(
    "processing", "_schedule_rewrites.fill_transaction", name="processing._schedule_rewrites.fill_transaction[implicit]",
    params={"tup": ("tuple", [("opt", "obj"), ("opt", "obj")]), "default_transaction": ("dict", "str", "int"), "source": "str"},
    requires=[("counter-exists", "'count' in default_transaction"), ("before-is-a-node-or-none", "tup[0] is None or isinstance(tup[0], ast.AST)")],
    ensures=[("implicit-transaction-is-the-advanced-counter", "result[2] == old(default_transaction)['count'] + 1 and default_transaction['count'] == result[2]"),
             ("insertion-is-an-empty-range", "implies(tup[0] is None, result[0].start == result[0].end)")],
    calls={"core.get_charnos": ("contract", get_charnos_pure), "<isinstance>": _isinstance, "core.unparse": ("uf", "str"), "textwrap.indent": ("uf", "str")}, records=RECORDS, props=("C10", "C06"),
    attrs={"start": "int", "end": "int", "col_offset": "int"}, ghost={"is_empty_text": g_is_empty_text},
)

UNITS = [fill3, fill2]
