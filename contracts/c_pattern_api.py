"""pattern_matching: finditer / findall / search / match / fullmatch / subn  (C13, C14)

The sentences of C13 about the re-like API, each as a postcondition over the sequence FR that processing.find_replace
yields for (source, pattern) (a deterministic function of its arguments here: uninterpreted, pure):
  finditer = one Match(span, source, groups) per item of FR, in order;  findall = their texts in order;
  search = the first finditer result or None;  match / fullmatch return the FIRST item whose span starts at the first
  statement / equals the module body range, and None exactly when there is none.
"""
import ast
from pyvc.unit import Unit
from .shapes import RANGE
from .c_core_geometry import MATCH, REC, MATCH_PROPS, NODE_ATTRS

FR_ITEM = ("tuple", [RANGE, "str", "obj"])
FR = ("uf", ("seq", FR_ITEM))

finditer = Unit(
    "pattern_matching", "finditer",
    params={"pattern": "obj", "source": "str"},
    ensures=[("one-match-per-find_replace-item", "__yields__ == len(processing.find_replace(source, pattern, '', yield_match=True))")],
    yield_ensures=[("kth-match-is-kth-item", "value.span == _iter[_i][0] and value.source == source and value.groups == _iter[_i][2] and __yields__ == _i")],
    loops={0: {"inv": ["__yields__ == _i"]}},
    calls={"processing.find_replace": FR}, records=REC, props=("C13",), fall_is_return=True,
)

finditer_summary = Unit(
    "pattern_matching", "finditer", name="pattern_matching.finditer#summary", pure=True,
    params={"pattern": "obj", "source": "str"}, returns=("seq", MATCH),
    ensures=[("len", "len(result) == len(processing.find_replace(source, pattern, '', yield_match=True))"),
             ("items", "forall(lambda k: implies(0 <= k and k < len(result), result[k].span == processing.find_replace(source, pattern, '', yield_match=True)[k][0]"
              " and result[k].source == source and result[k].groups == processing.find_replace(source, pattern, '', yield_match=True)[k][2]))")],
    calls={"processing.find_replace": FR}, records=REC,
)


def _match_string(eng, base, pc, line):
    src = base.fields["source"]
    from pyvc.values import VStr, substr, strlen
    import z3
    a, b = base.fields["span"].fields["start"].t, base.fields["span"].fields["end"].t
    lo_c, ln = eng.clamp_slice(a, b, strlen(src.t))
    return VStr(substr(src.t, lo_c, lo_c + ln))


PROPS = dict(MATCH_PROPS)
PROPS["Match.string"] = _match_string

findall = Unit(
    "pattern_matching", "findall",
    params={"pattern": "obj", "source": "str"}, returns=("seq", "str"),
    ensures=[("same-count-as-finditer", "len(result) == len(finditer(pattern, source))"),
             ("texts-of-finditer-in-order", "forall(lambda k: implies(0 <= k and k < len(result), result[k] == finditer(pattern, source)[k].string))")],
    calls={"finditer": ("contract", finditer_summary), "processing.find_replace": FR}, properties=PROPS, records=REC, props=("C13",),
)

search = Unit(
    "pattern_matching", "search",
    params={"pattern": "obj", "source": "str"}, returns=("opt", MATCH),
    ensures=[("none-iff-no-match", "iff(result is None, len(finditer(pattern, source)) == 0)"),
             ("first-finditer-result", "implies(len(finditer(pattern, source)) > 0, result == finditer(pattern, source)[0])")],
    calls={"finditer": ("contract", finditer_summary), "processing.find_replace": FR}, properties=PROPS, records=REC, props=("C13",),
)

get_charnos_summary = Unit("core", "get_charnos", name="core.get_charnos#pure", pure=True,
                           params={"node": "obj", "source": "str"}, returns=RANGE, ensures=[], records=REC)

API_CALLS = {"processing.find_replace": FR, "ast.parse": ("uf", "obj"), "core.get_charnos": ("contract", get_charnos_summary)}
API_GHOST = {
    "fr": "lambda: processing.find_replace(source, pattern, '', yield_match=True, root=root)",
    "bstart": "lambda: min(r.start for r in module_body_ranges)",
    "bend": "lambda: max(r.end for r in module_body_ranges)",
}

match_ = Unit(
    "pattern_matching", "match",
    params={"pattern": "obj", "source": "str"}, returns=("opt", MATCH),
    ensures=[
        ("empty-module-has-no-match", "implies(len(root.body) == 0, result is None)"),
        ("none-only-if-no-match-starts-at-first-statement",
         "implies(defined('module_body_ranges'), implies(result is None, forall(lambda q: implies(0 <= q and q < len(fr()), fr()[q][0].start != bstart()))))"),
        ("returns-first-match-starting-at-first-statement",
         "implies(result is not None, exists(lambda q: 0 <= q and q < len(fr()) and fr()[q][0].start == bstart() and result.span == fr()[q][0] and result.source == source"
         " and result.groups == fr()[q][2] and forall(lambda p: implies(0 <= p and p < q, fr()[p][0].start != bstart()))))"),
    ],
    loops={0: {"inv": ["forall(lambda q: implies(0 <= q and q < _i, _iter[q][0].start != bstart()))"]}},
    calls=API_CALLS, ghost=API_GHOST, attrs=NODE_ATTRS, properties=PROPS, records=REC, props=("C13",),
    exc_mode={"ValueError": "oblige"},
)

fullmatch = Unit(
    "pattern_matching", "fullmatch",
    params={"pattern": "obj", "source": "str"}, returns=("opt", MATCH),
    ensures=[
        ("empty-module-has-no-match", "implies(len(root.body) == 0, result is None)"),
        ("none-only-if-no-match-spans-the-module-body",
         "implies(defined('module_body_ranges'), implies(result is None, forall(lambda q: implies(0 <= q and q < len(fr()),"
         " not (fr()[q][0].start == bstart() and fr()[q][0].end == bend())))))"),
        ("returns-first-match-spanning-the-module-body",
         "implies(result is not None, exists(lambda q: 0 <= q and q < len(fr()) and fr()[q][0].start == bstart() and fr()[q][0].end == bend() and result.span == fr()[q][0]"
         " and result.source == source and result.groups == fr()[q][2]"
         " and forall(lambda p: implies(0 <= p and p < q, not (fr()[p][0].start == bstart() and fr()[p][0].end == bend())))))"),
    ],
    loops={0: {"inv": ["forall(lambda q: implies(0 <= q and q < _i, not (_iter[q][0].start == bstart() and _iter[q][0].end == bend())))"]}},
    calls=API_CALLS, ghost=API_GHOST, attrs=NODE_ATTRS, properties=PROPS, records=REC, props=("C13",),
    exc_mode={"ValueError": "oblige"},
)

UNITS = [finditer, findall, search, match_, fullmatch]
