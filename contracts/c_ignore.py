"""C20 Opt-out comments are honoured: skip_file early return, and the ignore guard on every text-editing path."""
import ast
from pyvc.unit import Unit, NotGenerated
from pyvc.values import VBool, VSeq, VObj, VStr, B, STR, OBJ, fresh, fresh_val
from .shapes import RANGE, REWRITE, RECORDS
from .c_processing_scheduler import get_charnos_rw
import z3

skipmark = z3.Function("has_skip_file_comment", STR, B)


def _skip_findall(eng, args, kw, env, pc, node):
    from pyvc.engine import Undecided
    pat, s = args
    if not isinstance(pat, VStr) or pat.lit != "# pyrefact: skip_file":
        raise Undecided(f"re.findall with pattern {getattr(pat, 'lit', None)!r}")
    out = fresh_val("findall", ("seq", "str"))
    pc.append(z3.And(out.len >= 0, (out.len > 0) == skipmark(s.t)))
    eng.assumptions.add("regex `# pyrefact: skip_file` is an uninterpreted predicate on the text (re.findall non-empty iff it occurs)")
    return out


def _skip_search(eng, args, kw, env, pc, node):
    """re.search(<a pattern naming skip_file>, text): truthy iff the text carries a skip-file comment (uninterpreted predicate)"""
    from pyvc.engine import Undecided
    from pyvc.values import VOpt
    pat, s = args
    if not isinstance(pat, VStr) or pat.lit is None or "skip_file" not in pat.lit or "pyrefact" not in pat.lit:
        raise Undecided(f"re.search with pattern {getattr(pat, 'lit', None)!r}")
    eng.assumptions.add("the skip_file regular expression is an uninterpreted predicate on the text (re.search is not None iff it occurs)")
    return VOpt(z3.Not(skipmark(s.t)), VBool(z3.BoolVal(True)))       # a Match object is always truthy


def g_skip(eng, args, kw, env, pc, node):
    return VBool(skipmark(args[0].t))


def slice_first_stmt(fn):
    body = [s for s in fn.body if not (isinstance(s, ast.Expr) and isinstance(s.value, ast.Constant))]
    if not body or not isinstance(body[0], ast.If) or "skip_file" not in ast.unparse(body[0].test):
        raise NotGenerated("format_code: the skip_file test is not the first statement")
    return [body[0]], "skip-file"


format_code_skip = Unit(
    "main", "format_code", slice=slice_first_stmt,
    params={"source": "str"}, returns="str",
    ensures=[("skip-file-returns-input-unchanged", "implies(skips(old(source)), defined('result') and result == old(source))"),
             ("source-not-modified-before-the-test", "source == old(source)")],
    calls={"re.findall": _skip_findall, "re.search": _skip_search}, ghost={"skips": g_skip}, props=("C20", "C04"),
    post_hook=None,
)
format_code_skip.key_suffix = "skip-file"


# ----------------------------------------------------------------------------- _do_rewrite: the ignore guard dominates every edit
def _lazy_obj(eng, e, env, pc):
    return VObj(fresh("opaque", OBJ))


_lazy_obj.lazy_args = True

DO_CALLS = {"core.has_ignore_comment": ("uf", "bool"), "_get_charnos": ("uf", RANGE), "core.is_valid_python": ("uf", "bool"),
            "_log_replacement": _lazy_obj, "minimize_whitespace_line_differences": ("havoc", ("tuple", ["str", "str", "str"])),
            "core.unparse": ("uf", "str"), "_sources_equivalent": ("uf", "bool")}

do_rewrite_range = Unit(
    "processing", "_do_rewrite", name="processing._do_rewrite[range-target]",
    params={"source": "str", "rewrite": REWRITE, "fix_function_name": "str"}, returns="str",
    ensures=[("edit-only-if-no-ignored-line", "result == source or not core.has_ignore_comment(source, rewrite.old)")],
    calls=DO_CALLS, records=RECORDS, lenient=True, props=("C20", "C14"), covers=False,

)
do_rewrite_node = Unit(
    "processing", "_do_rewrite", name="processing._do_rewrite[node-target]",
    params={"source": "str", "rewrite": ("rec", "_Rewrite", {"old": "obj", "new": "obj"}), "fix_function_name": "str"}, returns="str",
    requires=[("target-is-a-node", "not isinstance(rewrite.old, core.Range)")],
    ensures=[("edit-only-if-no-ignored-line", "result == source or not core.has_ignore_comment(source, _get_charnos(rewrite, source))")],
    calls=DO_CALLS, records=RECORDS, lenient=True, props=("C20", "C14"), covers=False,

)


# ----------------------------------------------------------------------------- alter_code / remove_nodes: direct editing path
def slice_alter_veto(fn):
    body = [s for s in fn.body if not (isinstance(s, ast.Expr) and isinstance(s.value, ast.Constant))]
    if not body or not isinstance(body[0], ast.If) or "has_ignore_comment" not in ast.unparse(body[0].test):
        raise NotGenerated("alter_code: no ignore-comment veto before the first edit")
    return [body[0]], "ignore-veto"


IGN = {"ign": "lambda n: core.has_ignore_comment(source, core.get_charnos(n, source))"}

alter_veto = Unit(
    "processing", "alter_code", slice=slice_alter_veto,
    params={"source": "str", "removals": ("seq", "obj"), "replacements": ("map", "obj", "obj")}, returns="str",
    ensures=[
        ("vetoed-when-an-edited-node-is-on-an-ignored-line",
         "implies(exists(lambda k: 0 <= k and k < len((*removals, *replacements)) and ign((*removals, *replacements)[k])), defined('result') and result == source)"),
        ("removed-nodes-are-edited-nodes", "forall(lambda k: implies(0 <= k and k < len(removals), (*removals, *replacements)[k] == removals[k]))"),
        ("replaced-nodes-are-edited-nodes", "forall(lambda k: implies(0 <= k and k < len(keys_of(replacements)), (*removals, *replacements)[len(removals) + k] == keys_of(replacements)[k]))"),
        ("source-untouched", "source == old(source)"),
    ],
    calls={"core.has_ignore_comment": ("uf", "bool"), "core.get_charnos": ("uf", RANGE)},
    ghost=dict(IGN, keys_of=lambda eng, args, kw, env, pc, node: args[0].keys), records=RECORDS, props=("C20",),
)
alter_veto.key_suffix = "ignore-veto"


def slice_remove_filter(fn):
    body = [s for s in fn.body if not (isinstance(s, ast.Expr) and isinstance(s.value, ast.Constant))]
    for k, st in enumerate(body):
        if isinstance(st, ast.Assign) and ast.unparse(st.targets[0]) == "nodes" and "has_ignore_comment" in ast.unparse(st.value):
            return body[:k + 1], "ignore-filter"
        if isinstance(st, (ast.For, ast.While)):
            break
    raise NotGenerated("remove_nodes: nodes are not filtered by has_ignore_comment before the removal loop")


remove_filter = Unit(
    "processing", "remove_nodes", slice=slice_remove_filter,
    params={"source": "str", "nodes": ("seq", "obj")},
    ensures=[("no-node-on-an-ignored-line-is-removed", "forall(lambda k: implies(0 <= k and k < len(nodes), not ign(nodes[k])))"),
             ("only-requested-nodes", "forall(lambda k: implies(0 <= k and k < len(nodes), exists(lambda j: 0 <= j and j < len(old(nodes)) and old(nodes)[j] == nodes[k])))"),
             ("unmarked-nodes-kept", "forall(lambda j: implies(0 <= j and j < len(old(nodes)) and not ign(old(nodes)[j]), exists(lambda k: 0 <= k and k < len(nodes) and nodes[k] == old(nodes)[j])))")],
    calls={"core.has_ignore_comment": ("uf", "bool"), "core.get_charnos": ("uf", RANGE)}, ghost=IGN, records=RECORDS, props=("C20",), lenient=True,
)
remove_filter.key_suffix = "ignore-filter"

UNITS = [format_code_skip, do_rewrite_range, do_rewrite_node, alter_veto, remove_filter]


# ----------------------------------------------------------------------------- the direct-editing helpers on representatives
# "a line carrying an ignore comment is carried over verbatim ... however the line is nested": the real remove_nodes / alter_code / _replace_nodes are
# run on one module per place where the comment can stand relative to the node that is to go (its first line, a decorator line, a continuation
# line, its last line, a line of a nested statement) - a filter that looks at the wrong lines of a node shows here, whatever its code looks like.
IGNORE_REPRESENTATIVES = [
    ("comment-on-the-def-line", "def keep(x):  # pyrefact: ignore\n    return x\n\n\nprint(1)\n", "FunctionDef", "def keep(x):  # pyrefact: ignore"),
    ("comment-on-a-decorator-line", "import functools\n\n\n@functools.lru_cache(maxsize=None)  # pyrefact: ignore\ndef keep(x):\n    return x\n\n\nprint(1)\n", "FunctionDef", "@functools.lru_cache(maxsize=None)  # pyrefact: ignore"),
    ("comment-on-a-continuation-line-of-a-decorator", "import functools\n\n\n@functools.lru_cache(\n    maxsize=None,  # pyrefact: ignore\n)\ndef keep(x):\n    return x\n\n\nprint(1)\n", "FunctionDef", "    maxsize=None,  # pyrefact: ignore"),
    ("comment-on-the-last-line-of-the-body", "def keep(x):\n    y = x\n    return y  # pyrefact: ignore\n\n\nprint(1)\n", "FunctionDef", "    return y  # pyrefact: ignore"),
    ("comment-on-a-nested-statement", "def keep(x):\n    if x:\n        x = 1  # pyrefact: ignore\n    return x\n\n\nprint(1)\n", "FunctionDef", "        x = 1  # pyrefact: ignore"),
    ("comment-on-a-continuation-line-of-a-call", "print(\n    1,  # pyrefact: ignore\n    2,\n)\nprint(3)\n", "Expr", "    1,  # pyrefact: ignore"),
    ("comment-on-the-closing-line", "x = [\n    1,\n]  # pyrefact: ignore\nprint(x)\n", "Assign", "]  # pyrefact: ignore"),
    ("comment-on-a-class-base-line", "class Keep(\n    object,  # pyrefact: ignore\n):\n    pass\n\n\nprint(1)\n", "ClassDef", "    object,  # pyrefact: ignore"),
    ("comment-in-another-spelling", "def keep(x):  #pyrefact:ignore\n    return x\n\n\nprint(1)\n", "FunctionDef", "def keep(x):  #pyrefact:ignore"),
    ("skip-file-comment-counts-too", "def keep(x):  # pyrefact: skip_file\n    return x\n\n\nprint(1)\n", "FunctionDef", "def keep(x):  # pyrefact: skip_file"),
]


def gen_direct_edit_representatives(g):
    import z3
    from pyvc.replay import call_real
    from pyvc.unit import find_def, segment_sha
    fn, text = find_def("processing", "remove_nodes")
    g.sha = segment_sha(text, fn)
    g.lines = [fn.lineno, fn.end_lineno]
    snippet = (
        "import ast\n"
        "from pyrefact import processing, core, logs\n"
        "logs.set_level(100)\n"
        "out = {}\n"
        "for lab, src, kind in payload['cases']:\n"
        "    res = {}\n"
        "    for how in ('remove_nodes', 'alter_code-removal', 'alter_code-replacement', 'replace_nodes'):\n"
        "        root = core.parse(src)\n"
        "        node = next(n for n in root.body if type(n).__name__ == kind)\n"
        "        try:\n"
        "            if how == 'remove_nodes':\n"
        "                res[how] = processing.remove_nodes(src, [node], root)\n"
        "            elif how == 'alter_code-removal':\n"
        "                res[how] = processing.alter_code(src, root, removals=[node])\n"
        "            elif how == 'alter_code-replacement':\n"
        "                res[how] = processing.alter_code(src, root, replacements={node: ast.Pass()})\n"
        "            else:\n"
        "                res[how] = processing._replace_nodes(src, {node: ast.Pass()})\n"
        "        except Exception as ex:\n"
        "            res[how] = None\n"
        "    out[lab] = res\n"
        "print(json.dumps(out))\n")
    res = call_real(snippet, {"cases": [(lab, src, kind) for lab, src, kind, _ in IGNORE_REPRESENTATIVES]}, timeout=120)
    import io
    for lab, src, kind, line in IGNORE_REPRESENTATIVES:
        for how, out in sorted((res.get(lab) or {}).items()):
            if not isinstance(out, str):
                g.oblige_text("table", f"ignored-line-survives:{how}:{lab}", False, fn.lineno)
                continue
            ok = any(ln.rstrip("\r\n") == line for ln in io.StringIO(out, newline="").readlines())
            g.oblige("table", f"ignored-line-survives:{how}:{lab}", [], z3.BoolVal(ok), fn.lineno,
                     replay=lambda m, how=how, src=src, out=out, line=line: {"reproduced": True, "input": f"processing.{how.split('-')[0]} asked to take away the node of {src!r}",
                                                                             "observed": out, "required": f"the line {line!r} is still there, verbatim"})
    g.assumptions.add("one representative per position of the comment relative to the node; the bounded stand-in varies rules and nesting")
