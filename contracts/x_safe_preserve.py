"""C07 / C08: the safe-mode preserve set and its flow to every rule that deletes or renames (main.format_code, main._multi_run_fixes).

Spec (C07): with safe=True the set handed to every rule that takes a `preserve` argument contains the names of all top-level
functions and classes, "Class.method" and the plain member names of top-level classes, and all names bound by top-level
assignments.  Obligations, from the real AST of format_code:
  * each component set is the comprehension the spec describes (syntactic equality with the spec's comprehension text);
  * the union assigned in the `if safe:` block contains the caller's preserve and every component;
  * reaching definitions: at every call `f(..., preserve=E)` after the block, E is a variable whose only reaching definition
    under safe=True is that union (no call receives the raw parameter or another set);
  * _multi_run_fixes forwards its own `preserve` parameter unchanged to every rule whose signature has one.
"""
import ast
import z3

from pyvc.tables import Gen
from pyvc.unit import find_def, segment_sha, NotGenerated, module_source

SPEC_COMPONENTS = {
    "defs": "{node.name for node in core.filter_nodes(module.body, def_types)}",
    "class_funcs": "{f'{node.name}.{funcdef.name}' for node in core.filter_nodes(module.body, ast.ClassDef) for funcdef in core.filter_nodes(node.body, fdef_types)}",
    "class_members": "{funcdef.name for node in core.filter_nodes(module.body, ast.ClassDef) for funcdef in core.filter_nodes(node.body, fdef_types)} | {name.id for node in core.filter_nodes(module.body, ast.ClassDef) for name in parsing.iter_assignments(node)}",
    "assignments": "{node.id for node in parsing.iter_assignments(module)}",
}
SPEC_TYPES = {"def_types": "(ast.FunctionDef, ast.AsyncFunctionDef, ast.ClassDef)", "fdef_types": "(ast.FunctionDef, ast.AsyncFunctionDef)", "module": "core.parse(source)"}


SURFACE_KINDS = ["top-level function", "top-level async function", "top-level class", "method of a top-level class", "attribute assigned in a top-level class body",
                 "module-level assignment", "module-level annotated assignment", "module-level augmented assignment", "module-level tuple / list / starred unpacking", "chained assignment"]
REP_MODULES = [
    "def f():\n    pass\n\nasync def g():\n    pass\n\nclass C:\n    x = 1\n    y: int = 2\n\n    def m(self):\n        return 1\n\n    async def n(self):\n        return 2\n",
    "a = 1\nb: int = 2\nc = 0\nc += 1\nd, e = 1, 2\n[h, i] = 3, 4\nj, *k = [5, 6, 7]\n(p, [q, *r]) = 0, [1, 2]\ns = t = 9\n",
    "class Outer:\n    z1, z2 = 1, 2\n    w = v = 3\n\n    class Inner:\n        pass\n\n    @staticmethod\n    def sm():\n        return 0\n\n    @classmethod\n    def cm(cls):\n        return 1\n\n\nclass _Private:\n    def __init__(self):\n        self.q = 1\n",
    "def aB():\n    return 1\n\nclass lower_case:\n    CamelAttr = 1\n\n    def MixedCase(self):\n        return 2\n\nSomeVar = 3\nother_var = 4\n_x = 5\n",
    # names whose ONLY top-level assignment statement is an augmented one (bound by a star import, or in a nested block, before)
    "from settings_base import *\nINSTALLED_APPS += ['x']\nif INSTALLED_APPS:\n    searchPath = []\nelse:\n    searchPath = None\nsearchPath *= 2\n",
]


def _expected_surface(src):
    """independent reading of C07's surface: {kind: names}"""
    tree = ast.parse(src)
    out = {k: set() for k in SURFACE_KINDS}

    def names(t):
        if isinstance(t, ast.Name):
            yield t.id
        elif isinstance(t, (ast.Tuple, ast.List)):
            for e in t.elts:
                yield from names(e)
        elif isinstance(t, ast.Starred):
            yield from names(t.value)
    for st in tree.body:
        if isinstance(st, ast.FunctionDef):
            out["top-level function"].add(st.name)
        elif isinstance(st, ast.AsyncFunctionDef):
            out["top-level async function"].add(st.name)
        elif isinstance(st, ast.ClassDef):
            out["top-level class"].add(st.name)
            for c in st.body:
                if isinstance(c, (ast.FunctionDef, ast.AsyncFunctionDef)):
                    out["method of a top-level class"].update({f"{st.name}.{c.name}", c.name})
                elif isinstance(c, ast.Assign):
                    for t in c.targets:
                        out["attribute assigned in a top-level class body"].update(names(t))
                elif isinstance(c, ast.AnnAssign) and c.value is not None:
                    out["attribute assigned in a top-level class body"].update(names(c.target))
        elif isinstance(st, ast.Assign):
            kind = "chained assignment" if len(st.targets) > 1 else ("module-level assignment" if isinstance(st.targets[0], ast.Name) else "module-level tuple / list / starred unpacking")
            for t in st.targets:
                out[kind].update(names(t))
        elif isinstance(st, ast.AnnAssign) and st.value is not None:
            out["module-level annotated assignment"].update(names(st.target))
        elif isinstance(st, ast.AugAssign):
            out["module-level augmented assignment"].update(names(st.target))
    return out


def _run_safe_block(args):
    """forked worker: run the real safe block on each representative module; -> {kind: [(module, missing name), ...]} or an error string"""
    import sys
    repo, block_src, union_var = args
    sys.path.insert(0, repo)
    try:
        from pyrefact import core, parsing
        code = compile(block_src, "<safe block>", "exec")
    except Exception as ex:  # noqa: BLE001
        return f"{type(ex).__name__}: {ex}"
    missing = {}
    for src in REP_MODULES:
        env = {"core": core, "parsing": parsing, "ast": ast, "source": src, "preserve": frozenset()}
        try:
            exec(code, env)         # noqa: S102
        except Exception as ex:  # noqa: BLE001
            return f"{type(ex).__name__}: {ex}"
        got = set(env.get(union_var, ()))
        for kind, want in _expected_surface(src).items():
            for nm in sorted(want):
                if nm not in got:
                    missing.setdefault(kind, []).append((src, nm))
    return missing


def generate(g: Gen):
    fn, text = find_def("main", "format_code")
    g.sha = segment_sha(text, fn)
    g.lines = [fn.lineno, fn.end_lineno]
    safe_if = [s for s in fn.body if isinstance(s, ast.If) and ast.unparse(s.test) == "safe"]
    if len(safe_if) != 1:
        raise NotGenerated("format_code: `if safe:` block not found")
    blk = safe_if[0]
    assigns = {ast.unparse(s.targets[0]): s for s in blk.body if isinstance(s, ast.Assign) and len(s.targets) == 1}
    # What the safe set must contain is decided by EXECUTING the real `if safe:` block (compiled from the source text, with the real core /
    # parsing modules, in a forked worker) on representative modules that exercise every kind of surface element, and comparing the set it
    # builds with an independent reading of the property's surface.  Identical text to the known-good block is the fast path.
    same_text = all(nm in assigns and ast.unparse(assigns[nm].value) == ast.unparse(ast.parse(want, mode="eval").body) for nm, want in {**SPEC_TYPES, **SPEC_COMPONENTS}.items())
    from standins import pipeline as P
    unions0 = [s_ for s_ in blk.body if isinstance(s_, ast.Assign) and isinstance(s_.value, ast.BinOp) and isinstance(s_.value.op, ast.BitOr) and ast.unparse(s_.targets[0]) not in SPEC_COMPONENTS]
    if len(unions0) != 1:
        raise NotGenerated("format_code: the union assignment of the safe block not found")
    missing = P.pool_map(_run_safe_block, [(P.REPO, ast.unparse(ast.Module(body=blk.body, type_ignores=[])), ast.unparse(unions0[0].targets[0]))], chunksize=1, procs=1)[0]
    if isinstance(missing, str):
        raise NotGenerated(f"the safe block cannot be executed on the representative modules: {missing}")
    for kind in SURFACE_KINDS:
        bad = missing.get(kind, [])
        g.oblige("table", f"safe-set-contains:{kind}", [], z3.BoolVal(not bad), blk.lineno,
                 replay=lambda m, kind=kind, bad=tuple(bad): {"reproduced": True, "input": f"module {bad[0][0]!r}" if bad else "", "observed": f"safe set lacks {bad[0][1]!r}" if bad else "", "required": f"every {kind} is in the safe set"})
    g.assumptions.add("safe set evaluated by running the real block on %d representative modules (one or more per kind of surface element); same text as the reviewed block: %s" % (len(REP_MODULES), same_text))
    # the union
    unions = [s for s in blk.body if isinstance(s, ast.Assign) and isinstance(s.value, ast.BinOp) and isinstance(s.value.op, ast.BitOr) and ast.unparse(s.targets[0]) not in SPEC_COMPONENTS]
    if len(unions) != 1:
        raise NotGenerated("format_code: the union assignment of the safe block not found")
    u = unions[0]
    aug_var = ast.unparse(u.targets[0])
    operands = []

    def flat(e):
        if isinstance(e, ast.BinOp) and isinstance(e.op, ast.BitOr):
            flat(e.left)
            flat(e.right)
        else:
            operands.append(ast.unparse(e))
    flat(u.value)
    for comp in list(SPEC_COMPONENTS) + ["set(preserve)"]:
        g.oblige_text("table", f"safe-union-contains:{comp}", comp in operands, u.lineno)
    # reaching definitions of every preserve= argument after the block (straight-line top level + loops: any later assignment to the
    # variable anywhere in the function other than the union is a second definition)
    stores = [n for n in ast.walk(fn) if isinstance(n, ast.Name) and isinstance(n.ctx, ast.Store) and n.id == aug_var]
    # allowed definitions: the union (safe branch) and, in the else branch of the same `if safe:`, the caller's set itself
    else_defs = [s_ for s_ in blk.orelse if isinstance(s_, ast.Assign) and ast.unparse(s_.targets[0]) == aug_var]
    else_ok = all(ast.unparse(s_.value) in ("preserve", "set(preserve)", "frozenset(preserve)") for s_ in else_defs)
    g.oblige_text("dataflow", f"definitions-of-the-safe-set-variable:{aug_var}", len(stores) == 1 + len(else_defs) and else_ok, u.lineno)
    calls = [n for n in ast.walk(fn) if isinstance(n, ast.Call) and any(k.arg == "preserve" for k in n.keywords) and n.lineno > blk.end_lineno]
    if len(calls) < 3:
        raise NotGenerated(f"only {len(calls)} calls with a preserve argument after the safe block")
    for c in calls:
        arg = next(k.value for k in c.keywords if k.arg == "preserve")
        g.oblige_text("dataflow", f"preserve-argument-is-the-safe-set:{ast.unparse(c.func)}", ast.unparse(arg) == aug_var, c.lineno)
    # when safe is False the same variable must be the caller's set: the variable is the parameter itself
    is_param = aug_var == "preserve" and any(a.arg == "preserve" for a in fn.args.kwonlyargs + fn.args.args)
    g.oblige_text("dataflow", "without-safe-the-variable-is-the-callers-set", bool(is_param or (else_defs and else_ok)), u.lineno)

    # _multi_run_fixes forwards preserve to every rule that takes it
    mf, _ = find_def("main", "_multi_run_fixes")
    n_fw = 0
    for c in [n for n in ast.walk(mf) if isinstance(n, ast.Call) and isinstance(n.func, ast.Attribute) and isinstance(n.func.value, ast.Name)]:
        mod, fname = c.func.value.id, c.func.attr
        try:
            d, _ = find_def(mod, fname)
        except (NotGenerated, FileNotFoundError):
            continue
        params = [a.arg for a in d.args.args + d.args.kwonlyargs]
        if "preserve" in params:
            n_fw += 1
            kw = {k.arg: ast.unparse(k.value) for k in c.keywords}
            g.oblige_text("dataflow", f"forwards-preserve:{mod}.{fname}", kw.get("preserve") == "preserve", c.lineno)
    stores = [n for n in ast.walk(mf) if isinstance(n, ast.Name) and isinstance(n.ctx, ast.Store) and n.id == "preserve"]
    g.oblige_text("dataflow", "_multi_run_fixes-does-not-rebind-preserve", not stores, mf.lineno)
    if n_fw < 4:
        raise NotGenerated(f"only {n_fw} rules with a preserve parameter called from _multi_run_fixes")
    g.assumptions.add("set comprehension semantics and core.filter_nodes / parsing.iter_assignments are taken at face value (their results are the nodes the names say)")
