"""C07 / C08: the safe-mode preserve set and its flow to every rule that deletes or renames (main.format_code, main._multi_run_fixes).

Spec (C07): with safe=True the set handed to every rule that takes a `preserve` argument contains the names of all top-level
functions and classes, "Class.method" and the plain member names of top-level classes, and all names bound by top-level
assignments.  Obligations, from the real AST of format_code:
  * each component set is the comprehension the spec describes (syntactic equality with the spec's comprehension text);
  * the union assigned in the `if safe:` block contains the caller's preserve and every component;
  * reaching definitions: at every call `f(..., preserve=E)` after the block, E is a variable whose only reaching definition
    under safe=True is that union (no call receives the raw parameter or another set);
  * _multi_run_fixes forwards its own `preserve` parameter unchanged to every rule whose signature has one.
"""
import ast
import z3

from pyvc.tables import Gen
from pyvc.unit import find_def, segment_sha, NotGenerated, module_source

SPEC_COMPONENTS = {
    "defs": "{node.name for node in core.filter_nodes(module.body, def_types)}",
    "class_funcs": "{f'{node.name}.{funcdef.name}' for node in core.filter_nodes(module.body, ast.ClassDef) for funcdef in core.filter_nodes(node.body, fdef_types)}",
    "class_members": "{funcdef.name for node in core.filter_nodes(module.body, ast.ClassDef) for funcdef in core.filter_nodes(node.body, fdef_types)} | {name.id for node in core.filter_nodes(module.body, ast.ClassDef) for name in parsing.iter_assignments(node)}",
    "assignments": "{node.id for node in parsing.iter_assignments(module)}",
}
SPEC_TYPES = {"def_types": "(ast.FunctionDef, ast.AsyncFunctionDef, ast.ClassDef)", "fdef_types": "(ast.FunctionDef, ast.AsyncFunctionDef)", "module": "core.parse(source)"}


def generate(g: Gen):
    fn, text = find_def("main", "format_code")
    g.sha = segment_sha(text, fn)
    g.lines = [fn.lineno, fn.end_lineno]
    safe_if = [s for s in fn.body if isinstance(s, ast.If) and ast.unparse(s.test) == "safe"]
    if len(safe_if) != 1:
        raise NotGenerated("format_code: `if safe:` block not found")
    blk = safe_if[0]
    assigns = {ast.unparse(s.targets[0]): s for s in blk.body if isinstance(s, ast.Assign) and len(s.targets) == 1}
    for nm, want in {**SPEC_TYPES, **SPEC_COMPONENTS}.items():
        ok = nm in assigns and ast.unparse(assigns[nm].value) == ast.unparse(ast.parse(want, mode="eval").body)
        g.oblige("table", f"safe-component:{nm}", [], z3.BoolVal(bool(ok)), assigns[nm].lineno if nm in assigns else blk.lineno)
    # the union
    unions = [s for s in blk.body if isinstance(s, ast.Assign) and isinstance(s.value, ast.BinOp) and isinstance(s.value.op, ast.BitOr) and ast.unparse(s.targets[0]) not in SPEC_COMPONENTS]
    if len(unions) != 1:
        raise NotGenerated("format_code: the union assignment of the safe block not found")
    u = unions[0]
    aug_var = ast.unparse(u.targets[0])
    operands = []

    def flat(e):
        if isinstance(e, ast.BinOp) and isinstance(e.op, ast.BitOr):
            flat(e.left)
            flat(e.right)
        else:
            operands.append(ast.unparse(e))
    flat(u.value)
    for comp in list(SPEC_COMPONENTS) + ["set(preserve)"]:
        g.oblige("table", f"safe-union-contains:{comp}", [], z3.BoolVal(comp in operands), u.lineno)
    # reaching definitions of every preserve= argument after the block (straight-line top level + loops: any later assignment to the
    # variable anywhere in the function other than the union is a second definition)
    stores = [n for n in ast.walk(fn) if isinstance(n, ast.Name) and isinstance(n.ctx, ast.Store) and n.id == aug_var]
    # allowed definitions: the union (safe branch) and, in the else branch of the same `if safe:`, the caller's set itself
    else_defs = [s_ for s_ in blk.orelse if isinstance(s_, ast.Assign) and ast.unparse(s_.targets[0]) == aug_var]
    else_ok = all(ast.unparse(s_.value) in ("preserve", "set(preserve)", "frozenset(preserve)") for s_ in else_defs)
    g.oblige("dataflow", f"definitions-of-the-safe-set-variable:{aug_var}", [], z3.BoolVal(len(stores) == 1 + len(else_defs) and else_ok), u.lineno)
    calls = [n for n in ast.walk(fn) if isinstance(n, ast.Call) and any(k.arg == "preserve" for k in n.keywords) and n.lineno > blk.end_lineno]
    if len(calls) < 3:
        raise NotGenerated(f"only {len(calls)} calls with a preserve argument after the safe block")
    for c in calls:
        arg = next(k.value for k in c.keywords if k.arg == "preserve")
        g.oblige("dataflow", f"preserve-argument-is-the-safe-set:{ast.unparse(c.func)}", [], z3.BoolVal(ast.unparse(arg) == aug_var), c.lineno)
    # when safe is False the same variable must be the caller's set: the variable is the parameter itself
    is_param = aug_var == "preserve" and any(a.arg == "preserve" for a in fn.args.kwonlyargs + fn.args.args)
    g.oblige("dataflow", "without-safe-the-variable-is-the-callers-set", [], z3.BoolVal(bool(is_param or (else_defs and else_ok))), u.lineno)

    # _multi_run_fixes forwards preserve to every rule that takes it
    mf, _ = find_def("main", "_multi_run_fixes")
    n_fw = 0
    for c in [n for n in ast.walk(mf) if isinstance(n, ast.Call) and isinstance(n.func, ast.Attribute) and isinstance(n.func.value, ast.Name)]:
        mod, fname = c.func.value.id, c.func.attr
        try:
            d, _ = find_def(mod, fname)
        except (NotGenerated, FileNotFoundError):
            continue
        params = [a.arg for a in d.args.args + d.args.kwonlyargs]
        if "preserve" in params:
            n_fw += 1
            kw = {k.arg: ast.unparse(k.value) for k in c.keywords}
            g.oblige("dataflow", f"forwards-preserve:{mod}.{fname}", [], z3.BoolVal(kw.get("preserve") == "preserve"), c.lineno)
    stores = [n for n in ast.walk(mf) if isinstance(n, ast.Name) and isinstance(n.ctx, ast.Store) and n.id == "preserve"]
    g.oblige("dataflow", "_multi_run_fixes-does-not-rebind-preserve", [], z3.BoolVal(not stores), mf.lineno)
    if n_fw < 4:
        raise NotGenerated(f"only {n_fw} rules with a preserve parameter called from _multi_run_fixes")
    g.assumptions.add("set comprehension semantics and core.filter_nodes / parsing.iter_assignments are taken at face value (their results are the nodes the names say)")
