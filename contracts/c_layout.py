"""C11: the guard that keeps layout stages out of literals.

  * processing.keep_syntax_tree(source, new_source): returns new_source only if it has the same syntax tree as source (or source is not valid
    Python, where nothing can be compared), otherwise source - contract on the real function with `_sources_equivalent` and
    `core.is_valid_python` as uninterpreted predicates.
  * dataflow obligations on the real AST: every whole-text layout transform in format_code (str.expandtabs, rmspace.format_str), every
    re.sub of fix_too_many_blank_lines and the yield of fix_line_lengths go through that guard.
"""
import ast
import z3

from pyvc.unit import Unit, NotGenerated, find_def, segment_sha

keep_tree = Unit(
    "processing", "keep_syntax_tree",
    params={"source": "str", "new_source": "str"}, returns="str",
    ensures=[("returns-one-of-its-arguments", "result == source or result == new_source"),
             ("a-different-tree-is-never-returned", "implies(core.is_valid_python(source) and result != source, core.is_valid_python(result) and _sources_equivalent(source, result))")],
    calls={"core.is_valid_python": ("uf", "bool"), "_sources_equivalent": ("uf", "bool")}, props=("C11", "C03"),
)

UNITS = [keep_tree]


def _guarded(call_src):
    return call_src.startswith("processing.keep_syntax_tree(") or call_src.startswith("_keep_ignored_lines(")


def gen_layout_guards(g):
    fc, text = find_def("main", "format_code")
    g.sha = segment_sha(text, fc)
    g.lines = [fc.lineno, fc.end_lineno]
    # every call of a raw whole-text layout transform inside format_code is an argument of the guard
    parents = {}
    for p in ast.walk(fc):
        for c in ast.iter_child_nodes(p):
            parents[id(c)] = p
    raw = [n for n in ast.walk(fc) if isinstance(n, ast.Call) and (ast.unparse(n.func).endswith(".expandtabs") or ast.unparse(n.func) == "rmspace.format_str")]
    if not raw:
        raise NotGenerated("format_code: no tab expansion / rmspace call found")
    for k, n in enumerate(raw):
        p = parents.get(id(n))
        ok = isinstance(p, ast.Call) and ast.unparse(p.func) == "processing.keep_syntax_tree" and len(p.args) == 2 and p.args[1] is n
        g.oblige_text("dataflow", f"format_code:{ast.unparse(n.func)}#{k}-goes-through-the-tree-guard", bool(ok), fc.lineno)
    fb, _ = find_def("fixes", "fix_too_many_blank_lines")
    subs = [n for n in ast.walk(fb) if isinstance(n, ast.Call) and ast.unparse(n.func) == "re.sub"]
    pb = {}
    for p in ast.walk(fb):
        for c in ast.iter_child_nodes(p):
            pb[id(c)] = p
    g.oblige_text("table", "fix_too_many_blank_lines:has-substitutions", len(subs) >= 1, fb.lineno)
    for k, n in enumerate(subs):
        p = pb.get(id(n))
        ok = isinstance(p, ast.Call) and ast.unparse(p.func) == "processing.keep_syntax_tree" and len(p.args) == 2 and p.args[1] is n and ast.unparse(p.args[0]) == ast.unparse(n.args[2])
        g.oblige_text("dataflow", f"fix_too_many_blank_lines:substitution#{k}-goes-through-the-tree-guard", bool(ok), fb.lineno)
    fl, _ = find_def("fixes", "fix_line_lengths")
    ys = [n for n in ast.walk(fl) if isinstance(n, ast.Yield)]
    # the yield is dominated by a `continue` taken when the whole-text candidate does not keep the tree
    guards = [n for n in ast.walk(fl) if isinstance(n, ast.If) and "processing.keep_syntax_tree(source, candidate)" in ast.unparse(n.test) and isinstance(n.body[0], ast.Continue)]
    ok = len(ys) == 1 and len(guards) == 1 and guards[0].lineno < ys[0].lineno
    g.oblige_text("dataflow", "fix_line_lengths:a-wrapped-statement-is-yielded-only-if-the-tree-is-kept", bool(ok), fl.lineno)
    # every return of fix_import_spacing is the input or goes through the guard with the input as reference
    fi, _ = find_def("fixes", "fix_import_spacing")
    rets = [n for n in ast.walk(fi) if isinstance(n, ast.Return)]
    ok = bool(rets) and all(r.value is not None and (ast.unparse(r.value) == "source" or (isinstance(r.value, ast.Call) and ast.unparse(r.value.func) == "processing.keep_syntax_tree"
                                                                                           and len(r.value.args) == 2 and ast.unparse(r.value.args[0]) == "source")) for r in rets)
    reassigned = any(isinstance(n, ast.Name) and n.id == "source" and isinstance(n.ctx, ast.Store) for n in ast.walk(fi))
    g.oblige_text("dataflow", "fix_import_spacing:every-result-goes-through-the-tree-guard", bool(ok and not reassigned), fi.lineno)
