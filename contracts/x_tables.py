"""Finite table obligations read from the REAL constants.py (C15, C17) and the induction over fixes._negate_condition (C17).

REVERSE_OPERATOR_MAPPING[op] must denote the negation of op:  forall a, b in R (hence Z): (a op' b) <=> not (a op b);
membership / identity pairs by definition.  COMPARISON_OPERATORS[ast.Op] must be the function of the `operator`
module (or lambda) that CPython documents for that AST operator class.
"""
import ast
import z3

from pyvc.tables import Gen
from pyvc.unit import module_source, find_def, segment_sha, NotGenerated

REL = {"Eq": lambda a, b: a == b, "NotEq": lambda a, b: a != b, "Gt": lambda a, b: a > b, "Lt": lambda a, b: a < b,
       "GtE": lambda a, b: a >= b, "LtE": lambda a, b: a <= b}
DEF_NEG = {"In": "NotIn", "NotIn": "In", "Is": "IsNot", "IsNot": "Is"}

# spec: AST operator class -> name in the `operator` module (CPython docs, "Mapping Operators to Functions")
OPERATOR_SPEC = {"Eq": "eq", "NotEq": "ne", "Lt": "lt", "LtE": "le", "Gt": "gt", "GtE": "ge", "Is": "is_", "IsNot": "is_not",
                 "Add": "add", "Sub": "sub", "Mult": "mul", "Div": "truediv", "FloorDiv": "floordiv", "Mod": "mod", "Pow": "pow",
                 "LShift": "lshift", "RShift": "rshift", "BitOr": "or_", "BitXor": "xor", "BitAnd": "and_", "MatMult": "matmul"}
LAMBDA_SPEC = {"In": "lambda x, y: x in y", "NotIn": "lambda x, y: x not in y"}


def dict_literal(module, name):
    text, tree = module_source(module)
    for n in tree.body:
        if isinstance(n, ast.Assign) and isinstance(n.targets[0], ast.Name) and n.targets[0].id == name:
            v = n.value
            if isinstance(v, ast.Call) and v.args and isinstance(v.args[0], ast.Dict):
                v = v.args[0]
            if isinstance(v, ast.Dict):
                return v, text, n
    raise NotGenerated(f"{module}.{name}: dict literal not found")


def gen_reverse(g: Gen):
    d, text, node = dict_literal("constants", "REVERSE_OPERATOR_MAPPING")
    g.sha = segment_sha(text, node)
    g.lines = [node.lineno, node.end_lineno]
    a, b = z3.Reals("a b")
    keys = set()
    for k, v in zip(d.keys, d.values):
        if not (isinstance(k, ast.Attribute) and isinstance(v, ast.Attribute)):
            raise NotGenerated("entry is not ast.X: ast.Y")
        ko, vo = k.attr, v.attr
        keys.add(ko)
        if ko in REL:
            goal = REL[vo](a, b) == z3.Not(REL[ko](a, b)) if vo in REL else z3.BoolVal(False)
            g.oblige("table", f"negation:{ko}", [], goal, k.lineno)
        elif ko in DEF_NEG:
            g.oblige("table", f"negation-by-definition:{ko}", [], z3.BoolVal(DEF_NEG[ko] == vo), k.lineno)
        else:
            g.oblige("table", f"unknown-operator:{ko}", [], z3.BoolVal(False), k.lineno)
    for must in list(REL) + list(DEF_NEG):
        g.oblige("table", f"key-present:{must}", [], z3.BoolVal(must in keys), node.lineno)
    g.assumptions.add("comparison operands range over the reals (property C17 quantifies over integers); no NaN, no partial orders (sets)")


def gen_comparison_operators(g: Gen):
    d, text, node = dict_literal("constants", "COMPARISON_OPERATORS")
    g.sha = segment_sha(text, node)
    g.lines = [node.lineno, node.end_lineno]
    keys = set()
    for k, v in zip(d.keys, d.values):
        ko = k.attr
        keys.add(ko)
        if ko in OPERATOR_SPEC:
            ok = isinstance(v, ast.Attribute) and isinstance(v.value, ast.Name) and v.value.id == "operator" and v.attr == OPERATOR_SPEC[ko]
            g.oblige("table", f"denotes:{ko}", [], z3.BoolVal(bool(ok)), k.lineno)
        elif ko in LAMBDA_SPEC:
            ok = isinstance(v, ast.Lambda) and ast.unparse(v) == LAMBDA_SPEC[ko]
            g.oblige("table", f"denotes:{ko}", [], z3.BoolVal(bool(ok)), k.lineno)
        else:
            g.oblige("table", f"unknown-operator:{ko}", [], z3.BoolVal(False), k.lineno)
    g.assumptions.add("the functions of CPython's `operator` module implement the like-named operators (CPython documentation)")


# ----------------------------------------------------------------------------- _negate_condition
def gen_negate(g: Gen):
    """Induction on the AST: for each of the five return paths, truth(result) <=> not truth(node), recursive calls by
    the induction hypothesis.  Spec of truth: Not -> negation, And -> forall, Or -> exists, single comparison ->
    uninterpreted relation R(op, left, right) with R(rev(op)) <=> not R(op) (that is the REVERSE_OPERATOR_MAPPING table
    obligation, proved separately for the numeric operators)."""
    fn, text = find_def("fixes", "_negate_condition")
    g.sha = segment_sha(text, fn)
    g.lines = [fn.lineno, fn.end_lineno]
    N = z3.DeclareSort("Node")
    truth = z3.Function("truth", N, z3.BoolSort())
    child = z3.Function("child", N, z3.IntSort(), N)     # values[i] of a BoolOp
    nvals = z3.Function("nvals", N, z3.IntSort())
    operand = z3.Function("operand", N, N)
    node = z3.Const("node", N)
    i = z3.Int("i")
    neg = z3.Function("negate_result", N, N)             # result of the recursive call on a child
    IH = z3.ForAll([i], z3.Implies(z3.And(0 <= i, i < nvals(node)), truth(neg(child(node, i))) == z3.Not(truth(child(node, i)))))
    # comparison relation
    OpS = z3.DeclareSort("Op")
    R = z3.Function("R", OpS, N, N, z3.BoolSort())
    rev = z3.Function("rev", OpS, OpS)
    op_of = z3.Function("op_of", N, OpS)
    left = z3.Function("left", N, N)
    right = z3.Function("right", N, N)
    o, x, y = z3.Const("o", OpS), z3.Const("x", N), z3.Const("y", N)
    REV_AX = z3.ForAll([o, x, y], R(rev(o), x, y) == z3.Not(R(o, x, y)))

    seen = []
    for st in fn.body:
        if isinstance(st, ast.If):
            t = st.test
            if not (isinstance(t, ast.Call) and ast.unparse(t.func) == "core.match_template" and ast.unparse(t.args[0]) == "node"):
                raise NotGenerated(f"unrecognised guard at L{st.lineno}")
            tpl = ast.unparse(t.args[1])
            ret = st.body[-1]
            if not isinstance(ret, ast.Return):
                raise NotGenerated(f"branch without return at L{st.lineno}")
            rv = ast.unparse(ret.value)
            if tpl == "ast.UnaryOp(op=ast.Not)":
                # truth(node) = not truth(node.operand)
                hyp = [truth(node) == z3.Not(truth(operand(node)))]
                if rv == "node.operand":
                    res_truth = truth(operand(node))
                else:
                    raise NotGenerated(f"Not-branch returns `{rv}`")
                g.oblige("post", "Not-path:result-is-negation", hyp, res_truth == z3.Not(truth(node)), ret.lineno)
                seen.append("Not")
            elif tpl.startswith("ast.Compare(ops=[tuple(constants.REVERSE_OPERATOR_MAPPING)]"):
                hyp = [REV_AX, truth(node) == R(op_of(node), left(node), right(node))]
                # the branch must build Compare(left=node.left, ops=[REVERSE[type(node.ops[0])]()], comparators=node.comparators)
                assigns = {ast.unparse(s.targets[0]): ast.unparse(s.value) for s in st.body if isinstance(s, ast.Assign)}
                opexpr = None
                rvn = ret.value
                if isinstance(rvn, ast.Call) and ast.unparse(rvn.func) == "ast.Compare":
                    kw = {k.arg: k.value for k in rvn.keywords}
                    if set(kw) == {"left", "ops", "comparators"} and ast.unparse(kw["left"]) == "node.left" and ast.unparse(kw["comparators"]) == "node.comparators" \
                            and isinstance(kw["ops"], ast.List) and len(kw["ops"].elts) == 1:
                        opexpr = ast.unparse(kw["ops"].elts[0])
                        for nm, val in assigns.items():
                            opexpr = opexpr.replace(nm + "()", f"({val})()")
                if opexpr is None:
                    raise NotGenerated(f"Compare-branch returns `{rv[:60]}`")
                if opexpr == "(constants.REVERSE_OPERATOR_MAPPING[type(node.ops[0])])()":
                    res_truth = R(rev(op_of(node)), left(node), right(node))
                elif opexpr in ("type(node.ops[0])()", "node.ops[0]"):
                    res_truth = R(op_of(node), left(node), right(node))
                else:
                    raise NotGenerated(f"Compare-branch operator `{opexpr}`")
                g.oblige("post", "Compare-path:result-is-negation", hyp, res_truth == z3.Not(truth(node)), ret.lineno)
                seen.append("Compare")
            elif tpl in ("ast.BoolOp(op=ast.And)", "ast.BoolOp(op=ast.Or)"):
                is_and = tpl.endswith("ast.And)")
                quant = (lambda f: z3.ForAll([i], z3.Implies(z3.And(0 <= i, i < nvals(node)), f(i)))) if is_and else \
                        (lambda f: z3.Exists([i], z3.And(0 <= i, i < nvals(node), f(i))))
                hyp = [IH, truth(node) == quant(lambda k: truth(child(node, k)))]
                rvn = ret.value
                ok = isinstance(rvn, ast.Call) and ast.unparse(rvn.func) == "ast.BoolOp"
                kw = {k.arg: k.value for k in rvn.keywords} if ok else {}
                if not ok or set(kw) != {"op", "values"}:
                    raise NotGenerated(f"BoolOp-branch returns `{rv[:60]}`")
                vals = ast.unparse(kw["values"])
                if vals == "[_negate_condition(child) for child in node.values]":
                    elem = lambda k: truth(neg(child(node, k)))
                elif vals in ("node.values", "[child for child in node.values]"):
                    elem = lambda k: truth(child(node, k))
                else:
                    raise NotGenerated(f"BoolOp-branch values `{vals}`")
                rop = ast.unparse(kw["op"])
                if rop == "ast.Or()":
                    res_truth = z3.Exists([i], z3.And(0 <= i, i < nvals(node), elem(i)))
                elif rop == "ast.And()":
                    res_truth = z3.ForAll([i], z3.Implies(z3.And(0 <= i, i < nvals(node)), elem(i)))
                else:
                    raise NotGenerated(f"BoolOp-branch op `{rop}`")
                g.oblige("post", f"{'And' if is_and else 'Or'}-path:de-morgan", hyp, res_truth == z3.Not(truth(node)), ret.lineno)
                seen.append("And" if is_and else "Or")
            else:
                raise NotGenerated(f"unrecognised template `{tpl}`")
        elif isinstance(st, ast.Return):
            rv = ast.unparse(st.value)
            if rv == "ast.UnaryOp(op=ast.Not(), operand=node)":
                res_truth = z3.Not(truth(node))
            else:
                raise NotGenerated(f"default path returns `{rv}`")
            g.oblige("post", "default-path:wraps-in-not", [], res_truth == z3.Not(truth(node)), st.lineno)
            seen.append("default")
        elif isinstance(st, ast.Expr) and isinstance(st.value, ast.Constant):
            continue
        else:
            raise NotGenerated(f"unrecognised statement at L{st.lineno}")
    if "default" not in seen:
        raise NotGenerated("no default path")
    g.assumptions.add("induction schema over the height of the AST (recursive calls satisfy the contract)")
    g.assumptions.add("and/or are modelled on truth values (conditions are used in boolean context by swap_if_else/early_continue)")


# ----------------------------------------------------------------------------- comparison folding in simplify_boolean_expressions (C15 consumer)
PY_CMP = {"Eq": ast.Eq, "NotEq": ast.NotEq, "Gt": ast.Gt, "Lt": ast.Lt, "GtE": ast.GtE, "LtE": ast.LtE}


def gen_compare_folding(g: Gen):
    """`if isinstance(operator, ast.X): yield node, ast.Constant(value=left <op> right)`: <op> is the operator X denotes, and the
    operands are in source order"""
    fn, text = find_def("symbolic_math", "simplify_boolean_expressions")
    g.sha = segment_sha(text, fn)
    g.lines = [fn.lineno, fn.end_lineno]
    found = {}
    for n in ast.walk(fn):
        if isinstance(n, ast.If) and isinstance(n.test, ast.Call) and ast.unparse(n.test.func) == "isinstance" and len(n.test.args) == 2 \
                and ast.unparse(n.test.args[0]) == "operator" and isinstance(n.test.args[1], ast.Attribute) and n.test.args[1].attr in PY_CMP:
            cls = n.test.args[1].attr
            ys = [s.value for s in n.body if isinstance(s, ast.Expr) and isinstance(s.value, ast.Yield)]
            if len(ys) != 1 or len(n.body) != 1:
                raise NotGenerated(f"branch for ast.{cls} is not a single yield")
            tup = ys[0].value
            if not (isinstance(tup, ast.Tuple) and len(tup.elts) == 2 and ast.unparse(tup.elts[0]) == "node" and isinstance(tup.elts[1], ast.Call)
                    and ast.unparse(tup.elts[1].func) == "ast.Constant"):
                raise NotGenerated(f"branch for ast.{cls}: unexpected yield shape")
            val = {k.arg: k.value for k in tup.elts[1].keywords}.get("value")
            ok = (isinstance(val, ast.Compare) and len(val.ops) == 1 and isinstance(val.ops[0], PY_CMP[cls]) and ast.unparse(val.left) == "left"
                  and ast.unparse(val.comparators[0]) == "right")
            found[cls] = True
            g.oblige("table", f"folds-with-the-operator-it-denotes:{cls}", [], z3.BoolVal(bool(ok)), n.lineno)
    if set(found) != set(PY_CMP):
        raise NotGenerated(f"comparison folding branches found for {sorted(found)} only")
    g.assumptions.add("left/right are the values literal_value computed for node.left / node.comparators[0] (read from the same function)")
