"""C06: iteration-order obligations from pyvc/order.py - one per function of the package:

    "no iteration order born in this function (a set / frozenset iterated, popped, listed, joined ...) reaches the result of any function"

The top-level sentence is the property's: "byte-identical output ... whatever the string-hash seed, memory layout or set-iteration order".
A function is discharged when the abstract interpretation finds no such flow.  The functions below DO let a set order reach a result on the
pinned tree; each was read and the reason why the order cannot change the text is recorded - these are ASSUMPTIONS of the check (listed in
the evidence), not proofs, and they cover a COUNT of sites per function so that a harmless renaming does not raise an alarm while one
more order-dependent site in the same function does.
"""
import z3
from pyvc.tables import Gen
from pyvc.unit import NotGenerated

REVIEWED = {
    "fixes._get_uses_of": (1, "the references are yielded in set order; every caller only tests for emptiness, counts them, or adds them to a set"),
    "fixes._iter_unused_names": (2, "names / targets are yielded in set order; undefine_unused_variables rewrites each yielded node on its own (disjoint ranges, same replacement text)"),
    "fixes.remove_duplicate_functions": (2, "the duplicates of a group are visited in set order; each visit records name -> replacement for a different name and adds to a set; remove_nodes marks characters in a keep-mask (idempotent, commutes)"),
    "performance._replace_subscript_looping_complex_cases": (1, "each indexed node is replaced by the same new name, one implicit transaction per node; the nodes are distinct subscripts with disjoint ranges"),
    "symbolic_math.simplify_constrained_range": (1, "each redundant condition is replaced by True, one implicit transaction per condition; the conditions are distinct nodes with disjoint ranges"),
}


REVIEWED_KEY_SITES = {"processing._substitute_original_strings": 1, "processing._schedule_rewrites": 1, "fixes.remove_duplicate_functions": 2, "fixes._move_before_scope": 1, "fixes._move_after_scope": 1,
                      "fixes._fix_duplicate_from_imports": 1, "fixes._fix_duplicate_regular_imports": 1, "fixes._breakout_stacked_imports": 1, "symbolic_math.simplify_constrained_range": 1,
                      "tracing.trace_origin": 1, "tracing.fix_reimported_names": 1}


def generate(g: Gen):
    from pyvc import order
    pkg = order.analyse()
    if len(pkg.funcs) < 250:
        raise NotGenerated(f"only {len(pkg.funcs)} functions found")
    born = {}          # function key -> {origin: [functions whose result it reaches]}
    for f in pkg.funcs.values():
        if f.ret.kind == "TAINT":
            for o in f.ret.origins:
                if not o.startswith("@"):
                    born.setdefault(o.split(":", 1)[0], {}).setdefault(o, []).append(f.key)
    n_sets = 0
    for key in sorted(pkg.funcs):
        f = pkg.funcs[key]
        mine = born.get(key, {})
        allowed, why = REVIEWED.get(key, (0, None))
        line = f.node.lineno
        if len(mine) <= allowed:
            g.oblige("order", f"{key}:no-set-iteration-order-reaches-a-result", [], z3.BoolVal(True), line)
            if mine:
                n_sets += len(mine)
                g.assumptions.add(f"reviewed (assumed, not proved): {key} lets {len(mine)} set iteration order(s) reach a result - {why}")
        else:
            flows = {o: {"reaches_result_of": sorted(fs)[:12], "through": [f"L{ln} {what}" for fn in fs[:1] for ln, what in pkg.funcs[fn].flows.get(o, [])]} for o, fs in sorted(mine.items())}

            def replay(model, flows=flows, key=key, allowed=allowed):
                return {"reproduced": False, "how": "static flow: the iteration order of a set reaches a returned / yielded value; no input is constructed",
                        "function": key, "order_dependent_sites_reviewed_on_the_pinned_tree": allowed, "order_dependent_sites_now": len(flows), "flows": flows}
            g.oblige("order", f"{key}:no-set-iteration-order-reaches-a-result", [], z3.BoolVal(False), line, replay=replay)
    # sorted / min / max WITH a key over an unordered value: ties keep the set's order, so the key has to be total on the elements - read for
    # the sites below (count per function); one more such site in a function is reported undecided (its key has not been read)
    for key in sorted(pkg.funcs):
        n_sites = len({k[1] for k in pkg.funcs[key].key_sites})
        if n_sites or key in REVIEWED_KEY_SITES:
            g.oblige_text("order", f"{key}:sort-keys-over-unordered-values-were-read", n_sites <= REVIEWED_KEY_SITES.get(key, 0), pkg.funcs[key].node.lineno)
    waived = sorted({(f.key, w[1]) for f in pkg.funcs.values() for w in f.waived})
    keyed = sorted({(f.key, k[1]) for f in pkg.funcs.values() for k in f.key_sites})
    g.assumptions.add(f"{len(waived)} yields of explicitly numbered transactions inside set-ordered loops are waived: the schedule does not depend on the arrival order of "
                      "the rewrites of one numbered transaction (normalised by a sort on the range, applied in the order of the total content key: final-sort contract)")
    g.assumptions.add("sort keys are total on the elements that occur at: " + "; ".join(f"{k}: {t[:60]}" for k, t in keyed))
    for fk, why in sorted(order.ASSUMED_CLEAN.items()):
        g.assumptions.add(f"assumed summary: {fk} is order-free - {why}")
    g.assumptions.add("transfer functions of pyvc/order.py (which operations forget / propagate an iteration order) are stated, not mechanised; dynamic calls (rules called through "
                      "lists of functions), attributes and module globals holding sets are outside the analysis")
