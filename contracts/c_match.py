"""C12: list quantifier expansion and template dispatch (core._iter_template_permutations, _match_list, match_template).

Declarative reading (the property): plain element = exactly 1 node, `?` = 0..1, `*` = 0.., `+` = 1..; a list matches iff some count
vector c with those ranges and sum(c) == len(nodes) matches element-wise.  The code enumerates only count vectors with
c_i <= min_i + slack, slack = len(nodes) - sum(min).  That this loses no solution is the slack lemma (lemmas/Slack.lean, proved
in Lean 4 + Mathlib):  (forall j, mn j <= c j) and sum c = L  ==>  c i <= mn i + (L - sum mn).
"""
import ast
import z3

from pyvc.unit import Unit, NotGenerated, find_def, segment_sha
from pyvc.tables import Gen
from pyvc.values import VBool, VInt, VObj, OBJ, B, I, QAll, QEx

SPEC_MIN = {"ZeroOrOne": 0, "ZeroOrMany": 0, "OneOrMany": 1, "plain": 1}
SPEC_MAX = {"ZeroOrOne": 1, "ZeroOrMany": None, "OneOrMany": None, "plain": 1}      # None = unbounded


def gen_permutations(g: Gen):
    fn, text = find_def("core", "_iter_template_permutations")
    g.sha = segment_sha(text, fn)
    g.lines = [fn.lineno, fn.end_lineno]
    L, slack = z3.Ints("length slack")
    loops = [s for s in fn.body if isinstance(s, ast.For)]
    if len(loops) < 2:
        raise NotGenerated("_iter_template_permutations: the two loops over the template not found")

    def val(e, env):
        if isinstance(e, ast.Constant):
            return z3.IntVal(e.value)
        if isinstance(e, ast.Name) and e.id in env:
            return env[e.id]
        if isinstance(e, ast.BinOp) and isinstance(e.op, ast.Add):
            return val(e.left, env) + val(e.right, env)
        raise NotGenerated(f"count bound `{ast.unparse(e)}`")

    def branches(loop):
        out = {}
        for st in loop.body:
            cur = st
            while isinstance(cur, ast.If):
                t = cur.test
                if isinstance(t, ast.Call) and ast.unparse(t.func) == "isinstance" and ast.unparse(t.args[0]) == "node":
                    kind = ast.unparse(t.args[1])
                    asg = cur.body[0]
                    if not (isinstance(asg, ast.Assign) and isinstance(asg.value, ast.Tuple) and len(asg.value.elts) == 2):
                        raise NotGenerated(f"branch {kind}: not an assignment of a (min, max) pair")
                    out[kind] = asg.value.elts
                    if cur.orelse and not isinstance(cur.orelse[0], ast.If):
                        asg2 = cur.orelse[0]
                        out["plain"] = asg2.value.elts
                    cur = cur.orelse[0] if cur.orelse and isinstance(cur.orelse[0], ast.If) else None
                else:
                    raise NotGenerated(f"unrecognised test `{ast.unparse(t)}`")
        return out
    first, second = branches(loops[0]), branches(loops[1])
    if set(first) != {"ZeroOrOne", "ZeroOrMany", "OneOrMany", "plain"}:
        raise NotGenerated(f"first loop kinds {sorted(first)}")
    env1 = {"length": L}
    for kind, (mn, mx) in first.items():
        g.oblige("table", f"initial-min:{kind}", [], val(mn, env1) == SPEC_MIN[kind], mn.lineno)
        if SPEC_MAX[kind] is not None:
            g.oblige("table", f"max:{kind}", [], val(mx, env1) == SPEC_MAX[kind], mx.lineno)
        else:
            g.oblige("table", f"initial-max-not-below-any-solution:{kind}", [L >= 0], val(mx, env1) >= L, mx.lineno)
    # slack
    sl = [s for s in fn.body if isinstance(s, ast.Assign) and ast.unparse(s.targets[0]) == "slack"]
    if len(sl) != 1 or ast.unparse(sl[0].value) != "length - sum((min_count for min_count, _ in node_counts.values()))":
        raise NotGenerated("slack is not `length - sum(min counts)`")
    g.oblige("table", "slack-is-length-minus-sum-of-minima", [], z3.BoolVal(True), sl[0].lineno)
    neg = [s for s in fn.body if isinstance(s, ast.If) and ast.unparse(s.test) == "slack < 0"]
    g.oblige_text("table", "negative-slack-yields-nothing", bool(neg) and isinstance(neg[0].body[0], ast.Return) and neg[0].body[0].value is None, sl[0].lineno)
    env2 = {"length": L, "slack": slack}
    if set(second) != {"ZeroOrMany", "OneOrMany"}:
        raise NotGenerated(f"second loop kinds {sorted(second)}")
    for kind, (mn, mx) in second.items():
        g.oblige("table", f"capped-min:{kind}", [], val(mn, env2) == SPEC_MIN[kind], mn.lineno)
        # by the slack lemma every solution has c_i <= min_i + slack: the cap must not be smaller, and need not be larger
        g.oblige("table", f"cap-is-min-plus-slack:{kind}", [slack >= 0], val(mx, env2) == SPEC_MIN[kind] + slack, mx.lineno)
    rng = [n for n in ast.walk(fn) if isinstance(n, ast.DictComp) and "range(min_count, max_count + 1)" in ast.unparse(n)]
    g.oblige_text("table", "counts-enumerated-inclusively", len(rng) == 1, fn.lineno)
    flt = [n for n in ast.walk(fn) if isinstance(n, ast.GeneratorExp) and ast.unparse(n) == "(p for p in permutations if sum(p) == length)"]
    g.oblige_text("table", "only-vectors-summing-to-length", len(flt) == 1, fn.lineno)
    prod = [n for n in ast.walk(fn) if isinstance(n, ast.Call) and ast.unparse(n.func) == "itertools.product"]
    g.oblige_text("table", "all-combinations-enumerated", len(prod) == 1, fn.lineno)
    g.assumptions.add("slack lemma (lemmas/Slack.lean, Lean 4 + Mathlib; checked by `lean` in the thorough tier): the correspondence between its statement and the table obligations is by hand")
    g.assumptions.add("itertools.product / range / sum have their documented meaning")


class _W(ast.AST):
    """stand-in for core.Wildcard in the concrete evaluation of the dispatch guards"""


# representative templates: one per dispatch class, and for plain values one per (constant type) x {0, 1, other}
REPR_TEMPLATES = [
    ("type", int), ("type", ast.Name), ("tuple", (ast.Name, ast.Constant)), ("tuple", ()), ("set", {ast.Name}), ("list", [ast.Name]), ("list", []),
    ("singleton", True), ("singleton", False), ("singleton", None), ("wildcard", _W()), ("ast", ast.Name(id="a")), ("ast", ast.Constant(value=1)),
    ("value", 0), ("value", 1), ("value", 2), ("value", 0.0), ("value", 1.0), ("value", 2.5), ("value", 0j), ("value", 1 + 0j), ("value", ""), ("value", "a"),
    ("value", b""), ("value", b"a"), ("value", Ellipsis),
]
HANDLER = {"type": "_isinstance_cache(node, template)", "tuple": "_match_tuple(", "set": "_match_set(", "list": "_match_list(", "singleton": "node is template",
           "wildcard": "_match_wildcard(", "ast": "_match_template_vars("}
VALUE_NODES = [0, 1, 2, 0.0, 1.0, 2.5, 0j, 1 + 0j, True, False, None, "", "a", b"", b"a", Ellipsis]


def gen_enumeration(g: Gen):
    """every admissible count vector is enumerated: the REAL _iter_template_permutations is run on representative templates (k starred / plus /
    optional wildcards between fixed elements) for lengths up to slack 24 and the number of expansions it yields is compared with the number of
    solutions of  sum(c_i) == length, c_i in the declarative range  computed independently (dynamic programme).  Large slacks are part of the
    space on purpose: a budget on the number of combinations tried would only show there."""
    from pyvc.replay import call_real
    fn, text = find_def("core", "_iter_template_permutations")
    g.sha = segment_sha(text, fn)
    g.lines = [fn.lineno, fn.end_lineno]
    shapes = []
    for kinds in ("*", "+", "?", "**", "*+", "*?", "***", "*+*", "+++", "*?*", "****", "*+?*", "*****"):
        for slack in (0, 1, 2, 5, 12, 24):
            if len(kinds) >= 4 and slack > 12 or len(kinds) >= 5 and slack > 7:
                continue
            shapes.append((kinds, slack))
    snippet = (
        "from pyrefact import core\n"
        "import ast\n"
        "Q = {'*': core.ZeroOrMany, '+': core.OneOrMany, '?': core.ZeroOrOne}\n"
        "out = []\n"
        "for kinds, slack in payload['shapes']:\n"
        "    template = []\n"
        "    for j, k in enumerate(kinds):\n"
        "        template.append(Q[k](core.Wildcard('w%d' % j, object)))\n"
        "        template.append(ast.Constant(value=j))\n"
        "    minimum = len(kinds) + sum(1 for k in kinds if k == '+')\n"
        "    length = minimum + slack\n"
        "    seen = set()\n"
        "    n = 0\n"
        "    for perm in core._iter_template_permutations(template, length):\n"
        "        n += 1\n"
        "        seen.add(tuple(id(x) for x in perm))\n"
        "        assert len(perm) == length\n"
        "    out.append([n, len(seen)])\n"
        "print(json.dumps(out))\n")
    res = call_real(snippet, {"shapes": shapes}, timeout=600)

    def solutions(kinds, slack):
        # number of ways to distribute `slack` extra elements: '*' and '+' take any number, '?' at most one
        ways = [1] + [0] * slack
        for k in kinds:
            new = [0] * (slack + 1)
            for used, w in enumerate(ways):
                if not w:
                    continue
                for extra in range(0, slack - used + 1):
                    if k == "?" and extra > 1:
                        break
                    new[used + extra] += w
            ways = new
        return ways[slack]
    for (kinds, slack), (n, distinct) in zip(shapes, res):
        want = solutions(kinds, slack)
        g.oblige("table", f"every-count-vector-enumerated-once:{kinds}:slack-{slack}", [], z3.BoolVal(n == want and distinct == want), fn.lineno,
                 replay=lambda m, kinds=kinds, slack=slack, n=n, distinct=distinct, want=want: {
                     "reproduced": True, "input": f"_iter_template_permutations(<{' c '.join(kinds)} c>, length = minimum + {slack})",
                     "observed": f"{n} expansions ({distinct} distinct)", "required": f"{want} (one per admissible count vector)"})
    g.assumptions.add("representative templates: up to five quantified wildcards separated by fixed elements, slack up to 24 (12 / 7 for four / five wildcards)")


def gen_dispatch(g: Gen):
    """match_template: which branch handles which class of template, decided by evaluating the REAL guard expressions (compiled from
    the source text, side-effect free) on one representative per class; the final value branch on all (node, template) value pairs."""
    fn, text = find_def("core", "match_template")
    g.sha = segment_sha(text, fn)
    g.lines = [fn.lineno, fn.end_lineno]
    ifs = [s for s in fn.body if isinstance(s, ast.If)]
    if not ifs or ast.unparse(fn.body[-1]) != "return ()":
        raise NotGenerated("match_template: not a chain of top-level `if` branches followed by `return ()`")
    ns = {"_isinstance_cache": isinstance, "isinstance": isinstance, "Wildcard": _W, "ast": ast, "type": type}

    def fires(test, node, template):
        try:
            return bool(eval(compile(ast.Expression(test), "<guard>", "eval"), dict(ns), {"node": node, "template": template}))   # noqa: S307
        except NameError as ex:
            raise NotGenerated(f"guard `{ast.unparse(test)}` uses a name outside the modelled namespace: {ex}")
        except Exception:  # noqa: BLE001
            return False

    def first_branch(node, template):
        for s_ in ifs:
            if fires(s_.test, node, template):
                return s_
        return None

    for label, t in REPR_TEMPLATES:
        rep = f"{label}:{ast.dump(t) if isinstance(t, ast.AST) and not isinstance(t, _W) else ('Wildcard' if isinstance(t, _W) else repr(t))}"[:60]
        if label == "value":
            continue
        br = first_branch(object(), t)
        ok = br is not None and HANDLER[label] in ast.unparse(br)
        g.oblige("table", f"dispatch:{rep}->{label}-handler", [], z3.BoolVal(bool(ok)), fn.lineno,
                 replay=lambda m, t=t, label=label, br=br: {"reproduced": True, "input": f"template {t!r}", "observed": f"handled by `{ast.unparse(br.test) if br else 'no branch'}`", "required": f"the {label} branch"})
    # singletons by identity, never by equality: a template that merely EQUALS True / False (1, 0, 1.0, 0.0, 0j) must not take the identity branch
    sing = [s_ for s_ in ifs if "node is template" in ast.unparse(s_)]
    for label, t in REPR_TEMPLATES:
        if label != "value":
            continue
        bad = [s_ for s_ in sing if fires(s_.test, object(), t)]
        g.oblige("table", f"singleton-branch-not-taken-by:{t!r}", [], z3.BoolVal(not bad), fn.lineno,
                 replay=lambda m, t=t: {"reproduced": True, "input": f"template value {t!r}", "observed": "takes the `node is template` branch, so an equal literal in the code is not matched", "required": "compared by value with a node of the same type"})
    # plain values: match exactly the same value of the same type (1 is not 1.0 is not True: different code)
    for label, t in REPR_TEMPLATES:
        if label != "value":
            continue
        wrong = []
        for n in VALUE_NODES:
            br = first_branch(n, t)
            got = br is not None and ast.unparse(br.body[-1]) == "return (node,)" and len(br.body) == 1
            want = type(n) is type(t) and n == t and repr(n) == repr(t)
            if got != want:
                wrong.append(n)
        g.oblige("table", f"value-template:{t!r}:matches-only-itself", [], z3.BoolVal(not wrong), fn.lineno,
                 replay=lambda m, t=t, wrong=tuple(wrong): {"reproduced": True, "input": f"template value {t!r}, node values {list(wrong)!r}", "observed": "match result differs from `same type and same value`", "required": "a literal matches exactly itself"})
    g.assumptions.add("dispatch guards are evaluated concretely on one representative per template class (type, tuple, set, list, singleton, Wildcard, AST node, constants of each literal type with value 0 / 1 / other); complete if the guards depend only on the type and on identity / equality with True, False, None")


# ----------------------------------------------------------------------------- _match_list
isq = z3.Function("is_ZeroOrOne", OBJ, B)
isstar = z3.Function("is_ZeroOrMany", OBJ, B)
isplus = z3.Function("is_OneOrMany", OBJ, B)
nopt = z3.Function("count_optional_prefix", z3.ArraySort(I, OBJ), I, I)     # number of ? / * elements among the first i


def _isinstance(eng, args, kw, env, pc, line):
    from pyvc.engine import Undecided
    from pyvc.values import VSeq
    v, t = args
    name = getattr(t, "name", None)
    if name == "list":
        return VBool(True) if isinstance(v, VSeq) else VBool(eng.uf("isinst_list", [OBJ], B)(v.t))
    f = {"ZeroOrOne": isq, "ZeroOrMany": isstar, "OneOrMany": isplus}.get(name)
    if f is None:
        raise Undecided(f"isinstance against {name}", line)
    return VBool(f(v.t))


def g_nopt(eng, args, kw, env, pc, node):
    seq, i = args
    arr = seq.arrs[()]
    k = z3.Int("k!nopt")
    eng.axioms_once(("nopt", str(arr)), z3.And(nopt(arr, 0) == 0, QAll([k], z3.Implies(z3.And(0 <= k, k < seq.len),
                    nopt(arr, k + 1) == nopt(arr, k) + z3.If(z3.Or(isq(z3.Select(arr, k)), isstar(z3.Select(arr, k))), 1, 0)))))
    return VInt(nopt(arr, i.t))


def slice_precheck(fn):
    body = [s for s in fn.body if not (isinstance(s, ast.Expr) and isinstance(s.value, ast.Constant))]
    seen_loop = False
    for k, st in enumerate(body):
        seen_loop = seen_loop or isinstance(st, ast.For)
        if seen_loop and isinstance(st, ast.If) and "len(nodes)" in ast.unparse(st.test):
            return body[:k + 1], "length-precheck"
    raise NotGenerated("_match_list: length pre-check not found")


match_list_precheck = Unit(
    "core", "_match_list", slice=slice_precheck,
    params={"nodes": ("seq", "obj"), "template": ("seq", "obj")}, returns="obj",
    requires=[("quantifier-classes-are-disjoint", "forall(lambda k: implies(0 <= k and k < len(template), not (isinstance(template[k], ZeroOrOne) and isinstance(template[k], ZeroOrMany))"
               " and not (isinstance(template[k], ZeroOrOne) and isinstance(template[k], OneOrMany)) and not (isinstance(template[k], ZeroOrMany) and isinstance(template[k], OneOrMany))))")],
    ensures=[
        # the pre-check rejects only lengths for which no admissible count vector exists
        ("rejected-only-if-too-short-or-too-long",
         "implies(result is not None, len(nodes) < len(template) - nopt(template, len(template))"
         " or (len(nodes) > len(template) and not exists(lambda k: 0 <= k and k < len(template) and (isinstance(template[k], ZeroOrMany) or isinstance(template[k], OneOrMany)))))"),
        ("minimum-is-number-of-mandatory-elements", "implies(result is None, min_nodes_length == len(template) - nopt(template, len(template)))"),
    ],
    loops={0: {"shapes": {"max_nodes_length": "xint"},
               "inv": ["min_nodes_length == len(template) - nopt(template, _i)",
                       "iff(max_nodes_length == float('inf'), exists(lambda k: 0 <= k and k < _i and (isinstance(template[k], ZeroOrMany) or isinstance(template[k], OneOrMany))))",
                       "implies(max_nodes_length != float('inf'), max_nodes_length == len(template))"]}},
    calls={"<isinstance>": _isinstance}, ghost={"nopt": g_nopt}, props=("C12",),
)
match_list_precheck.key_suffix = "length-precheck"

# ----------------------------------------------------------------------------- _match_list: backtracking over the expansions
def slice_backtracking(fn):
    body = [s for s in fn.body if not (isinstance(s, ast.Expr) and isinstance(s.value, ast.Constant))]
    for k, st in enumerate(body):
        if isinstance(st, ast.Assign) and ast.unparse(st.targets[0]) == "permutations":
            return body[k + 1:], "backtracking"
    raise NotGenerated("_match_list: `permutations = ...` not found")


MERGED = z3.Function("merged_match_of_expansion", z3.ArraySort(I, OBJ), I, OBJ, OBJ)     # (nodes, len(nodes), expansion) -> match tuple


def g_nonempty(eng, args, kw, env, pc, node):
    """truthiness of a match result: the executor's own truthiness for an opaque object (what `if merged:` tests), False for the literal ()"""
    v = args[0]
    from pyvc.values import VTuple
    if isinstance(v, VTuple):
        return VBool(z3.BoolVal(len(v.items) > 0))
    return VBool(eng.truth(v))


def g_same(eng, args, kw, env, pc, node):
    a, b = args
    from pyvc.values import VTuple
    if isinstance(a, VTuple) or isinstance(b, VTuple):
        return VBool(z3.BoolVal(False))
    return VBool(a.t == b.t)


def _merge_hook(eng, e, env, pc):
    """merge_matches(permutation, <element-wise matches of nodes against permutation>): a deterministic function of (nodes, permutation).
    The generator argument is not evaluated (its elements are match_template calls, the recursion the bounded stand-in covers)."""
    perm = eng.ev(e.args[0], env, pc)
    nodes = env["nodes"]
    if len(e.args) != 2 or not isinstance(e.args[1], ast.Name) or e.args[1].id != "matches":
        from pyvc.engine import Undecided
        raise Undecided("merge_matches is not applied to the lazily computed element-wise matches", e.lineno)
    return VObj(MERGED(nodes.arrs[()], nodes.len, perm.t))


_merge_hook.lazy_args = True


def _genexp_matches(eng, st, env, pc):
    """`matches = (match_template(child, template_child, ...) for child, template_child in zip(nodes, permutation))`: kept lazy"""
    env["matches"] = VObj(z3.Const("lazy_matches", OBJ))
    return True


def g_merged(eng, args, kw, env, pc, node):
    nodes, perm = args
    return VObj(MERGED(nodes.arrs[()], nodes.len, perm.t))


match_list_backtracking = Unit(
    "core", "_match_list", slice=slice_backtracking,
    params={"nodes": ("seq", "obj"), "permutations": ("seq", "obj"), "ignore": "obj"}, returns="obj",
    ensures=[
        ("no-match-only-if-every-expansion-fails", "implies(not nonempty(result), forall(lambda k: implies(0 <= k and k < len(permutations), not nonempty(merged_of(nodes, permutations[k])))))"),
        ("a-match-is-the-merged-match-of-some-expansion", "implies(nonempty(result), exists(lambda k: 0 <= k and k < len(permutations) and same(result, merged_of(nodes, permutations[k]))))"),
    ],
    loops={0: {"inv": ["forall(lambda k: implies(0 <= k and k < _i, not nonempty(merged_of(nodes, permutations[k]))))"]}},
    calls={"merge_matches": _merge_hook, "match_template": ("uf", "obj"), "zip": ("uf", "obj")},
    ghost={"merged_of": g_merged, "nonempty": g_nonempty, "same": g_same},
    props=("C12",), lenient=True,
    note="lenient only for the lazily evaluated generator expression `matches`; merge_matches is an uninterpreted function of (nodes, expansion); truthiness of a match tuple is an uninterpreted predicate, false for ()",
)
match_list_backtracking.key_suffix = "backtracking"

UNITS = [match_list_precheck, match_list_backtracking]
