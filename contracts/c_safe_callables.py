"""parsing.safe_callable_names (C16): which statements of a function decide that calling it is pointless.

A call statement `f()` is deleted as pointless when `f` is in the set this function computes.  The loop that collects the
statements to inspect stops at the first statement after which the function is always left (core.is_blocking); what runs
when the function is called is exactly that prefix *including* the stopping statement (a raise, or an if/else whose
branches all return but which prints first).  Only a plain `return` may be skipped, because its value is inspected through
`return_children`.

  * slice `inspected-statements` (the statements from `nonreturn_children = []` to the end of the loop over node.body), with
    core.is_blocking and isinstance(., ast.Return) uninterpreted:
      post  every statement node.body[k] such that no earlier statement is blocking, and that is not a blocking plain
            return, is an element of nonreturn_children;
      post  nothing else is collected (nonreturn_children is a prefix of node.body): the inference stays as precise as it was.
  * table obligations on the real guards, evaluated on representative definitions (decorated function, name bound twice /
    as a parameter / by an import, class with bases / metaclass / decorator): each of them is skipped.
"""
import ast
import types

import z3

from pyvc.unit import Unit, NotGenerated, find_def, segment_sha


def slice_inspected(fn):
    """statements `nonreturn_children = []` and the following `for child in node.body` of the loop over function_defs"""
    for loop in ast.walk(fn):
        if isinstance(loop, ast.For) and ast.unparse(loop.iter) == "function_defs":
            for k, st in enumerate(loop.body):
                if isinstance(st, ast.Assign) and ast.unparse(st.targets[0]) == "nonreturn_children" and k + 1 < len(loop.body) \
                        and isinstance(loop.body[k + 1], ast.For) and ast.unparse(loop.body[k + 1].iter) == "node.body":
                    return loop.body[k:k + 2], "inspected-statements"
    raise NotGenerated("safe_callable_names: `nonreturn_children = []` followed by `for child in node.body` not found")


FIRST = ("0 <= k and k < len(node.body) and forall(lambda j: implies(0 <= j and j < k, not core.is_blocking(node.body[j])))"
         " and not (core.is_blocking(node.body[k]) and isinstance(node.body[k], ast.Return))")

inspected = Unit(
    "parsing", "safe_callable_names", slice=slice_inspected,
    params={"node": "obj"},
    ensures=[
        ("every-statement-that-runs-is-inspected",
         f"forall(lambda k: implies({FIRST}, exists(lambda m: 0 <= m and m < len(nonreturn_children) and nonreturn_children[m] == node.body[k])))"),
        ("only-a-prefix-of-the-body-is-inspected",
         "len(nonreturn_children) <= len(node.body) and forall(lambda m: implies(0 <= m and m < len(nonreturn_children), nonreturn_children[m] == node.body[m]))"),
        ("nothing-after-a-blocking-statement-is-inspected",
         "forall(lambda m: implies(0 <= m and m + 1 < len(nonreturn_children), not core.is_blocking(node.body[m])))"),
    ],
    loops={0: {"inv": ["len(nonreturn_children) == _i",
                       "forall(lambda j: implies(0 <= j and j < _i, nonreturn_children[j] == node.body[j] and not core.is_blocking(node.body[j])))"]}},
    calls={"core.is_blocking": ("uf", "bool")},
    attrs={"body": ("seq", "obj")}, local_shapes={"nonreturn_children": ("seq", "obj")},
    props=("C16",),
)
inspected.key_suffix = "inspected-statements"

UNITS = [inspected]


# ----------------------------------------------------------------------------- guards, evaluated on representatives
REPRESENTATIVES = [
    # (label, module source, name that must NOT be inferred safe)
    ("decorated-function", "def deco(fn):\n    def wrapper():\n        print(1)\n        return fn()\n\n    return wrapper\n\n\n@deco\ndef h():\n    return 1\n", "h"),
    ("name-is-also-a-parameter", "def h():\n    return 1\n\n\ndef g(h):\n    return 2\n", "h"),
    ("name-is-also-a-keyword-only-parameter", "def h():\n    return 1\n\n\ndef g(a, *, h=h):\n    h()\n    return 2\n", "h"),
    ("name-is-also-a-positional-only-parameter", "def h():\n    return 1\n\n\ndef g(h, /, a):\n    h()\n    return 2\n", "h"),
    ("name-is-also-a-star-parameter", "def h():\n    return 1\n\n\ndef g(*h):\n    h[0]()\n    return 2\n", "h"),
    ("name-is-also-a-double-star-parameter", "def h():\n    return 1\n\n\ndef g(**h):\n    return h\n", "h"),
    ("name-is-also-a-lambda-parameter", "def h():\n    return 1\n\n\ng = lambda h: h()\n", "h"),
    ("builtin-name-is-a-parameter", "def retry(callable, n):\n    for _ in range(n):\n        callable()\n", "callable"),
    ("builtin-name-is-a-parameter-2", "def process(items, filter):\n    filter(items)\n", "filter"),
    ("builtin-name-is-assigned", "len = print\nlen('x')\n", "len"),
    ("method-has-the-name-of-an-unknown-function", "from starlib import *\n\n\nclass Rocket:\n    def launch(self):\n        return 1\n\n\nlaunch('x')\n", "launch"),
    ("constructor-in-a-nested-block", "FLAG = True\n\n\nclass Conn:\n    if FLAG:\n        def __init__(self):\n            print('init')\n", "Conn"),
    ("constructor-is-assigned", "def _setup(self):\n    print('setup')\n\n\nclass A:\n    __init__ = _setup\n", "A"),
    ("name-is-defined-twice", "def h():\n    return 1\n\n\ndef h():\n    print(2)\n", "h"),
    ("name-is-also-a-method", "def h():\n    print(1)\n\n\nclass A:\n    def h(self):\n        return 2\n", "h"),
    ("name-is-also-assigned", "def h():\n    return 1\n\n\nh = print\n", "h"),
    ("name-is-also-imported", "def h():\n    return 1\n\n\nfrom os import sep as h\n", "h"),
    ("name-is-also-an-exception-name", "def h():\n    return 1\n\n\ntry:\n    pass\nexcept Exception as h:\n    pass\n", "h"),
    ("function-raises", "def h():\n    raise ValueError(1)\n", "h"),
    ("function-asserts", "def h(c):\n    assert c\n", "h"),
    ("function-calls-unknown-before-returning-branches", "def h(c, obs):\n    if c:\n        obs(1)\n        return 1\n    else:\n        return 2\n", "h"),
    ("function-calls-unknown-in-an-endless-loop", "def h(c, obs):\n    while True:\n        obs(1)\n        if c:\n            return 1\n", "h"),
    ("function-returns-a-call-of-unknown", "def h(obs):\n    return obs(1)\n", "h"),
    ("class-with-a-base", "import other\n\n\nclass K(other.Base):\n    pass\n", "K"),
    ("class-with-a-metaclass", "class M(type):\n    pass\n\n\nclass K(metaclass=M):\n    pass\n", "K"),
    ("decorated-class", "def deco(c):\n    def make():\n        print(1)\n        return c()\n\n    return make\n\n\n@deco\nclass K:\n    pass\n", "K"),
    ("class-whose-constructor-calls-unknown", "class K:\n    def __init__(self, obs):\n        obs(1)\n", "K"),
    ("class-whose-new-calls-unknown", "class K:\n    def __new__(cls, obs):\n        obs(1)\n        return super().__new__(cls)\n", "K"),
]
CONTROLS = [
    # (label, module source, name that IS harmless to call): guards against an analysis that refuses everything (vacuity)
    ("plain-function", "def h(x):\n    return x + 1\n", "h"),
    ("plain-class", "class K:\n    x = 1\n", "K"),
]


def gen_guards(g):
    """table obligations: parsing.safe_callable_names, the real function, called on representative modules.  The function is
    deterministic and total on these inputs; an exception makes the obligation not-generated (undecided), never refuted."""
    fn, text = find_def("parsing", "safe_callable_names")
    g.sha = segment_sha(text, fn)
    g.lines = [fn.lineno, fn.end_lineno]
    from pyvc.replay import call_real
    payload = {"mods": [(lab, src, name) for lab, src, name in REPRESENTATIVES + CONTROLS]}
    snippet = (
        "from pyrefact import parsing, core, constants\n"
        "out = {}\n"
        "for lab, src, name in payload['mods']:\n"
        "    try:\n"
        "        out[lab] = name in parsing.safe_callable_names(core.parse(src))\n"
        "    except Exception as ex:\n"
        "        out[lab] = 'raised ' + type(ex).__name__\n"
        "print(json.dumps(out))\n")
    res = call_real(snippet, payload)
    if not isinstance(res, dict):
        raise NotGenerated(f"safe_callable_names could not be run on the representatives: {str(res)[:200]}")
    for lab, _src, name in REPRESENTATIVES:
        v = res.get(lab)
        if not isinstance(v, bool):
            raise NotGenerated(f"safe_callable_names on representative {lab}: {v}")
        g.oblige("table", f"not-inferred-harmless:{lab}", [], z3.BoolVal(not v), fn.lineno,
                 replay=lambda m, src=_src, name=name: {"reproduced": True, "input": f"parsing.safe_callable_names(core.parse({src!r}))", "observed": f"contains {name!r}",
                                                        "required": f"{name!r} is not inferred harmless to call"})
    for lab, _src, name in CONTROLS:
        v = res.get(lab)
        if not isinstance(v, bool):
            raise NotGenerated(f"safe_callable_names on control {lab}: {v}")
        g.oblige("cover", f"control-inferred-harmless:{lab}", [z3.BoolVal(bool(v))], z3.BoolVal(True), fn.lineno)
    g.assumptions.add("representative modules stand for their kind of definition (one per guard of safe_callable_names); the bounded stand-in c16-callees-executed varies them")
