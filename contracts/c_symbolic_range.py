"""symbolic_math.simplify_constrained_range: one folding step (C17).

Per iteration of the folding loop, for ALL integers x (spec from the property: "folding of range filters into range
arguments yields an expression with the same value"):
    (start <= x < stop  and  cond(x))   <=>   (start' <= x < stop'  and  (cond(x) if cond is kept else True))
so the comprehension iterates over exactly the same integers before and after the step.  Membership in
range(start, stop) with unit step is `start <= x < stop` (the rule only fires for constant unit-step ranges).
The meaning of the five template tuples is a separate table obligation read from the real template literals.
"""
import ast
import z3

from pyvc.unit import Unit, NotGenerated, find_def, segment_sha
from pyvc.tables import Gen
from pyvc.values import VBool, VObj, OBJ, B

REL = {"Gt": lambda a, b: a > b, "Lt": lambda a, b: a < b, "GtE": lambda a, b: a >= b, "LtE": lambda a, b: a <= b, "Eq": lambda a, b: a == b}
MEANING = {"gt_template": "Gt", "lt_template": "Lt", "gte_template": "GtE", "lte_template": "LtE", "eq_template": "Eq"}


def _fold_loop(fn):
    loops = [n for n in ast.walk(fn) if isinstance(n, ast.For) and isinstance(n.target, ast.Name) and n.target.id == "condition"
             and "filter_nodes" in ast.unparse(n.iter)]
    if len(loops) != 1:
        raise NotGenerated("simplify_constrained_range: folding loop `for condition in ...filter_nodes(conditions, templates)` not found")
    return loops[0]


def slice_fold_step(fn):
    return _fold_loop(fn).body, "fold-step"


def _match_template(eng, e, env, pc):
    """core.match_template(condition, <name>_template): uninterpreted predicate per template name; its meaning is the
    separate table obligation `template-meaning`"""
    if len(e.args) != 2 or not isinstance(e.args[1], ast.Name):
        from pyvc.engine import Undecided
        raise Undecided("match_template with a non-name template", e.lineno)
    node = eng.ev(e.args[0], env, pc)
    f = eng.uf("matches_" + e.args[1].id, [OBJ], B)
    return VBool(f(node.t))


_match_template.lazy_args = True

GHOST = {
    "cv": "lambda c: (c.left if isinstance(c.left, ast.Constant) else c.comparators[0]).value",
    "sat": "lambda c, x: implies(core.match_template(c, gt_template), x > cv(c)) and implies(core.match_template(c, lt_template), x < cv(c))"
           " and implies(core.match_template(c, gte_template), x >= cv(c)) and implies(core.match_template(c, lte_template), x <= cv(c))"
           " and implies(core.match_template(c, eq_template), x == cv(c))",
    "m": "lambda c, t: core.match_template(c, t)",
}

fold_step = Unit(
    "symbolic_math", "simplify_constrained_range", slice=slice_fold_step,
    params={"condition": "obj", "start": "int", "stop": "int", "redundant_conditions": ("set", "obj")},
    requires=[
        ("condition-not-yet-folded", "condition not in redundant_conditions"),
        ("comparison-has-a-comparator", "len(condition.comparators) >= 1"),
        # the five templates are mutually exclusive (distinct operator/position pairs: table obligation `templates-exclusive`)
        ("templates-exclusive",
         "not (core.match_template(condition, gt_template) and core.match_template(condition, lt_template))"
         " and not (core.match_template(condition, gt_template) and core.match_template(condition, gte_template))"
         " and not (core.match_template(condition, gt_template) and core.match_template(condition, lte_template))"
         " and not (core.match_template(condition, gt_template) and core.match_template(condition, eq_template))"
         " and not (core.match_template(condition, lt_template) and core.match_template(condition, gte_template))"
         " and not (core.match_template(condition, lt_template) and core.match_template(condition, lte_template))"
         " and not (core.match_template(condition, lt_template) and core.match_template(condition, eq_template))"
         " and not (core.match_template(condition, gte_template) and core.match_template(condition, lte_template))"
         " and not (core.match_template(condition, gte_template) and core.match_template(condition, eq_template))"
         " and not (core.match_template(condition, lte_template) and core.match_template(condition, eq_template))"),
    ],
    ensures=[
        ("same-integers-iterated",
         "forall(lambda x: iff(old(start) <= x and x < old(stop) and sat(condition, x),"
         " start <= x and x < stop and (condition in redundant_conditions or sat(condition, x))))"),
        ("only-this-condition-marked",
         "forall_obj(lambda c: implies(c != condition, iff(c in redundant_conditions, c in old(redundant_conditions))))"),
        ("bounds-stay-int", "True"),
    ],
    ghost=GHOST,
    calls={"core.match_template": _match_template},
    attrs={"left": "obj", "comparators": ("seq", "obj"), "value": "int"},
    exc_mode={"IndexError": "oblige", "TypeError": "oblige"},
    props=("C17",),
)
fold_step.key_suffix = "fold-step"

UNITS = [fold_step]


def gen_template_meaning(g: Gen):
    fn, text = find_def("symbolic_math", "simplify_constrained_range")
    g.sha = segment_sha(text, fn)
    g.lines = [fn.lineno, fn.end_lineno]
    x, c = z3.Ints("x c")
    shapes = {}
    for st in ast.walk(fn):
        if isinstance(st, ast.Assign) and isinstance(st.targets[0], ast.Name) and st.targets[0].id in MEANING:
            name = st.targets[0].id
            want = REL[MEANING[name]]
            if not isinstance(st.value, ast.Tuple) or len(st.value.elts) != 2:
                raise NotGenerated(f"{name}: not a 2-tuple of templates")
            for k, alt in enumerate(st.value.elts):
                if not (isinstance(alt, ast.Call) and ast.unparse(alt.func) == "ast.Compare"):
                    raise NotGenerated(f"{name}[{k}]: not ast.Compare(...)")
                kw = {a.arg: a.value for a in alt.keywords}
                l, r = ast.unparse(kw["left"]), ast.unparse(kw["comparators"])
                if not (isinstance(kw["ops"], ast.List) and len(kw["ops"].elts) == 1):
                    raise NotGenerated(f"{name}[{k}]: ops")
                op = ast.unparse(kw["ops"].elts[0]).replace("ast.", "").replace("()", "")
                if op not in REL:
                    raise NotGenerated(f"{name}[{k}]: operator {op}")
                var_left = l == "ast.Name(id=target_name)" and r == "[ast.Constant(value=int)]"
                var_right = l == "ast.Constant(value=int)" and r == "[ast.Name(id=target_name)]"
                if not (var_left or var_right):
                    raise NotGenerated(f"{name}[{k}]: operand shapes `{l}` / `{r}`")
                denotes = REL[op](x, c) if var_left else REL[op](c, x)
                g.oblige("table", f"template-meaning:{name}[{k}]", [], denotes == want(x, c), alt.lineno)
                shapes[(name, k)] = (op, "var-left" if var_left else "var-right")
    if {n for n, _ in shapes} != set(MEANING):
        raise NotGenerated(f"templates found: {sorted({n for n, _ in shapes})}")
    # exclusivity: a comparison node has one operator and one operand order, so templates are exclusive iff all
    # (operator, operand order) pairs of different templates differ
    items = list(shapes.items())
    for i_, ((n1, k1), s1) in enumerate(items):
        for (n2, k2), s2 in items[i_ + 1:]:
            if n1 != n2:
                g.oblige("table", f"templates-exclusive:{n1}[{k1}]-{n2}[{k2}]", [], z3.BoolVal(s1 != s2), fn.lineno)
    g.assumptions.add("comparator constants matched by ast.Constant(value=int) are Python ints (bool included, True == 1)")
