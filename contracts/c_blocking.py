"""core._loop_may_be_left (C16): the worklist search equals the recursive spec.

Spec: reach(w) - the subtree of w contains a statement of the wanted types (break / continue) that belongs to the loop
whose body is searched:   reach(w) <=> wanted(w) or (w is a loop and some statement of w.orelse reaches)
                                       or (w is no loop, no def/class/lambda, and some child of w reaches)
(break/continue in the body of a nested loop belong to the nested loop; in its else clause to the outer loop; they cannot
cross a function or class boundary).   Post: result <=> some statement of loop.body reaches.   Partial correctness:
termination (the AST is finite) has no variant here and is stated as an assumption.
"""
import z3
from pyvc.unit import Unit
from pyvc.values import VBool, VObj, OBJ, B, I, QAll, QEx

wanted = z3.Function("is_wanted_type", OBJ, B)
isloop = z3.Function("is_loop", OBJ, B)
isdef = z3.Function("is_def_class_lambda", OBJ, B)
reach = z3.Function("reach", OBJ, B)
children = z3.Function("children[]", OBJ, z3.ArraySort(I, OBJ))
nchildren = z3.Function("len_children", OBJ, I)
orelse = z3.Function("attr_orelse[]", OBJ, z3.ArraySort(I, OBJ))
norelse = z3.Function("len_attr_orelse", OBJ, I)


def _isinstance(eng, args, kw, env, pc, line):
    from pyvc.values import VFunc, VTuple
    from pyvc.engine import Undecided
    v, t = args
    if isinstance(t, VObj):          # the `types` parameter
        return VBool(wanted(v.t))
    names = {x.name for x in (t.items if isinstance(t, VTuple) else [t])}
    if names == {"ast.For", "ast.AsyncFor", "ast.While"}:
        return VBool(isloop(v.t))
    if names == {"ast.FunctionDef", "ast.AsyncFunctionDef", "ast.ClassDef", "ast.Lambda"}:
        return VBool(isdef(v.t))
    raise Undecided(f"isinstance against {sorted(names)}", line)


def _spec_axioms(eng):
    w = z3.Const("w!reach", OBJ)
    k = z3.Int("k!reach")
    some_orelse = z3.Exists([k], z3.And(0 <= k, k < norelse(w), reach(z3.Select(orelse(w), k))))
    some_child = z3.Exists([k], z3.And(0 <= k, k < nchildren(w), reach(z3.Select(children(w), k))))
    eng.axioms_once("reach-def", z3.ForAll([w], reach(w) == z3.Or(wanted(w), z3.And(isloop(w), some_orelse), z3.And(z3.Not(isloop(w)), z3.Not(isdef(w)), some_child))))
    eng.axioms_once("len>=0", z3.ForAll([w], z3.And(norelse(w) >= 0, nchildren(w) >= 0)))
    from pyvc import values as _vals
    if _vals.BOUND is not None:      # bounded refutation mode: every sequence is short, so that index quantifiers expand exactly
        eng.axioms_once("len<=B", z3.ForAll([w], z3.And(norelse(w) <= _vals.BOUND, nchildren(w) <= _vals.BOUND)))


def g_reach(eng, args, kw, env, pc, node):
    _spec_axioms(eng)
    return VBool(reach(args[0].t))


def _iter_child_nodes(eng, args, kw, env, pc, node):
    from pyvc.values import VSeq
    _spec_axioms(eng)
    return VSeq({(): children(args[0].t)}, nchildren(args[0].t), "obj")


def _orelse(eng, base, pc, line):
    from pyvc.values import VSeq
    _spec_axioms(eng)
    return VSeq({(): orelse(base.t)}, norelse(base.t), "obj")


loop_may_be_left = Unit(
    "core", "_loop_may_be_left",
    params={"loop": "obj", "types": "obj"}, returns="bool",
    ensures=[("true-iff-a-statement-of-the-loop-reaches", "iff(result, exists(lambda k: 0 <= k and k < len(loop.body) and reach(loop.body[k])))")],
    loops={0: {"inv": [
        # soundness: whatever is on the worklist and reaches was found under the loop body
        "implies(exists(lambda j: 0 <= j and j < len(nodes) and reach(nodes[j])), exists(lambda k: 0 <= k and k < len(loop.body) and reach(loop.body[k])))",
        # completeness: if the body reaches, something on the worklist still does
        "implies(exists(lambda k: 0 <= k and k < len(loop.body) and reach(loop.body[k])), exists(lambda j: 0 <= j and j < len(nodes) and reach(nodes[j])))"]}},
    calls={"<isinstance>": _isinstance, "ast.iter_child_nodes": _iter_child_nodes},
    attrs={"body": ("seq", "obj"), "orelse": _orelse}, ghost={"reach": g_reach}, props=("C16",),
    exc_mode={"IndexError": "oblige"}, axiom_arrays=True,
    note="partial correctness (no termination variant: the AST is finite)",
)

UNITS = [loop_may_be_left]
