"""core.is_blocking / _is_exception: soundness by induction on the AST, one obligation per return path  (C16)

Spec (control-flow semantics of Python statements, from the language reference; these axioms ARE the spec):
  fall(n)  : executing n can complete normally, so the next statement can run
  esc(n)   : executing n can run a break/continue that targets a loop enclosing n
Contract:  is_blocking(n, parent) => not fall(n)   for parent None and for a loop parent (with a loop parent `break` and
`continue` are not blocking types: they do not stop the loop from being passed).  That is all the callers need:
statements after a blocking statement of the same body are unreachable, and a for loop over a non-empty constant whose
body contains no break/continue of that loop cannot be passed when its body block cannot complete.
Recursive calls satisfy the contract (induction on height).  literal_value is correct by C15's contracts: when it
returns v the test/iterable evaluates to v; when it raises ValueError nothing is known.
`with`: the contract is proved under the stated assumption that context managers do not suppress exceptions; the
obligation without that assumption (With:raising-child-under-suppressing-manager) is refuted - finding F-16h.
"""
import ast
import z3

from pyvc.tables import Gen
from pyvc.unit import find_def, segment_sha, NotGenerated


EMPTINESS_REPRESENTATIVES = [
    ("empty-list", lambda: []), ("empty-tuple", lambda: ()), ("empty-str", lambda: ""), ("empty-bytes", lambda: b""), ("empty-dict", lambda: {}),
    ("empty-set", lambda: set()), ("empty-frozenset", lambda: frozenset()), ("empty-range", lambda: range(0)), ("empty-enumerate", lambda: enumerate(())),
    ("empty-enumerate-str", lambda: enumerate("")), ("zip-no-arguments", lambda: zip()), ("zip-with-an-empty", lambda: zip([1, 2], [])),
    ("empty-reversed", lambda: reversed([])), ("empty-sorted", lambda: sorted(())), ("empty-map", lambda: map(str, ())), ("empty-filter", lambda: filter(None, (0,))),
    ("empty-iter", lambda: iter(())),
    ("list", lambda: [0]), ("tuple", lambda: (None,)), ("str", lambda: "a"), ("dict", lambda: {0: 0}), ("set", lambda: {0}), ("range", lambda: range(1)),
    ("enumerate", lambda: enumerate("a")), ("zip", lambda: zip([1], [2])), ("reversed", lambda: reversed([0])), ("iter", lambda: iter([0])),
]


def generate(g: Gen):
    fn, text = find_def("core", "is_blocking")
    g.sha = segment_sha(text, fn)
    g.lines = [fn.lineno, fn.end_lineno]
    N = z3.DeclareSort("Node")
    I_, Bo = z3.IntSort(), z3.BoolSort()
    fall = z3.Function("fall", N, Bo)
    esc = z3.Function("esc", N, Bo)
    blkN = z3.Function("is_blocking_none", N, Bo)       # recursive call with parent_type None
    blkL = z3.Function("is_blocking_loop", N, Bo)       # recursive call with a loop parent type
    n = z3.Const("n", N)
    c = z3.Const("c", N)
    k = z3.Int("k")
    IH = [z3.ForAll([c], z3.Implies(blkN(c), z3.Not(fall(c)))), z3.ForAll([c], z3.Implies(blkL(c), z3.Not(fall(c))))]

    def arr(f):
        return z3.Function("fs_" + f, N, z3.ArraySort(I_, N))

    def ln(f):
        return z3.Function("len_" + f, N, I_)

    def ex(f, pred):
        return z3.Exists([k], z3.And(0 <= k, k < ln(f)(n), pred(z3.Select(arr(f)(n), k))))

    def seq_fall(f):      # a block can complete normally only if each statement in it can
        return z3.ForAll([k], z3.Implies(z3.And(0 <= k, k < ln(f)(n)), fall(z3.Select(arr(f)(n), k))))

    def seq_esc(f):
        return ex(f, esc)

    tval = z3.Function("test_is_truthy", N, Bo)          # value of the constant test / non-emptiness of the constant iterable
    may_break = z3.Function("loop_may_be_left_break", N, Bo)
    may_break_cont = z3.Function("loop_may_be_left_break_or_continue", N, Bo)

    stmts = [s for s in fn.body if not (isinstance(s, ast.Expr) and isinstance(s.value, ast.Constant))]
    src = {i: ast.unparse(s) for i, s in enumerate(stmts)}

    def find(prefix):
        for i, s_ in src.items():
            if s_.startswith(prefix):
                return stmts[i]
        raise NotGenerated(f"is_blocking: statement `{prefix}` not found")

    # ---- exceptions first
    s0 = find("if _is_exception(node):")
    if ast.unparse(s0.body[0]) != "return True":
        raise NotGenerated("_is_exception branch does not return True")
    isexc = z3.Function("is_exception", N, Bo)
    # contract of _is_exception (checked below from its own text): is_exception(n) => not fall(n) and not esc(n)
    g.oblige("path", "exception:blocks-in-every-context", [z3.Implies(isexc(n), z3.Not(fall(n))), isexc(n)], z3.Not(fall(n)), s0.lineno)

    # ---- leaf table
    s1 = find("if parent_type is None:")
    try:
        none_types = {e.attr for e in s1.body[0].value.elts}
        loop_if = s1.orelse[0]
        loop_types = {e.attr for e in loop_if.body[0].value.elts}
        loop_parents = {e.attr for e in loop_if.test.comparators[0].elts}
    except Exception:
        raise NotGenerated("blocking_types table not in the recognised shape")
    LEAF_FALL = {"Return": False, "Continue": False, "Break": False, "Raise": False}
    LEAF_ESC = {"Return": False, "Continue": True, "Break": True, "Raise": False, "Pass": False}
    for t in sorted(none_types):
        g.oblige("table", f"leaf:parent-none:{t}:cannot-fall-through", [], z3.BoolVal(LEAF_FALL.get(t, True) is False), s1.lineno)
    for t in sorted(loop_types):
        g.oblige("table", f"leaf:parent-loop:{t}:cannot-fall-through-nor-leave-the-loop-early", [], z3.BoolVal(LEAF_FALL.get(t, True) is False and LEAF_ESC.get(t, True) is False), s1.lineno)
    g.oblige("table", "leaf:loop-parents-are-For-and-While", [], z3.BoolVal(loop_parents == {"For", "While"}), s1.lineno)
    s2 = find("if isinstance(node, blocking_types):")
    if ast.unparse(s2.body[0]) != "return True":
        raise NotGenerated("leaf branch does not return True")

    # ---- If
    sif = find("if isinstance(node, ast.If):")
    tr = sif.body[0]
    if not (isinstance(tr, ast.Try) and ast.unparse(tr.body[0]) == "branch = node.body if literal_value(node.test) else node.orelse" and len(tr.handlers) == 1
            and ast.unparse(tr.handlers[0].type) == "ValueError"):
        raise NotGenerated("If branch: try/except ValueError around the branch selection not found")
    unknown_ret = ast.unparse(tr.handlers[0].body[-1])
    known_ret = ast.unparse(tr.orelse[-1])
    want_unknown = "return all((any((is_blocking(child, parent_type) for child in branch)) for branch in branches))"
    if unknown_ret != want_unknown or ast.unparse(tr.handlers[0].body[0]) != "branches = [node.body, node.orelse]":
        raise NotGenerated(f"If/unknown-test path returns `{unknown_ret[:80]}`")
    if known_ret != "return any((is_blocking(child, parent_type) for child in branch))":
        raise NotGenerated(f"If/known-test path returns `{known_ret[:80]}`")
    # spec axioms for If
    for ctx, blk, goal in (("none", blkN, lambda: z3.Not(fall(n))), ("loop", blkL, lambda: z3.Not(fall(n)))):
        IF_UNKNOWN = [z3.Implies(fall(n), z3.Or(seq_fall("body"), seq_fall("orelse"))), z3.Implies(esc(n), z3.Or(seq_esc("body"), seq_esc("orelse")))]
        res = z3.And(ex("body", blk), ex("orelse", blk))
        g.oblige("path", f"If:unknown-test:parent-{ctx}", IH + IF_UNKNOWN + [res], goal(), tr.handlers[0].lineno)
        for tv, f_ in ((True, "body"), (False, "orelse")):
            IF_KNOWN = [z3.Implies(fall(n), seq_fall(f_)), z3.Implies(esc(n), seq_esc(f_))]
            g.oblige("path", f"If:constant-{'true' if tv else 'false'}-test:parent-{ctx}", IH + IF_KNOWN + [ex(f_, blk)], goal(), tr.orelse[-1].lineno)

    # ---- While
    sw = find("if isinstance(node, ast.While):")
    trw = sw.body[0]
    if not (isinstance(trw, ast.Try) and ast.unparse(trw.body[0]) == "test_value = literal_value(node.test)" and ast.unparse(trw.handlers[0].type) == "ValueError"
            and ast.unparse(trw.handlers[0].body[-1]) == "return False"):
        raise NotGenerated("While branch: unknown test must return False")
    wret = ast.unparse(sw.body[-1])
    if wret != "return bool(test_value) and (not _loop_may_be_left(node, (ast.Break,)))":
        raise NotGenerated(f"While branch returns `{wret[:80]}`")
    # a loop whose test is always true completes normally only through a break of that loop; its breaks/continues are its own
    W = [z3.Implies(z3.And(tval(n), fall(n)), may_break(n))]
    g.oblige("path", "While:constant-true-test-without-break", W + [z3.And(tval(n), z3.Not(may_break(n)))], z3.Not(fall(n)), sw.body[-1].lineno)

    # ---- For
    sf = find("if isinstance(node, ast.For):")
    trf = sf.body[0]
    if not (isinstance(trf, ast.Try) and len(trf.body) == 1 and isinstance(trf.body[0], ast.Assign) and ast.unparse(trf.body[0].targets[0]) == "is_empty"
            and len(trf.handlers) == 1 and ast.unparse(trf.handlers[0].body[-1]) == "return False"):
        raise NotGenerated("For branch: unknown / non-iterable constant must return False")
    # the emptiness test is the real expression, evaluated on representative values of literal_value(node.iter): every kind
    # of object literal_value can return for an iterable (constants.LITERAL_VALUE_FUNCTIONS), empty and not
    import types
    try:
        code = compile(ast.Expression(trf.body[0].value), "<is_empty>", "eval")
    except Exception as exc:  # noqa: BLE001
        raise NotGenerated(f"For branch: emptiness test does not compile: {exc}")
    for label, make in EMPTINESS_REPRESENTATIVES:
        expected = len(list(make())) == 0
        try:
            got = bool(eval(code, {"literal_value": lambda _n, _m=make: _m(), "node": types.SimpleNamespace(iter=None), "any": any, "all": all, "len": len,
                                   "list": list, "tuple": tuple, "bool": bool, "next": next, "iter": iter, "True": True, "False": False}))
        except (ValueError, TypeError):
            got = None  # handled: is_blocking returns False (never blocks), which is always safe
        except Exception as exc:  # noqa: BLE001
            raise NotGenerated(f"For branch: emptiness test raised {type(exc).__name__} on {label}")
        g.oblige("table", f"For:is-empty-agrees-with-iteration:{label}", [], z3.BoolVal(got is None or got == expected or (got and not expected)), trf.lineno)
    hnames = {ast.unparse(x) for x in (trf.handlers[0].type.elts if isinstance(trf.handlers[0].type, ast.Tuple) else [trf.handlers[0].type])}
    g.oblige("table", "For:non-iterable-constant-handled", [], z3.BoolVal({"ValueError", "TypeError"} <= hnames), trf.lineno)
    guard = ast.unparse(sf.body[1])
    if guard != "if is_empty or _loop_may_be_left(node, (ast.Break, ast.Continue)):\n    return False":
        raise NotGenerated(f"For branch guard `{guard[:80]}`")
    fret = ast.unparse(sf.body[-1])
    if fret != "return any((is_blocking(child, type(node)) for child in node.body))":
        raise NotGenerated(f"For branch returns `{fret[:80]}`")
    # non-empty constant iterable, no break/continue of this loop: the first iteration runs the body from the top, and the
    # loop (and its else clause) is reached past only if the body block can complete normally
    F = [z3.Implies(z3.And(tval(n), z3.Not(may_break_cont(n)), fall(n)), seq_fall("body"))]
    g.oblige("path", "For:nonempty-constant-iterable-blocking-body", IH + F + [tval(n), z3.Not(may_break_cont(n)), ex("body", blkL)], z3.Not(fall(n)), sf.body[-1].lineno)

    # ---- With
    swith = find("if isinstance(node, ast.With):")
    wr = ast.unparse(swith.body[-1])
    if wr != "return any((is_blocking(child, parent_type) for child in node.body))":
        raise NotGenerated(f"With branch returns `{wr[:80]}`")
    suppress = z3.Function("manager_may_suppress", N, Bo)
    raises = z3.Function("may_raise", N, Bo)
    WITH = [z3.Implies(fall(n), z3.Or(seq_fall("body"), z3.And(suppress(n), ex("body", raises)))), z3.Implies(esc(n), seq_esc("body"))]
    for ctx, blk, goal in (("none", blkN, lambda: z3.Not(fall(n))), ("loop", blkL, lambda: z3.Not(fall(n)))):
        g.oblige("path", f"With:parent-{ctx}:assuming-no-suppression", IH + WITH + [z3.Not(suppress(n)), ex("body", blk)], goal(), swith.body[-1].lineno)
    g.oblige("path", "With:raising-child-under-suppressing-manager", IH + WITH + [ex("body", blkN)], z3.Not(fall(n)), swith.body[-1].lineno)

    last = stmts[-1]
    g.oblige_text("table", "default:other-statements-are-not-blocking", ast.unparse(last) == "return False", last.lineno)

    # ---- _is_exception
    fe, te = find_def("core", "_is_exception")
    body = [s for s in fe.body if not (isinstance(s, ast.Expr) and isinstance(s.value, ast.Constant))]
    ok_raise = ast.unparse(body[0]) == "if isinstance(node, ast.Raise):\n    return True"
    g.oblige_text("table", "_is_exception:Raise", ok_raise, fe.lineno)
    ok_assert = False
    if len(body) >= 2 and isinstance(body[1], ast.If) and ast.unparse(body[1].test) == "isinstance(node, ast.Assert)":
        t_ = body[1].body[0]
        ok_assert = isinstance(t_, ast.Try) and ast.unparse(t_.body[0]) == "return not literal_value(node.test)" and ast.unparse(t_.handlers[0].body[-1]) == "return False"
    # assert <constant falsy> always raises AssertionError (python -O is outside the model: stated)
    g.oblige_text("table", "_is_exception:Assert-with-false-constant-test", bool(ok_assert), fe.lineno)
    g.oblige_text("table", "_is_exception:default-False", ast.unparse(body[-1]) == "return False", fe.lineno)
    g.assumptions.add("control-flow axioms of If/While/For/With (contracts/x_is_blocking.py) are the spec; induction schema on AST height")
    g.assumptions.add("assert statements are not stripped (no python -O)")
    g.assumptions.add("_loop_may_be_left(node, types) == a break (/continue) of this very loop occurs in the body: its own unit core._loop_may_be_left")
