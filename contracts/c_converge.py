"""C09: repeated formatting converges.  What a contract can carry here is the cycle handling of format_code's pass loops:

  * pass-loop-1 / pass-loop-2: a pass loop stops as soon as the text it produced was seen before, and otherwise records it; it leaves with
    a text that is in content_history or with its budget (MAX_FILE_PASSES) used up.
  * abstraction-section: when the loop left with a revisited text and the two abstraction steps change nothing, NO further pass is run:
    the section returns the very text the first loop stopped at.  (An extra pass would step to the next text of an inner cycle of the
    rule pipeline, and every application of the formatter would then flip between the texts of that cycle.)
  * the module pass budget of the command line is the constant the property quotes.
That the composition of ~85 rules reaches a fixed point at all is not expressible as a contract here: bounded (iteration stand-in).
"""
import ast
import z3

from pyvc.unit import Unit, NotGenerated, find_def, segment_sha


def _body(fn):
    return [s for s in fn.body if not (isinstance(s, ast.Expr) and isinstance(s.value, ast.Constant))]


def _history_index(fn):
    body = _body(fn)
    for k, st in enumerate(body):
        if isinstance(st, ast.Assign) and ast.unparse(st.targets[0]) == "content_history":
            return body, k
    raise NotGenerated("format_code: `content_history = {source}` not found")


def slice_loop1(fn):
    body, k = _history_index(fn)
    if k + 1 >= len(body) or not isinstance(body[k + 1], ast.For):
        raise NotGenerated("format_code: first pass loop does not follow content_history")
    return body[k:k + 2], "pass-loop-1"


def slice_abstraction_section(fn):
    body, k = _history_index(fn)
    rest = body[k + 2:]
    out = []
    for st in rest:
        out.append(st)
        if isinstance(st, (ast.If, ast.For)) and any(isinstance(n, ast.For) for n in ast.walk(st)):
            return out, "abstraction-section"
    raise NotGenerated("format_code: second pass loop not found after the abstraction steps")


CALLS = {"_multi_run_fixes": ("uf", "str"), "abstractions.overused_constant": ("uf", "str"), "fixes.simplify_assign_immediate_return": ("uf", "str")}
CONSTS = {}


def _max_file_passes():
    from pyvc.unit import module_source
    text, tree = module_source("main")
    for st in tree.body:
        if isinstance(st, ast.Assign) and ast.unparse(st.targets[0]) == "MAX_FILE_PASSES" and isinstance(st.value, ast.Constant):
            return st.value.value
    raise NotGenerated("main.MAX_FILE_PASSES is not a literal constant")


M = "_multi_run_fixes"
GH = {"s0": "lambda: old(source)", "m1": "lambda: _multi_run_fixes(old(source), preserve=preserve)",
      "m2": "lambda: _multi_run_fixes(_multi_run_fixes(old(source), preserve=preserve), preserve=preserve)"}

loop1 = Unit(
    "main", "format_code", slice=slice_loop1,
    params={"source": "str", "preserve": "obj", "MAX_FILE_PASSES": "int"},
    requires=[("budget-at-least-two", "MAX_FILE_PASSES >= 2")],
    ensures=[("input-text-is-remembered", "old(source) in content_history"),
             ("result-was-recorded-or-seen", "source in content_history"),
             # the cycle handling, for the two shortest periods: the loop stops AT the repeated text and returns it
             ("fixed-point-of-the-pipeline-is-returned-unchanged", "implies(m1() == s0(), source == s0())"),
             ("two-cycle-of-the-pipeline-returns-the-text-it-started-from", "implies(m2() == s0(), source == s0())")],
    loops={0: {"declare": {"_": "int"},
               "inv": ["old(source) in content_history", "source in content_history",
                       "implies(_i == 0, source == s0() and content_history == {s0()})",
                       "implies(_i == 1, source == m1() and content_history == {s0(), m1()})",
                       "implies(m1() == s0() or m2() == s0(), _i <= 1)"]}},
    calls=CALLS, ghost=GH, props=("C09",),
)
loop1.key_suffix = "pass-loop-1"

def _abs_hook(name):
    """an abstraction step as a function of the TEXT only (its other arguments are configuration that does not change during one call of
    format_code): the contract must not depend on how that configuration is spelled at the call site (`minimum_indent == 0` or a local)"""
    def hook(eng, args, kw, env, pc, node):
        from pyvc.values import VStr, STR
        return VStr(eng.uf(name, [STR], STR)(args[0].t))
    return hook


section = Unit(
    "main", "format_code", slice=slice_abstraction_section,
    params={"source": "str", "preserve": "obj", "content_history": ("set", "str"), "minimum_indent": "int", "MAX_FILE_PASSES": "int"},
    requires=[("first-loop-stopped-at-a-seen-text", "source in content_history"), ("budget-positive", "MAX_FILE_PASSES >= 1")],
    ensures=[("no-further-pass-when-the-abstractions-change-nothing",
              "implies(hoisted(old(source)) == old(source) and simplified(old(source)) == old(source), source == old(source))")],
    loops={0: {"inv": ["True"]}},
    calls=dict(CALLS, **{"abstractions.overused_constant": _abs_hook("overused_constant_of"), "fixes.simplify_assign_immediate_return": _abs_hook("simplify_assign_immediate_return_of")}),
    ghost={"hoisted": _abs_hook("overused_constant_of"), "simplified": _abs_hook("simplify_assign_immediate_return_of")}, props=("C09",),
)
section.key_suffix = "abstraction-section"

UNITS = [loop1, section]


def gen_budget(g):
    from pyvc.unit import module_source
    text, tree = module_source("main")
    consts = {ast.unparse(st.targets[0]): st.value.value for st in tree.body if isinstance(st, ast.Assign) and isinstance(st.value, ast.Constant)}
    g.lines = [1, 40]
    g.oblige("table", "module-pass-budget-is-five", [], z3.BoolVal(consts.get("MAX_MODULE_PASSES") == 5), 1)
    fn, _ = find_def("main", "main")
    g.sha = segment_sha(text, fn)
    kw = [k for n in ast.walk(fn) if isinstance(n, ast.Call) and ast.unparse(n.func) == "format_files" for k in n.keywords if k.arg == "max_passes"]
    ok = len(kw) == 1 and "MAX_MODULE_PASSES" in ast.unparse(kw[0].value)
    g.oblige_text("table", "command-line-uses-the-module-pass-budget", bool(ok), fn.lineno)
    ff, _ = find_def("main", "format_files")
    rng = [n for n in ast.walk(ff) if isinstance(n, ast.For) and ast.unparse(n.iter) == "range(1, max_passes + 1)"]
    g.oblige_text("table", "format_files-makes-at-most-max_passes-passes", len(rng) == 1, ff.lineno)


# ----------------------------------------------------------------------------- fix.wrapper / chain.func_chain: the same cycle handling
from .shapes import RECORDS, SCHED_ENTRY            # noqa: E402
from pyvc.values import fresh_val                   # noqa: E402


def _sched(eng, e, env, pc):
    """_schedule_rewrites(source, ...): some schedule, a deterministic function of the text (the rule is a deterministic generator)"""
    from pyvc.values import VSeq
    src = env["source"]
    s = fresh_val("schedule", ("seq", SCHED_ENTRY))
    eng.assumptions.add("the schedule is a deterministic function of the text (C05 / C06); the pass P(text) = _apply_rewrites(text, schedule(text)) is an uninterpreted function")
    return s


_sched.lazy_args = True


def _apply(eng, e, env, pc):
    """_apply_rewrites(source, scheduled_rewrites) where the schedule was computed from the same text: the pass function P(source)"""
    from pyvc.values import VStr, STR
    src = eng.ev(e.args[0], env, pc)
    return VStr(eng.uf("one_pass", [STR], STR)(src.t))


_apply.lazy_args = True

PGH = {"s0": "lambda: old(source)", "p1": "lambda: one_pass(old(source))", "p2": "lambda: one_pass(one_pass(old(source)))"}


def g_one_pass(eng, args, kw, env, pc, node):
    from pyvc.values import VStr, STR
    return VStr(eng.uf("one_pass", [STR], STR)(args[0].t))


fix_cycles = Unit(
    "processing", "fix.fix_decorator.wrapper", name="processing.fix.fix_decorator.wrapper/cycles",
    params={"source": "str", "max_iter": "int"}, returns="str",
    requires=[("budget-at-least-two", "max_iter >= 2")],
    ensures=[("a-fixed-point-of-the-pass-is-returned-unchanged", "implies(one_pass(s0()) == s0(), result == s0())"),
             ("a-two-cycle-of-the-pass-returns-the-text-it-started-from", "implies(one_pass(one_pass(s0())) == s0(), result == s0())")],
    loops={0: {"inv": ["s0() in history",
                       "implies(_i == 0, source == s0())", "implies(_i == 1, source == one_pass(s0()))",
                       "implies(one_pass(s0()) == s0() or one_pass(one_pass(s0())) == s0(), _i <= 1)",
                       "history == {s0()}"]}},
    calls={"_schedule_rewrites": _sched, "_apply_rewrites": _apply}, ghost=dict(PGH, one_pass=g_one_pass), records=RECORDS, props=("C09",),
)

chain_cycles = Unit(
    "processing", "chain.func_chain", name="processing.chain.func_chain/cycles",
    params={"source": "str", "max_iter": "int", "preserve": ("set", "str"), "fix_funcs": "obj"}, returns="str",
    requires=[("budget-at-least-two", "max_iter >= 2")],
    ensures=[("a-fixed-point-of-the-pass-is-returned-unchanged", "implies(one_pass(s0()) == s0(), result == s0())"),
             ("a-two-cycle-of-the-pass-returns-the-text-it-started-from", "implies(one_pass(one_pass(s0())) == s0(), result == s0())")],
    loops={0: {"inv": ["s0() in history",
                       "implies(_i == 0, source == s0())", "implies(_i == 1, source == one_pass(s0()))",
                       "implies(one_pass(s0()) == s0() or one_pass(one_pass(s0())) == s0(), _i <= 1)",
                       "history == {s0()}"]}},
    calls={"_schedule_rewrites": _sched, "_apply_rewrites": _apply, "_build_chain": ("havoc", "obj"), "frozenset": ("havoc", "obj")},
    ghost=dict(PGH, one_pass=g_one_pass), records=RECORDS, props=("C09",),
)

UNITS += [fix_cycles, chain_cycles]
