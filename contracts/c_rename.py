"""C19: renaming.  What contracts reach here is small: the guards that decide whether a binding is renamed at all.

  * _get_uses_of: a function whose PARAMETER has the name being renamed shadows it, whatever the kind of parameter.  The real guard
    expression is taken from the source, compiled and evaluated (with the real core.walk) on one function per parameter kind
    (positional-only, positional-or-keyword, *args, keyword-only, **kwargs) and on functions that merely mention the name in a default or
    an annotation: a complete case analysis over ast.arguments' fields.
  * align_variable_names_with_convention: the set of names a substitute may never take contains the builtins and the keywords, and the
    filter that applies it is present (table obligations on the real AST); the all-or-nothing / free-name guard is present and deletes
    from `renamings` (structure obligation).
Everything else about renaming (use-site discovery, scoping) is bounded: programs executed before and after.
"""
import ast
import z3

from pyvc.unit import NotGenerated, find_def, segment_sha

PARAM_KINDS = [
    ("positional-only", "def f(v, /, b): return v", True), ("positional-or-keyword", "def f(a, v): return v", True), ("var-positional", "def f(a, *v): return v", True),
    ("keyword-only", "def f(a, *, v=1): return v", True), ("var-keyword", "def f(a, **v): return v", True), ("async-function", "async def f(a, *v): return v", True),
    ("name-only-in-default", "def f(a=v): return a", False), ("name-only-in-annotation", "def f(a: v): return a", False), ("other-parameters", "def f(a, *b, c, **d): return a", False),
]


def _eval_guard(args):
    """runs in a forked worker: evaluates the shadowing test of _get_uses_of with the real pyrefact.core"""
    import sys
    repo, test_src = args
    sys.path.insert(0, repo)
    from pyrefact import core
    out = {}
    for kind, src, want in PARAM_KINDS:
        funcdef = ast.parse(src).body[0]
        try:
            got = bool(eval(compile(ast.Expression(ast.parse(test_src, mode="eval").body), "<guard>", "eval"), {"core": core, "ast": ast, "any": any, "funcdef": funcdef, "name": "v"}))  # noqa: S307
        except Exception as ex:  # noqa: BLE001
            got = f"{type(ex).__name__}: {ex}"
        out[kind] = got
    return out


def gen_shadow_guard(g):
    from standins import pipeline as P
    fn, text = find_def("fixes", "_get_uses_of")
    g.sha = segment_sha(text, fn)
    g.lines = [fn.lineno, fn.end_lineno]
    loops = [n for n in ast.walk(fn) if isinstance(n, ast.For) and isinstance(n.target, ast.Name) and n.target.id == "funcdef"]
    if len(loops) != 1:
        raise NotGenerated("_get_uses_of: loop over the function definitions of the scope not found")
    guards = [s for s in loops[0].body if isinstance(s, ast.If) and "blacklisted_names.update(core.walk(funcdef, ast.Name))" in ast.unparse(s.body[0])]
    if len(guards) != 1:
        raise NotGenerated("_get_uses_of: the parameter-shadowing guard (blacklists every name of the function) not found")
    test_src = ast.unparse(guards[0].test)
    res = P.pool_map(_eval_guard, [(P.REPO, test_src)], chunksize=1, procs=1)[0]
    for kind, src, want in PARAM_KINDS:
        got = res[kind]
        if not isinstance(got, bool):
            raise NotGenerated(f"shadowing guard `{test_src}` could not be evaluated on `{src}`: {got}")
        g.oblige("guard", f"parameter-shadows-the-name:{kind}" if want else f"no-shadowing:{kind}", [], z3.BoolVal(got == want), guards[0].lineno,
                 replay=lambda m, src=src, got=got, want=want: {"reproduced": True, "input": f"renamed name `v`, function `{src}`", "observed": f"shadowing guard `{test_src}` is {got}", "required": f"{want}"})
    g.assumptions.add("the guard depends on the function's parameters only through ast.arguments (one representative per parameter kind)")


def gen_blacklist(g):
    fn, text = find_def("fixes", "align_variable_names_with_convention")
    g.sha = segment_sha(text, fn)
    g.lines = [fn.lineno, fn.end_lineno]
    asg = [n for n in ast.walk(fn) if isinstance(n, ast.Assign) and ast.unparse(n.targets[0]) == "blacklisted_names"]
    if len(asg) != 1:
        raise NotGenerated("align_variable_names_with_convention: `blacklisted_names = ...` not found")
    parts = set()

    def collect(e):
        if isinstance(e, ast.BinOp) and isinstance(e.op, ast.BitOr):
            collect(e.left)
            collect(e.right)
        else:
            parts.add(ast.unparse(e))
    collect(asg[0].value)
    for want in ("constants.BUILTIN_FUNCTIONS", "constants.PYTHON_KEYWORDS", "tracing.get_imported_names(ast_tree)", "tracing.get_defined_names(ast_tree)"):
        g.oblige_text("table", f"never-renamed-to:{want}", want in parts, asg[0].lineno)
    filt = [n for n in ast.walk(fn) if isinstance(n, ast.DictComp) and "blacklisted_names.isdisjoint(substitutes)" in ast.unparse(n) and "len(substitutes) == 1" in ast.unparse(n)]
    g.oblige_text("table", "ambiguous-or-blacklisted-substitutes-are-dropped", len(filt) == 1, asg[0].lineno)
    # the all-or-nothing / free-name guard: one `if` over every renamed name whose body removes the name's nodes from `renamings`
    guard = None
    for n in ast.walk(fn):
        if isinstance(n, ast.For) and "name_renamings.items()" in ast.unparse(n.iter):
            for st in n.body:
                if isinstance(st, ast.If) and any(isinstance(d, ast.Delete) and ast.unparse(d.targets[0]).startswith("renamings[") for d in ast.walk(st)):
                    guard = st
    if guard is None:
        raise NotGenerated("align_variable_names_with_convention: the guard that removes a name's nodes from `renamings` was not found")
    test = ast.unparse(guard.test)
    conds = {
        "every-variable-use-of-the-name-is-renamed": "!= variables[name]",
        "name-is-not-a-parameter-global-nonlocal-import-or-handler-name": "fixed_names[name]",
        "class-member-not-referenced-as-attribute": "is_member and attributes[name]",
        "new-name-is-not-a-variable-already": "variables[substitute]",
        "new-name-is-not-a-function-or-class-already": "definitions[substitute]",
        "new-name-is-not-a-parameter-or-declared-name-already": "fixed_names[substitute]",
        "new-member-name-is-not-an-attribute-already": "is_member and attributes[substitute]",
        "no-two-names-get-one-new-name": "len(substitute_names[substitute]) > 1",
    }
    cm = [n for n in ast.walk(fn) if isinstance(n, ast.Assign) and ast.unparse(n.targets[0]) == "class_members"]
    okc = len(cm) == 1 and isinstance(cm[0].value, ast.SetComp) and ast.unparse(cm[0].value.generators[0].iter) in ("core.walk(ast_tree, ast.ClassDef)", "ast.walk(ast_tree)") \
        and any("ast.walk(" in ast.unparse(gen_.iter) for gen_ in cm[0].value.generators[1:])
    g.oblige_text("table", "class-members-are-collected-from-every-class-and-every-target-name", bool(okc), (cm[0] if cm else fn).lineno if False else fn.lineno)
    top = guard.test.values if isinstance(guard.test, ast.BoolOp) and isinstance(guard.test.op, ast.Or) else [guard.test]
    g.oblige_text("table", "guard-is-a-disjunction-of-refusal-conditions", isinstance(guard.test, ast.BoolOp) and isinstance(guard.test.op, ast.Or), guard.lineno)
    for label, frag in conds.items():
        g.oblige_text("table", f"refuses-unless:{label}", frag in test and not any(isinstance(v, ast.UnaryOp) and frag in ast.unparse(v) for v in top), guard.lineno)
    from pyvc.unit import module_source
    ctext, ctree = module_source("constants")
    import builtins
    import keyword
    consts = {ast.unparse(n.targets[0]): n.value for n in ctree.body if isinstance(n, ast.Assign)}
    kw = consts.get("PYTHON_KEYWORDS")
    ok = kw is not None and ("keyword.kwlist" in ast.unparse(kw) or all(k in ast.unparse(kw) for k in keyword.kwlist))
    g.oblige("table", "PYTHON_KEYWORDS-covers-keyword.kwlist", [], z3.BoolVal(bool(ok)), 1)
    bf = consts.get("BUILTIN_FUNCTIONS")
    okb = bf is not None and ("dir(builtins)" in ast.unparse(bf) or all(repr(b) in ast.unparse(bf) for b in ("list", "dict", "print", "len", "id", "type", "max", "min", "sum")))
    g.oblige("table", "BUILTIN_FUNCTIONS-covers-the-common-builtins", [], z3.BoolVal(bool(okb)), 1)


# ----------------------------------------------------------------------------- refusal guards of the renaming rules, on representatives
# (label, rule, module source, text that must still be in the output).  One representative per way a name can mean something else: the
# rule is the real function, run on the module; the obligation is that the binding is LEFT ALONE (the text that carries it survives).
F1 = "def {a}(x):\n    return x + 1\n\n\ndef {b}(x):\n    return x + 1\n\n\n"
REFUSALS = [
    ("duplicate-merge:kept-name-is-a-parameter", "fixes.remove_duplicate_functions", F1.format(a="f", b="g") + "def use(f):\n    return g(f)\n\n\nprint(use(3), f(1))\n", "def g(x)"),
    ("duplicate-merge:removed-name-is-a-parameter", "fixes.remove_duplicate_functions", F1.format(a="f", b="g") + "def use(g):\n    return f(g)\n\n\nprint(use(3), g(1))\n", "def g(x)"),
    ("duplicate-merge:kept-name-is-a-local", "fixes.remove_duplicate_functions", F1.format(a="f", b="g") + "def use(x):\n    f = x * 2\n    return g(f)\n\n\nprint(use(3), f(1))\n", "def g(x)"),
    ("duplicate-merge:kept-name-is-defined-again", "fixes.remove_duplicate_functions", F1.format(a="f", b="g") + "def f(x):\n    return x * 10\n\n\nprint(g(2))\n", "def g(x)"),
    ("duplicate-merge:kept-name-is-an-exception-name", "fixes.remove_duplicate_functions", F1.format(a="f", b="g") + "try:\n    raise ValueError(1)\nexcept ValueError as f:\n    print(g(1))\n", "def g(x)"),
    ("duplicate-merge:kept-name-is-imported", "fixes.remove_duplicate_functions", F1.format(a="f", b="g") + "def use(x):\n    from os import sep as f\n    return g(x), f\n\n\nprint(use(1))\n", "def g(x)"),
    ("duplicate-merge:bodies-call-different-functions", "fixes.remove_duplicate_functions",
     "def foo(x):\n    return x + 1\n\n\ndef bar(x):\n    return x * 10\n\n\ndef f(x):\n    return foo(x)\n\n\ndef g(x):\n    return bar(x)\n", "def g(x)"),
    ("duplicate-merge:bodies-read-different-globals", "fixes.remove_duplicate_functions", "A = 3\nB = 5\n\n\ndef f(x):\n    return x * A\n\n\ndef g(x):\n    return x * B\n", "def g(x)"),
    ("duplicate-merge:bodies-assign-different-globals", "fixes.remove_duplicate_functions",
     "a = b = 0\n\n\ndef f():\n    global a\n    a = 1\n\n\ndef g():\n    global b\n    b = 1\n", "def g()"),
    ("duplicate-merge:bodies-use-different-attributes", "fixes.remove_duplicate_functions", "import math\n\n\ndef f(x):\n    return math.floor(x)\n\n\ndef g(x):\n    return math.ceil(x)\n", "def g(x)"),
    ("duplicate-merge:bodies-differ-in-a-constant", "fixes.remove_duplicate_functions", "def f(x):\n    return x + 1\n\n\ndef g(x):\n    return x + 2\n", "def g(x)"),
    ("unused-underscore:name-is-deleted", "fixes.undefine_unused_variables", "def f():\n    tmp = make()\n    del tmp\n    return 2\n", "tmp = make()"),
    ("unused-underscore:name-is-deleted-at-module-level", "fixes.undefine_unused_variables", "import sys\ntmp = len(sys.argv)\ndel tmp\n", "tmp = len(sys.argv)"),
    ("unused-underscore:name-is-read-in-a-handler", "fixes.undefine_unused_variables", "def f(x):\n    try:\n        v = 1\n        x()\n    except ValueError:\n        return v\n    return 0\n", "v = 1"),
    ("convention:function-is-defined-again-in-a-block", "fixes.align_variable_names_with_convention",
     "import sys\n\n\ndef fooBar(x):\n    return 1\n\n\nif sys.argv:\n    def fooBar(x):\n        return 2\n\n\nprint(fooBar(3))\n", "print(fooBar(3))"),
    ("convention:class-body-name-refers-to-a-kept-method", "fixes.align_variable_names_with_convention",
     "class Base:\n    pass\n\n\nclass A(Base):\n    def fooBar(self):\n        return 1\n\n    alias = fooBar\n", "alias = fooBar"),
    ("convention:member-is-a-match-class-keyword", "fixes.align_variable_names_with_convention",
     "class P:\n    xPos = 0\n\n\ndef f(p):\n    match p:\n        case P(xPos=0):\n            return 1\n    return 0\n", "xPos = 0"),
    ("convention:name-shadows-a-builtin-used-earlier", "fixes.align_variable_names_with_convention", "import sys\nn = len(sys.argv)\nlen = 1\nprint(len, n)\n", "len = 1"),
    ("convention:name-is-a-parameter-elsewhere", "fixes.align_variable_names_with_convention", "someVar = 1\n\n\ndef f(someVar):\n    return someVar\n\n\nprint(f(2), someVar)\n", "someVar = 1"),
    ("convention:name-is-declared-global", "fixes.align_variable_names_with_convention", "someVar = 0\n\n\ndef bump():\n    global someVar\n    someVar += 1\n\n\nbump()\nprint(someVar)\n", "someVar = 0"),
    ("convention:new-name-is-taken", "fixes.align_variable_names_with_convention", "someVar = 1\nSOME_VAR = 2\nprint(someVar, SOME_VAR)\n", "someVar = 1"),
    ("static-move:new-name-is-a-variable", "object_oriented.move_staticmethod_static_scope",
     "_K_helper = 1\n_helper = 5\n\n\nclass K:\n    @staticmethod\n    def helper(x):\n        return x + _helper\n\n\nprint(K.helper(1), _K_helper)\n", "def helper(x)"),
    ("static-move:class-body-refers-to-the-method-by-name", "object_oriented.move_staticmethod_static_scope",
     "class K:\n    @staticmethod\n    def helper(x):\n        return x\n\n    alias = helper\n\n\nprint(K.alias(1))\n", "def helper(x)"),
    ("static-move:one-moved-method-calls-another", "object_oriented.move_staticmethod_static_scope",
     "class Tools:\n    @staticmethod\n    def to_celsius(f):\n        return f - 32\n\n    @staticmethod\n    def to_kelvin(f):\n        return Tools.to_celsius(f) + 273\n\n\ndef report(f):\n    return Tools.to_kelvin(f)\n", "    def to_kelvin(f)"),
    ("static-move:reached-through-an-instance-attribute", "object_oriented.move_staticmethod_static_scope",
     "class K:\n    @staticmethod\n    def helper(x):\n        return x\n\n\ndef f(k):\n    return k.helper(1)\n\n\nprint(f(K()))\n", "def helper(x)"),
]
# the rule does act where nothing is ambiguous (vacuity guard): (label, rule, source, text that must be GONE)
REFUSAL_CONTROLS = [
    ("duplicate-merge", "fixes.remove_duplicate_functions", F1.format(a="f", b="g") + "print(f(1), g(2))\n", "def g(x)"),
    ("unused-underscore", "fixes.undefine_unused_variables", "def f():\n    tmp = make()\n    return 2\n", "tmp = make()"),
    ("convention", "fixes.align_variable_names_with_convention", "someVar = 1\nprint(someVar)\n", "someVar = 1"),
    ("static-move", "object_oriented.move_staticmethod_static_scope", "class K:\n    @staticmethod\n    def helper(x):\n        return x\n\n\nprint(K.helper(1))\n", "    def helper(x)"),
]


def gen_refusals(g):
    """table obligations: each renaming rule (the real function) leaves a binding alone when its name, or the name it would get, means
    something else somewhere; one representative module per reason.  A rule that raises makes the obligation not-generated."""
    from pyvc.replay import call_real
    fn, text = find_def("fixes", "remove_duplicate_functions")
    g.sha = segment_sha(text, fn)
    g.lines = [fn.lineno, fn.end_lineno]
    snippet = (
        "import importlib\n"
        "from pyrefact import logs\n"
        "logs.set_level(100)\n"
        "out = {}\n"
        "for lab, rule, src in payload['cases']:\n"
        "    mod, name = rule.split('.')\n"
        "    f = getattr(importlib.import_module('pyrefact.' + mod), name)\n"
        "    try:\n"
        "        out[lab] = f(src, set()) if name != 'undefine_unused_variables' else f(src, set())\n"
        "    except Exception as ex:\n"
        "        out[lab] = None\n"
        "print(json.dumps(out))\n")
    cases = [(lab, rule, src) for lab, rule, src, _ in REFUSALS] + [("control:" + lab, rule, src) for lab, rule, src, _ in REFUSAL_CONTROLS]
    res = call_real(snippet, {"cases": cases}, timeout=300)
    import subprocess
    import sys

    def behaviour(text):
        try:
            p = subprocess.run([sys.executable, "-c", text], capture_output=True, text=True, timeout=30)
            return (p.returncode, p.stdout, (p.stderr.strip().splitlines() or [""])[-1].split(":")[0])
        except Exception as ex:  # noqa: BLE001
            return ("error", type(ex).__name__)
    for lab, rule, src, keep in REFUSALS:
        out = res.get(lab)
        if not isinstance(out, str):
            raise NotGenerated(f"{rule} raised on representative {lab}")
        if keep in out:
            g.oblige("table", f"binding-left-alone:{lab}", [], z3.BoolVal(True), fn.lineno)
            continue
        # The property also allows a CONSISTENT renaming.  The binding was not left alone: it is a violation only if the representative program
        # no longer behaves the same (run before and after); otherwise the obligation is undecided and the bounded stand-in decides.
        before, after = behaviour(src), behaviour(out)
        if before == after:
            g.oblige_text("table", f"binding-left-alone:{lab}", False, fn.lineno)
            continue
        g.oblige("table", f"binding-left-alone:{lab}", [], z3.BoolVal(False), fn.lineno,
                 replay=lambda m, rule=rule, src=src, out=out, keep=keep, before=before, after=after: {
                     "reproduced": True, "input": f"{rule}({src!r}, set())", "observed": f"{out!r}; the program gave {before} before and {after} after",
                     "required": f"the binding is left alone (the output contains {keep!r}) or the program behaves the same"})
    for lab, rule, src, gone in REFUSAL_CONTROLS:
        out = res.get("control:" + lab)
        if not isinstance(out, str):
            raise NotGenerated(f"{rule} raised on control {lab}")
        g.oblige("cover", f"control-rule-acts:{lab}", [z3.BoolVal(gone not in out)], z3.BoolVal(True), fn.lineno)
    g.assumptions.add("one representative module per reason a name can mean something else; the bounded stand-in c19-programs-executed varies identifiers and binding forms")


# ----------------------------------------------------------------------------- preserved names, on representatives (C08 / C07)
LIBK = "class Converter:\n    def to_celsius(self, f):\n        return (f - 32) / 1.8\n\n\ndef make():\n    return Converter()\n"
LIBS = "class Converter:\n    @staticmethod\n    def to_celsius(f):\n        return (f - 32) / 1.8\n\n\ndef make():\n    return Converter()\n"
# (label, rule, module source, preserve set, text that must still be in the output)
PRESERVE_REFUSALS = [
    ("static-move:method-preserved-class-not-named", "object_oriented.move_staticmethod_static_scope", LIBS, ["to_celsius", "make"], "    def to_celsius(f)"),
    ("static-move:method-preserved-and-class-preserved", "object_oriented.move_staticmethod_static_scope", LIBS, ["to_celsius", "Converter"], "    def to_celsius(f)"),
    ("static-move:qualified-method-preserved", "object_oriented.move_staticmethod_static_scope", LIBS, ["Converter.to_celsius"], "    def to_celsius(f)"),
    ("unused-definitions:function-preserved", "fixes.delete_unused_functions_and_classes", "def helperFn():\n    return 1\n", ["helperFn"], "def helperFn()"),
    ("unused-definitions:class-preserved", "fixes.delete_unused_functions_and_classes", "class Helper:\n    pass\n", ["Helper"], "class Helper"),
    ("unused-definitions:method-preserved", "fixes.delete_unused_functions_and_classes", LIBK + "\n\nprint(make())\n", ["to_celsius"], "def to_celsius(self, f)"),
    ("unused-definitions:qualified-method-preserved", "fixes.delete_unused_functions_and_classes", LIBK + "\n\nprint(make())\n", ["Converter.to_celsius"], "def to_celsius(self, f)"),
    ("unused-definitions:method-preserved-class-unused", "fixes.delete_unused_functions_and_classes",
     "class Parser:\n    def tokens(self):\n        return 1\n\n    def normalise(self):\n        return 2\n\n\nprint(3)\n", ["normalise"], "def normalise(self)"),
    ("convention:function-preserved", "fixes.align_variable_names_with_convention", "def helperFn():\n    return 1\n\n\nprint(helperFn())\n", ["helperFn"], "def helperFn()"),
    ("convention:class-preserved", "fixes.align_variable_names_with_convention", "class helper_class:\n    pass\n\n\nprint(helper_class())\n", ["helper_class"], "class helper_class"),
    ("convention:variable-preserved", "fixes.align_variable_names_with_convention", "someValue = 1\nprint(someValue)\n", ["someValue"], "someValue = 1"),
    ("convention:method-preserved", "fixes.align_variable_names_with_convention", "class K:\n    def toCelsius(self, f):\n        return f\n\n\nprint(K().toCelsius(1))\n", ["toCelsius"], "def toCelsius(self, f)"),
    ("unused-underscore:variable-preserved", "fixes.undefine_unused_variables", "someValue = 1\n", ["someValue"], "someValue = 1"),
    ("duplicate-merge:removed-name-preserved", "fixes.remove_duplicate_functions", F1.format(a="f", b="g") + "print(f(1), g(2))\n", ["g"], "def g(x)"),
    ("duplicate-merge:both-names-preserved", "fixes.remove_duplicate_functions", F1.format(a="f", b="g") + "print(f(1), g(2))\n", ["f", "g"], "def g(x)"),
    ("duplicate-merge:both-names-preserved-neither-used-in-the-module", "fixes.remove_duplicate_functions", F1.format(a="f", b="g"), ["f", "g"], "def g(x)"),
    ("duplicate-merge:three-copies-two-preserved-none-used-in-the-module", "fixes.remove_duplicate_functions", F1.format(a="f", b="g") + "\n\n" + F1.format(a="h", b="k"), ["g", "k"], "def k(x)"),
    # a preserved class that is not a direct statement of the module keeps its methods too (constructor, special methods)
    ("unused-definitions:preserved-class-under-if", "fixes.delete_unused_functions_and_classes", "import sys\n\nif sys.argv:\n    class Buffer:\n        def __init__(self, n):\n            self.n = n\n\n        def __len__(self):\n            return self.n\n", ["Buffer"], "def __len__(self)"),
    ("unused-definitions:preserved-class-under-try", "fixes.delete_unused_functions_and_classes", "try:\n    class Buffer:\n        def __init__(self, n):\n            self.n = n\nexcept NameError:\n    Buffer = None\n", ["Buffer"], "def __init__(self, n)"),
    ("unused-definitions:preserved-class-in-a-class", "fixes.delete_unused_functions_and_classes", "class Registry:\n    class Entry:\n        def __init__(self, k):\n            self.k = k\n\n        def __repr__(self):\n            return 'E'\n\n    entries = []\n", ["Registry", "Entry", "entries"], "def __repr__(self)"),
    ("unused-definitions:preserved-class-in-a-function", "fixes.delete_unused_functions_and_classes", "def make():\n    class Local:\n        def __init__(self, k):\n            self.k = k\n\n    return Local\n", ["make", "Local"], "def __init__(self, k)"),
    ("unused-definitions:preserved-class-under-with", "fixes.delete_unused_functions_and_classes", "import contextlib\n\nwith contextlib.suppress(Exception):\n    class Buffer:\n        def __init__(self, n):\n            self.n = n\n", ["Buffer"], "def __init__(self, n)"),
    ("unused-self:method-preserved", "object_oriented.remove_unused_self_cls", LIBK, ["to_celsius"], "def to_celsius("),
]


def gen_preserve_refusals(g):
    """table obligations: every deleting / renaming rule (the real function) leaves a definition alone when its name - or Class.name - is in
    the preserve set; one representative module per rule and kind of definition.  A rule that raises makes the obligation not-generated."""
    from pyvc.replay import call_real
    fn, text = find_def("object_oriented", "move_staticmethod_static_scope")
    g.sha = segment_sha(text, fn)
    g.lines = [fn.lineno, fn.end_lineno]
    snippet = (
        "import importlib, inspect\n"
        "from pyrefact import logs\n"
        "logs.set_level(100)\n"
        "out = {}\n"
        "for lab, rule, src, preserve in payload['cases']:\n"
        "    mod, name = rule.split('.')\n"
        "    f = getattr(importlib.import_module('pyrefact.' + mod), name)\n"
        "    try:\n"
        "        takes = 'preserve' in inspect.signature(f).parameters\n"
        "        out[lab] = f(src, preserve=set(preserve)) if takes else f(src)\n"
        "    except Exception as ex:\n"
        "        out[lab] = None\n"
        "print(json.dumps(out))\n")
    res = call_real(snippet, {"cases": [(lab, rule, src, pres) for lab, rule, src, pres, _ in PRESERVE_REFUSALS]}, timeout=300)
    for lab, rule, src, pres, keep in PRESERVE_REFUSALS:
        out = res.get(lab)
        if not isinstance(out, str):
            raise NotGenerated(f"{rule} raised on representative {lab}")
        g.oblige("table", f"preserved-definition-left-alone:{lab}", [], z3.BoolVal(keep in out), fn.lineno,
                 replay=lambda m, rule=rule, src=src, pres=pres, out=out, keep=keep: {"reproduced": True, "input": f"{rule}({src!r}, preserve={set(pres)!r})", "observed": out,
                                                                                      "required": f"the output still contains {keep!r}"})
    g.assumptions.add("one representative module per rule and kind of preserved definition; the bounded stand-ins vary clients, access forms and option sets")
