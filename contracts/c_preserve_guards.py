"""C07 / C08 guarded-effect obligations: a rule yields a definition for deletion only if its name is not in `preserve`.

Proved for ALL preserve sets (so they serve safe mode, C07, and external preserve sets, C08).  Lenient units: everything but
the control flow, the collections of candidate nodes and the membership tests in `preserve` is abstracted to unconstrained
values.  The element predicate of each candidate list is the loop invariant of the loop that fills it.
"""
from pyvc.unit import Unit

NOT_PRESERVED = "forall(lambda k: implies(0 <= k and k < len({lst}), {lst}[k].name not in preserve))"

delete_unused = Unit(
    "fixes", "delete_unused_functions_and_classes",
    params={"source": "str", "preserve": ("set", "str")},
    yield_ensures=[("deleted-definition-is-not-preserved", "value[0].name not in preserve")],
    loops={0: {"inv": [NOT_PRESERVED.format(lst="funcdefs")]}, 1: {"inv": [NOT_PRESERVED.format(lst="classdefs")]}},
    local_shapes={"funcdefs": ("seq", "obj"), "classdefs": ("seq", "obj")},
    attrs={"name": "str"}, lenient=True, props=("C07", "C08"), covers=False, fall_is_return=True,
    note="name-level guard only; the 'Class.method' guard goes through a set comprehension that is abstracted here (bounded stand-in)",
)

align_names = Unit(
    "fixes", "align_variable_names_with_convention",
    params={"source": "str", "preserve": ("set", "str")},
    yield_ensures=[
        ("renamed-name-is-not-preserved", "implies(isinstance(value[0], ast.Name), value[0].id not in preserve)"),
        ("renamed-function-is-not-preserved", "implies(isinstance(value[0], ast.FunctionDef) or isinstance(value[0], ast.AsyncFunctionDef), value[0].name not in preserve)"),
        ("renamed-class-is-not-preserved", "implies(isinstance(value[0], ast.ClassDef), value[0].name not in preserve)"),
        ("only-names-functions-and-classes-are-renamed", "isinstance(value[0], ast.Name) or isinstance(value[0], ast.FunctionDef) or isinstance(value[0], ast.AsyncFunctionDef) or isinstance(value[0], ast.ClassDef)"),
    ],
    attrs={"name": "str", "id": "str"}, lenient=True, props=("C07", "C08", "C19"), covers=False, fall_is_return=True,
)

UNITS = [delete_unused, align_names]
