"""C07 / C08 guarded-effect obligations: a rule yields a definition for deletion only if its name is not in `preserve`.

Proved for ALL preserve sets (so they serve safe mode, C07, and external preserve sets, C08).  Lenient units: everything but
the control flow, the collections of candidate nodes and the membership tests in `preserve` is abstracted to unconstrained
values.  The element predicate of each candidate list is the loop invariant of the loop that fills it.
"""
from pyvc.unit import Unit

NOT_PRESERVED = "forall(lambda k: implies(0 <= k and k < len({lst}), {lst}[k].name not in preserve))"

delete_unused = Unit(
    "fixes", "delete_unused_functions_and_classes",
    params={"source": "str", "preserve": ("set", "str")},
    yield_ensures=[("deleted-definition-is-not-preserved", "value[0].name not in preserve")],
    loops={0: {"inv": [NOT_PRESERVED.format(lst="funcdefs")]}, 1: {"inv": [NOT_PRESERVED.format(lst="classdefs")]}},
    local_shapes={"funcdefs": ("seq", "obj"), "classdefs": ("seq", "obj")},
    attrs={"name": "str"}, lenient=True, props=("C07", "C08"), covers=False, fall_is_return=True,
    note="name-level guard only; the 'Class.method' guard goes through a set comprehension that is abstracted here (bounded stand-in)",
)

align_names = Unit(
    "fixes", "align_variable_names_with_convention",
    params={"source": "str", "preserve": ("set", "str")},
    yield_ensures=[
        ("renamed-name-is-not-preserved", "implies(isinstance(value[0], ast.Name), value[0].id not in preserve)"),
        ("renamed-function-is-not-preserved", "implies(isinstance(value[0], ast.FunctionDef) or isinstance(value[0], ast.AsyncFunctionDef), value[0].name not in preserve)"),
        ("renamed-class-is-not-preserved", "implies(isinstance(value[0], ast.ClassDef), value[0].name not in preserve)"),
        ("only-names-functions-and-classes-are-renamed", "isinstance(value[0], ast.Name) or isinstance(value[0], ast.FunctionDef) or isinstance(value[0], ast.AsyncFunctionDef) or isinstance(value[0], ast.ClassDef)"),
    ],
    attrs={"name": "str", "id": "str"}, lenient=True, props=("C07", "C08", "C19"), covers=False, fall_is_return=True,
)

def slice_underscore_loop(fn):
    """the loop that replaces unused names by `_` (the later loop removes assignments whose target already is `_`)"""
    import ast as _ast
    from pyvc.unit import NotGenerated
    for st in fn.body:
        if isinstance(st, _ast.For) and "_iter_unused_names" in _ast.unparse(st.iter):
            return [st], "underscore-loop"
    raise NotGenerated("undefine_unused_variables: loop over _iter_unused_names not found")


undefine_unused = Unit(
    "fixes", "undefine_unused_variables", slice=slice_underscore_loop,
    params={"preserve": ("set", "str"), "root": "obj", "class_body_blacklist": "obj", "yielded": "obj"},
    yield_ensures=[("a-name-is-replaced-by-underscore-only-if-it-is-not-preserved", "value[0].id not in preserve")],
    loops={0: {"inv": ["True"]}},
    attrs={"name": "str", "id": "str"}, lenient=True, props=("C07", "C08", "C19"), covers=False, fall_is_return=True,
)
undefine_unused.key_suffix = "underscore-loop"


def slice_duplicate_group(fn):
    """inside the loop over groups of equivalent functions: from `preserved_nodes = {...}` to the loop that marks the others for deletion"""
    import ast as _ast
    from pyvc.unit import NotGenerated
    for st in fn.body:
        if isinstance(st, _ast.For) and "function_defs.values()" in _ast.unparse(st.iter):
            idx = [k for k, b in enumerate(st.body) if isinstance(b, _ast.Assign) and _ast.unparse(b.targets[0]) == "preserved_nodes"]
            if idx:
                return st.body[idx[0]:], "duplicate-group"
    raise NotGenerated("remove_duplicate_functions: `preserved_nodes = ...` inside the loop over function_defs.values() not found")


remove_duplicates = Unit(
    "fixes", "remove_duplicate_functions", slice=slice_duplicate_group,
    params={"preserve": ("set", "str"), "funcdefs": ("seq", "obj"), "delete": ("set", "obj"), "renamings": "obj"},
    requires=[("group-has-members", "len(funcdefs) >= 1"),
              ("nothing-preserved-is-marked-yet", "forall(lambda k: implies(0 <= k and k < len(funcdefs), funcdefs[k] not in delete))")],
    ensures=[("a-duplicate-marked-for-deletion-is-not-preserved",
              "forall(lambda k: implies(0 <= k and k < len(funcdefs) and funcdefs[k] in delete, funcdefs[k].name not in preserve))")],
    loops={0: {"inv": ["forall(lambda k: implies(0 <= k and k < len(funcdefs) and funcdefs[k] in delete, funcdefs[k].name not in preserve))"]}},
    attrs={"name": "str", "lineno": "int"}, lenient=True, props=("C07", "C08", "C19"), covers=False,
    subscript_store={"VObj": lambda eng, base, key, val, pc, line: base},
    note="funcdefs (one group of equivalent functions) is a sequence of distinct nodes; `renamings[...] = ...` is dropped (no effect on `delete`)",
)
remove_duplicates.key_suffix = "duplicate-group"

UNITS = [delete_unused, align_names, undefine_unused, remove_duplicates]
