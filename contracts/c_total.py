"""C04 pieces that are not already contracts of other modules: early returns of format_code, progress of self-recursive rules."""
import ast
import z3
from pyvc.unit import Unit, NotGenerated, find_def, segment_sha, module_source
from pyvc.tables import Gen
from .c_ignore import _skip_findall, _skip_search, g_skip


def slice_prefix(fn):
    body = [s for s in fn.body if not (isinstance(s, ast.Expr) and isinstance(s.value, ast.Constant))]
    for k, st in enumerate(body):
        # the statement that hands an invalid text back (an `if` with the same test that only dedents the text is not it)
        if isinstance(st, ast.If) and ast.unparse(st.test) == "not core.is_valid_python(source)" and st.body and isinstance(st.body[-1], ast.Return):
            return body[:k + 1], "early-returns"
    raise NotGenerated("format_code: `if not core.is_valid_python(source): return source` not found")


format_code_prefix = Unit(
    "main", "format_code", slice=slice_prefix,
    params={"source": "str"}, returns="obj",
    ensures=[("skip-file-returns-at-once", "implies(skips(old(source)), defined('result') and result == old(source))"),
             ("only-valid-python-reaches-the-rules", "implies(not defined('result'), core.is_valid_python(source))"),
             ("invalid-input-is-handed-back", "implies(defined('result') and not skips(old(source)), result == source)")],
    calls={"re.findall": _skip_findall, "re.search": _skip_search, "core.is_valid_python": ("uf", "bool"), "rmspace.format_str": ("uf", "str"), "fixes.fix_too_many_blank_lines": ("uf", "str"),
           "processing.keep_syntax_tree": ("uf", "str"), "_keep_ignored_lines": ("uf", "str"),
           "textwrap.dedent": ("uf", "str"), "formatting.indentation_level": ("uf", "int")}, ghost={"skips": g_skip},
    lenient=True, props=("C04", "C20"), covers=False,
)
format_code_prefix.key_suffix = "early-returns"

UNITS = [format_code_prefix]

RULE_MODULES = ("fixes", "abstractions", "object_oriented", "performance", "performance_numpy", "performance_pandas", "symbolic_math", "tracing")


def gen_progress(g: Gen):
    """necessary condition for termination of the self-recursive rules: a deterministic function called again on the SAME text
    recurses forever, so every direct self-call must be guarded by `its argument differs from the parameter source`"""
    n_sites = 0
    for mod in RULE_MODULES:
        text, tree = module_source(mod)
        parents = {}
        for p in ast.walk(tree):
            for c in ast.iter_child_nodes(p):
                parents[id(c)] = p
        for fn in [n for n in ast.walk(tree) if isinstance(n, ast.FunctionDef)]:
            if not fn.args.args or fn.args.args[0].arg != "source":
                continue
            for call in [n for n in ast.walk(fn) if isinstance(n, ast.Call) and isinstance(n.func, ast.Name) and n.func.id == fn.name and n.args]:
                # the call must belong to fn itself, not to a nested def of the same name
                anc, owner = call, None
                while id(anc) in parents:
                    anc = parents[id(anc)]
                    if isinstance(anc, ast.FunctionDef):
                        owner = anc
                        break
                if owner is not fn:
                    continue
                n_sites += 1
                arg = ast.unparse(call.args[0])
                guarded = False
                node = call
                while id(node) in parents and node is not fn:
                    par = parents[id(node)]
                    if isinstance(par, ast.If) and node in par.body and ast.unparse(par.test) in (f"{arg} != source", f"source != {arg}"):
                        guarded = True
                    # a preceding sibling `if arg == source: continue/return/break`
                    for field in ("body", "orelse", "finalbody"):
                        blk = getattr(par, field, None)
                        if isinstance(blk, list) and node in blk:
                            for prev in blk[:blk.index(node)]:
                                if isinstance(prev, ast.If) and ast.unparse(prev.test) in (f"{arg} == source", f"source == {arg}") and prev.body \
                                        and isinstance(prev.body[-1], (ast.Continue, ast.Return, ast.Break)):
                                    guarded = True
                    node = par
                g.oblige("progress", f"self-call-only-on-a-changed-text:{mod}.{fn.name}", [], z3.BoolVal(guarded), call.lineno)
    if n_sites < 3:
        raise NotGenerated(f"only {n_sites} self-recursive rule call sites found")
    g.lines = None
    g.assumptions.add("progress is a necessary condition only: termination of the self-recursive rules (each step changes the text) has no variant and is bounded (stand-in)")
