"""core.has_side_effect: structural soundness by induction on the AST, one obligation per (node type, evaluated field)  (C16, C07)

Spec (from C16: "deleted as pointless only if executing it binds nothing, calls nothing user-defined or unknown - not even
from inside a comprehension, conditional expression or f-string - and cannot alter control flow"):
    clean(n)  <=>  local_ok(n)  and  every child of n that is evaluated when n executes is clean.
Obligation for each `if isinstance(node, T): return E` branch of the REAL function and each field f of T that holds
sub-nodes evaluated when the node executes (ASDL signature of the running `ast` module, minus the justified exemptions
below):      not E(n)   ==>   no child c in f(n) has has_side_effect(c)            (recursive calls uninterpreted)
With the default branch `return True` this gives, by induction on the height of n:  not has_side_effect(n) ==> every
node evaluated under n is one for which has_side_effect is False; the local conditions (binding, call whitelist) of the
leaf types are checked by the bounded stand-in (execution with a trace hook).
"""
import ast
import re
import z3

from pyvc.tables import Gen
from pyvc.unit import find_def, segment_sha, NotGenerated

NONNODE = ("identifier", "int", "string", "constant", "expr_context", "operator", "unaryop", "boolop", "cmpop")

# spec: fields NOT evaluated when the node itself executes, or whose treatment is part of the spec
EXEMPT = {
    ("Lambda", "body"): "the body of a lambda does not run when the lambda expression is evaluated",
    ("Module", "type_ignores"): "not code",
    ("arguments", "vararg"): "parameter declarations (ast.arg) bind locals of the callee, evaluated never",
    ("arguments", "kwarg"): "same",
    ("comprehension", "target"): "the target of a comprehension is a binding local to the comprehension scope (the code requires it to be a plain Name)",
    ("Assign", "type_comment"): "not code", ("For", "type_comment"): "not code",
    ("Constant", "kind"): "not code",
    ("FunctionDef", "body"): "the body of a function does not run when the def statement executes",
    ("AsyncFunctionDef", "body"): "same",
    ("FunctionDef", "type_params"): "PEP 695 type parameters are evaluated lazily", ("AsyncFunctionDef", "type_params"): "same", ("ClassDef", "type_params"): "same",
    ("Call", "func"): "the callee expression is judged by the local whitelist condition of the Call branch (all names/attributes whitelisted, no call inside it): bounded stand-in",
}
# list fields whose elements are wrapper nodes inspected through one attribute
VIA = {("Call", "keywords"): "value", ("ClassDef", "keywords"): "value"}
# node types whose branch returns a constant decided by the spec itself (control flow / binding statements)
CONST_TRUE = {"Yield", "YieldFrom", "Return", "Raise", "Continue", "Break", "Assert", "Import", "ImportFrom"}


def asdl(cls):
    doc = (cls.__doc__ or "").replace("\n", " ")
    m = re.match(r"\w+\((.*)\)", doc)
    out = {}
    if not m:
        return out
    for part in m.group(1).split(","):
        part = part.strip()
        if part:
            ty, name = part.rsplit(" ", 1)
            out[name] = ty
    return out


def generate(g: Gen):
    fn, text = find_def("core", "has_side_effect")
    g.sha = segment_sha(text, fn)
    g.lines = [fn.lineno, fn.end_lineno]
    N = z3.DeclareSort("Node")
    I_, Bo = z3.IntSort(), z3.BoolSort()
    hseW = z3.Function("hse_whitelist", N, Bo)     # has_side_effect(c, safe_callable_whitelist)
    hse0 = z3.Function("hse_empty", N, Bo)         # has_side_effect(c)   (empty whitelist)
    n = z3.Const("n", N)
    k = z3.Int("k")
    m_ = z3.Const("m", N)
    MONO = z3.ForAll([m_], z3.Implies(hseW(m_), hse0(m_)))   # a bigger whitelist cannot add effects (spec-level fact)
    isnone = z3.Function("is_None", N, Bo)
    NONE_CLEAN = z3.ForAll([m_], z3.Implies(isnone(m_), z3.And(z3.Not(hseW(m_)), z3.Not(hse0(m_)))))   # `if node is None: return False` (checked below)

    def single(f):
        return z3.Function("f_" + f, N, N)

    def arr(f):
        return z3.Function("fs_" + f, N, z3.ArraySort(I_, N))

    def ln(f):
        return z3.Function("len_" + f, N, I_)

    class Seq:
        def __init__(s, parts):
            s.parts = parts

        def exists(s, pred):
            out = []
            for kind, p in s.parts:
                if kind == "one":
                    out.append(pred(p))
                elif kind == "mapped":
                    a, l, attr = p
                    out.append(z3.Exists([k], z3.And(0 <= k, k < l, pred(single(attr)(z3.Select(a, k))))))
                else:
                    a, l = p
                    out.append(z3.Exists([k], z3.And(0 <= k, k < l, pred(z3.Select(a, k)))))
            return z3.Or(*out) if out else z3.BoolVal(False)

    loc = {}

    def ub(name):
        return loc.setdefault(name, z3.Function("loc_" + re.sub(r"\W", "_", name)[:50], N, Bo))(n)

    state = {"FIELDS": {}}

    def node_expr(e, env):
        if isinstance(e, ast.Name) and e.id in env and not isinstance(env[e.id], Seq):
            return env[e.id]
        if isinstance(e, ast.Name) and e.id == "node":
            return n
        if isinstance(e, ast.Attribute):
            return single(e.attr)(node_expr(e.value, env))
        if isinstance(e, ast.Call) and ast.unparse(e.func) == "getattr" and len(e.args) == 3 and isinstance(e.args[1], ast.Constant) \
                and isinstance(e.args[2], ast.Constant) and e.args[2].value is None:
            # getattr(node, 'f', None): the field if the node type has it, else None (which is clean)
            base = node_expr(e.args[0], env)
            if e.args[1].value in state["FIELDS"]:
                return single(e.args[1].value)(base)
            return z3.Const("the_None_node", N)
        raise NotImplementedError("node_expr " + ast.unparse(e))

    def seq_expr(e, env):
        if isinstance(e, ast.Attribute) and isinstance(e.value, ast.Name) and e.value.id == "node":
            ty = state["FIELDS"].get(e.attr)
            if ty and ty.endswith("*"):
                return Seq([("many", (arr(e.attr)(n), ln(e.attr)(n)))])
            return Seq([("one", single(e.attr)(n))])
        if isinstance(e, (ast.List, ast.Tuple)):
            return Seq([("one", node_expr(x, env)) for x in e.elts])
        if isinstance(e, ast.BinOp) and isinstance(e.op, ast.Add):
            return Seq(seq_expr(e.left, env).parts + seq_expr(e.right, env).parts)
        if isinstance(e, ast.Call) and ast.unparse(e.func) == "itertools.chain":
            return Seq([p for a in e.args for p in seq_expr(a, env).parts])
        if isinstance(e, ast.Name) and e.id in env and isinstance(env[e.id], Seq):
            return env[e.id]
        if isinstance(e, ast.GeneratorExp) and len(e.generators) == 1 and not e.generators[0].ifs and isinstance(e.elt, ast.Attribute) \
                and isinstance(e.elt.value, ast.Name) and e.elt.value.id == e.generators[0].target.id:
            inner = seq_expr(e.generators[0].iter, env)
            parts = []
            for kind, p in inner.parts:
                if kind == "one":
                    parts.append(("one", single(e.elt.attr)(p)))
                else:
                    a, l = p
                    parts.append(("mapped", (a, l, e.elt.attr)))
            return Seq(parts)
        raise NotImplementedError("seq_expr " + ast.unparse(e))

    def bool_expr(e, env):
        if isinstance(e, ast.Constant):
            return z3.BoolVal(bool(e.value))
        if isinstance(e, ast.BoolOp):
            vs = [bool_expr(v, env) for v in e.values]
            return z3.And(*vs) if isinstance(e.op, ast.And) else z3.Or(*vs)
        if isinstance(e, ast.UnaryOp) and isinstance(e.op, ast.Not):
            return z3.Not(bool_expr(e.operand, env))
        if isinstance(e, ast.Call) and isinstance(e.func, ast.Name) and e.func.id == "has_side_effect":
            f = hseW if len(e.args) + len(e.keywords) == 2 else hse0
            return f(node_expr(e.args[0], env))
        if isinstance(e, ast.Call) and isinstance(e.func, ast.Name) and e.func.id in ("any", "all") and e.args and isinstance(e.args[0], ast.GeneratorExp):
            gx = e.args[0]
            comp = gx.generators[0]
            hs = [x for x in ast.walk(gx.elt) if isinstance(x, ast.Call) and getattr(x.func, "id", None) == "has_side_effect"]
            if not hs:
                return ub(ast.unparse(e))
            s_ = seq_expr(comp.iter, env)

            def pred(c):
                env2 = dict(env)
                env2[comp.target.id] = c
                return bool_expr(gx.elt, env2)
            return s_.exists(pred) if e.func.id == "any" else z3.Not(s_.exists(lambda c: z3.Not(pred(c))))
        if isinstance(e, ast.Call) and ast.unparse(e.func) == "bool" and len(e.args) == 1 and isinstance(e.args[0], ast.Attribute) \
                and ast.unparse(e.args[0].value) == "node" and state["FIELDS"].get(e.args[0].attr, "").endswith("*"):
            return ln(e.args[0].attr)(n) > 0          # bool(node.<list field>): the list is not empty
        if isinstance(e, ast.Call) and isinstance(e.func, ast.Name) and any(isinstance(x, ast.Name) and x.id == "node" for a in e.args for x in ast.walk(a)):
            try:
                find_def("core", e.func.id)
            except NotGenerated:
                return ub(ast.unparse(e))
            # a function of the module applied to the node may inspect its children: not interpreted here
            raise NotImplementedError("call of a module function on the node: " + ast.unparse(e)[:60])
        if isinstance(e, (ast.Compare, ast.Call)):
            return ub(ast.unparse(e))
        raise NotImplementedError("bool_expr " + ast.unparse(e))

    def inline_helper(body):
        """a branch that is just `return _helper(node, ...)` (the case was extracted into a private function of the module): analyse the helper's
        body instead, when it is called with its own parameter names; anything else about such a call is not interpreted -> NotGenerated"""
        stmts = [x for x in body if not (isinstance(x, ast.Expr) and isinstance(x.value, ast.Constant))]
        if len(stmts) == 1 and isinstance(stmts[0], ast.Return) and isinstance(stmts[0].value, ast.Call) and isinstance(stmts[0].value.func, ast.Name) \
                and stmts[0].value.func.id not in ("has_side_effect", "any", "all", "bool", "isinstance"):
            call = stmts[0].value
            try:
                helper, _ = find_def("core", call.func.id)
            except NotGenerated:
                raise NotGenerated(f"branch returns the result of `{call.func.id}`, which is not a function of the module")
            params = [a.arg for a in helper.args.posonlyargs + helper.args.args + helper.args.kwonlyargs]
            given = [ast.unparse(a) for a in call.args] + [k.arg for k in call.keywords if ast.unparse(k.value) == k.arg]
            if len(given) != len(call.args) + len(call.keywords) or given != params[:len(given)] or "node" not in given:
                raise NotGenerated(f"`{call.func.id}` is not called with its own parameter names: cannot inline")
            return [x for x in helper.body if not (isinstance(x, ast.Expr) and isinstance(x.value, ast.Constant))]
        return body

    # pre-branches of the form `if isinstance(node, T) and <cond>: return True` only add effects: sound, no obligation
    seen = set()
    none_branch = False
    branches = 0
    for st in fn.body:
        if isinstance(st, ast.If) and ast.unparse(st.test) == "node is None":
            ret = st.body[-1]
            ok = isinstance(ret, ast.Return) and isinstance(ret.value, ast.Constant) and ret.value.value is False
            g.oblige("branch", "None:is-clean", [], z3.BoolVal(bool(ok)), st.lineno)
            none_branch = True
            continue
        if not isinstance(st, ast.If):
            continue
        t = st.test
        if isinstance(t, ast.BoolOp):
            rets = [s for s in st.body if isinstance(s, ast.Return)]
            if not (isinstance(t.op, ast.And) and rets and isinstance(rets[-1].value, ast.Constant) and rets[-1].value.value is True):
                raise NotGenerated(f"guarded pre-branch at L{st.lineno} does not just return True")
            continue
        if not (isinstance(t, ast.Call) and getattr(t.func, "id", "") == "isinstance" and ast.unparse(t.args[0]) == "node"):
            raise NotGenerated(f"unrecognised branch test at L{st.lineno}: {ast.unparse(t)[:60]}")
        types = [x.attr for x in (t.args[1].elts if isinstance(t.args[1], ast.Tuple) else [t.args[1]])]
        for T in types:
            if T in seen or not hasattr(ast, T):
                continue
            seen.add(T)
            branches += 1
            cls = getattr(ast, T)
            state["FIELDS"] = asdl(cls)
            env = {}
            ret = None
            for s2 in inline_helper(st.body):
                if isinstance(s2, ast.Return):
                    ret = s2.value
                elif isinstance(s2, ast.If) and isinstance(s2.test, ast.Call) and getattr(s2.test.func, "id", "") == "isinstance":
                    inner = [x.attr for x in (s2.test.args[1].elts if isinstance(s2.test.args[1], ast.Tuple) else [s2.test.args[1]])]
                    chosen = s2.body if T in inner else s2.orelse
                    for s3 in chosen:
                        if isinstance(s3, ast.Assign) and isinstance(s3.targets[0], ast.Name):
                            try:
                                env[s3.targets[0].id] = seq_expr(s3.value, env)
                            except NotImplementedError:
                                pass
                        elif isinstance(s3, ast.Return):
                            ret = s3.value   # early return inside an inner isinstance test applies to this type
                elif isinstance(s2, ast.If):
                    # e.g. the whitelist extension in the Call branch, or an extra `return True` guard: only adds effects
                    for s3 in s2.body:
                        if isinstance(s3, ast.Return) and not (isinstance(s3.value, ast.Constant) and s3.value.value is True):
                            raise NotGenerated(f"conditional return of a non-True value in the {T} branch")
            if ret is None:
                raise NotGenerated(f"branch {T} without return")
            if T in CONST_TRUE:
                ok = isinstance(ret, ast.Constant) and ret.value is True
                g.oblige("branch", f"{T}:always-an-effect", [], z3.BoolVal(bool(ok)), st.lineno)
                continue
            try:
                E = bool_expr(ret, env)
            except NotImplementedError as ex:
                # this branch is outside what the extractor reads: ITS obligations are undecided, the other branches are still decided
                for f, ty in state["FIELDS"].items():
                    if ty.rstrip("*?") not in NONNODE and (T, f) not in EXEMPT:
                        g.obligs.append({"name": f"{g.key}:branch:{T}:{f}@L{st.lineno}", "kind": "branch", "line": st.lineno, "backend": "structure", "time_s": 0.0, "status": "undecided",
                                         "reason": f"the {T} branch returns an expression the extractor cannot interpret ({str(ex)[:60]}); the executed stand-in decides"})
                continue
            none_node = z3.Const("the_None_node", N)
            NONE_AX = z3.And(z3.Not(hseW(none_node)), z3.Not(hse0(none_node)))
            for f, ty in state["FIELDS"].items():
                base = ty.rstrip("*?")
                if base in NONNODE or (T, f) in EXEMPT:
                    continue
                if ty.endswith("*") and (T, f) in VIA:
                    goal = z3.ForAll([k], z3.Implies(z3.And(0 <= k, k < ln(f)(n)), z3.Not(hseW(single(VIA[(T, f)])(z3.Select(arr(f)(n), k))))))
                elif ty.endswith("*"):
                    goal = z3.ForAll([k], z3.Implies(z3.And(0 <= k, k < ln(f)(n)), z3.Not(hseW(z3.Select(arr(f)(n), k)))))
                else:
                    goal = z3.Not(hseW(single(f)(n)))
                g.oblige("branch", f"{T}:{f}", [MONO, NONE_AX, z3.Not(E)], goal, st.lineno)
    if not none_branch:
        raise NotGenerated("`if node is None: return False` not found")
    last = fn.body[-1]
    ok = isinstance(last, ast.Return) and isinstance(last.value, ast.Constant) and last.value.value is True
    g.oblige("branch", "default:unknown-node-types-have-an-effect", [], z3.BoolVal(bool(ok)), last.lineno)
    if branches < 30:
        raise NotGenerated(f"only {branches} node-type branches recognised")
    g.assumptions.add("induction schema over the height of the AST; recursive calls uninterpreted (hse_whitelist, hse_empty) with hse_whitelist => hse_empty")
    g.assumptions.add("evaluated-fields table = ASDL of the running ast module minus EXEMPT (contracts/x_has_side_effect.py), which is part of the spec")
    g.assumptions.add("local conditions of leaf types (Name store, call whitelist tests) are uninterpreted here and checked by the bounded stand-in")
