"""C08, the file part: "... or is referenced from a file passed as a preserved file on the command line (by from-import, module attribute or
attribute access) is neither deleted nor renamed".

Two links of that chain are decided here on the REAL code (run on representatives through pyvc.replay.call_real, one representative per
way a client can refer to a name; a mismatch comes with the client as witness):
  * main._used_names_in_file(client) contains every name the client reaches in the library, for each access form of the property;
  * the per-file preserve set that main.format_files hands to the worker of file F is the union of the names used by every preserved file
    OTHER than F itself - the real dict comprehension is compiled from the source text and evaluated on representative maps.
The remaining link (each rule consults the set) is c_preserve_guards / gen_preserve_refusals.
"""
import ast
import z3

from pyvc.tables import Gen
from pyvc.unit import find_def, segment_sha, NotGenerated

# (label, client source, names that must be in the result)
CLIENTS = [
    ("from-import", "from lib import run\nprint(run('x'))\n", ["run"]),
    ("from-import-never-used", "from lib import run, Engine\n", ["run", "Engine"]),
    ("from-import-alias", "from lib import describe as d\nprint(d(3))\n", ["describe"]),
    ("from-import-parenthesised", "from lib import (\n    first,\n    second as s,\n)\nprint(first, s)\n", ["first", "second"]),
    ("relative-from-import", "from .lib import helper\nprint(helper)\n", ["helper"]),
    ("from-import-in-function", "def f():\n    from lib import lazy\n    return lazy\n", ["lazy"]),
    ("from-import-in-function-never-used", "def f():\n    from lib import lazy as _unused\n", ["lazy"]),
    ("from-import-in-class-body-never-used", "class K:\n    from lib import member as _m\n", ["member"]),
    ("from-import-in-try", "try:\n    from lib import fast\nexcept ImportError:\n    fast = None\n", ["fast"]),
    ("from-import-in-try-never-used", "try:\n    from lib import fast as _f\nexcept ImportError:\n    pass\n", ["fast"]),
    ("from-import-under-if-never-used", "import sys\nif sys.argv:\n    from lib import cond as _c\n", ["cond"]),
    ("module-attribute", "import lib\nprint(lib.join(['a']))\n", ["join"]),
    ("module-alias-attribute", "import lib as L\nprint(L.double(4))\n", ["double"]),
    ("package-attribute-chain", "import pkg.lib\nprint(pkg.lib.deep(1))\n", ["deep", "lib"]),
    ("method-on-instance", "from lib import Engine\nprint(Engine().stopNow())\n", ["Engine", "stopNow"]),
    ("static-method-on-class", "from lib import Engine\nprint(Engine.make().cylinders)\n", ["Engine", "make", "cylinders"]),
    ("attribute-store", "import lib\nlib.verboseFlag = True\n", ["verboseFlag"]),
    ("attribute-augmented-store", "import lib\nlib.retryCount += 2\n", ["retryCount"]),
    ("attribute-delete", "import lib\ndel lib.tempValue\n", ["tempValue"]),
    ("attribute-of-call-result", "from lib import makeConverter\nprint(makeConverter().toCelsius(212))\n", ["makeConverter", "toCelsius"]),
    ("attribute-in-decorator", "import lib\n\n\n@lib.register\ndef f():\n    pass\n", ["register"]),
    ("attribute-in-annotation", "import lib\n\n\ndef f(x: lib.Shape) -> lib.Result:\n    return x\n", ["Shape", "Result"]),
    ("attribute-in-class-bases", "import lib\n\n\nclass K(lib.Base):\n    pass\n", ["Base"]),
    ("attribute-in-f-string", "import lib\nprint(f'{lib.version}')\n", ["version"]),
    ("attribute-in-lambda-default-comprehension", "import lib\ng = lambda x=lib.default: [lib.item(i) for i in x]\n", ["default", "item"]),
    ("attribute-in-match-value", "import lib\nmatch 1:\n    case lib.ONE:\n        pass\n", ["ONE"]),
    ("attribute-in-except-clause", "import lib\ntry:\n    pass\nexcept lib.Failure:\n    pass\n", ["Failure"]),
    ("attribute-in-with-and-async", "import lib\n\n\nasync def f():\n    async with lib.session() as s:\n        await s.fetch()\n", ["session", "fetch"]),
]


def gen_used_names(g: Gen):
    from pyvc.replay import call_real
    fn, text = find_def("main", "_used_names_in_file")
    g.sha = segment_sha(text, fn)
    g.lines = [fn.lineno, fn.end_lineno]
    snippet = (
        "import importlib, os, tempfile\n"
        "from pyrefact import logs\n"
        "logs.set_level(100)\n"
        "m = importlib.import_module('pyrefact.main')\n"
        "out = {}\n"
        "with tempfile.TemporaryDirectory() as d:\n"
        "    for lab, src in payload['clients']:\n"
        "        p = os.path.join(d, 'client.py')\n"
        "        open(p, 'w').write(src)\n"
        "        try:\n"
        "            out[lab] = sorted(m._used_names_in_file(p))\n"
        "        except Exception as ex:\n"
        "            out[lab] = None\n"
        "print(json.dumps(out))\n")
    res = call_real(snippet, {"clients": [(lab, src) for lab, src, _ in CLIENTS]}, timeout=120)
    for lab, src, must in CLIENTS:
        got = res.get(lab)
        if got is None:
            raise NotGenerated(f"_used_names_in_file raised on representative {lab}")
        for name in must:
            g.oblige("table", f"used-name-collected:{lab}:{name}", [], z3.BoolVal(name in got), fn.lineno,
                     replay=lambda m, lab=lab, src=src, got=got, name=name: {"reproduced": True, "input": f"main._used_names_in_file(<file containing {src!r}>)", "observed": got,
                                                                             "required": f"contains {name!r} (the preserved file reaches it by {lab})"})
    g.assumptions.add("one representative client per access form; `from lib import *` and getattr with a literal are outside (open finding F-08g / by design)")


def gen_file_preserve(g: Gen):
    """the real `filename_preserve = {...}` comprehension of format_files, compiled from the source and evaluated on representative inputs"""
    fn, text = find_def("main", "format_files")
    g.sha = segment_sha(text, fn)
    g.lines = [fn.lineno, fn.end_lineno]
    asg = [n for n in ast.walk(fn) if isinstance(n, ast.Assign) and any(isinstance(t, ast.Name) and t.id == "filename_preserve" for t in n.targets)]
    if len(asg) != 1:
        raise NotGenerated("format_files: exactly one assignment to filename_preserve expected")
    expr = asg[0].value
    free = {n.id for n in ast.walk(expr) if isinstance(n, ast.Name) and isinstance(n.ctx, ast.Load)}
    bound = {n.id for n in ast.walk(expr) if isinstance(n, ast.Name) and isinstance(n.ctx, ast.Store)}
    need = free - bound - {"frozenset", "set"}
    if not need <= {"used_names", "files_to_format", "_namespace_name"}:
        raise NotGenerated(f"filename_preserve depends on {sorted(need)}")
    ns_fn, _ = find_def("main", "_namespace_name")
    import os
    from pathlib import Path
    env = {"os": os, "Path": Path}
    exec(compile(ast.Module(body=[ns_fn], type_ignores=[]), "<main._namespace_name>", "exec"), env)      # the real helper
    ns = env["_namespace_name"]
    code = compile(ast.Expression(body=expr), "<main.format_files:filename_preserve>", "eval")
    files = ["/w/pkg/a.py", "/w/pkg/b.py", "/w/other/c.py"]
    cases = {
        "client-outside-the-run": ({ns("/w/client.py"): frozenset({"x", "y"})}, {f: {"x", "y"} for f in files}),
        "two-clients": ({ns("/w/client.py"): frozenset({"x"}), ns("/w/tests/t.py"): frozenset({"z"})}, {f: {"x", "z"} for f in files}),
        "preserved-file-is-also-formatted": ({ns("/w/pkg/a.py"): frozenset({"own"}), ns("/w/client.py"): frozenset({"x"})},
                                             {"/w/pkg/a.py": {"x"}, "/w/pkg/b.py": {"own", "x"}, "/w/other/c.py": {"own", "x"}}),
        "all-formatted-files-preserve-each-other": ({ns(f): frozenset({f[-4]}) for f in files}, {"/w/pkg/a.py": {"b", "c"}, "/w/pkg/b.py": {"a", "c"}, "/w/other/c.py": {"a", "b"}}),
        "nothing-preserved": ({}, {f: set() for f in files}),
    }
    for lab, (used, want) in cases.items():
        try:
            got = eval(code, {"used_names": used, "files_to_format": [Path(f) for f in files], "_namespace_name": ns, "frozenset": frozenset, "set": set})
            got = {str(k): set(v) for k, v in got.items()}
        except Exception as ex:          # noqa: BLE001
            raise NotGenerated(f"filename_preserve could not be evaluated on {lab}: {ex!r}")
        for f in files:
            g.oblige("table", f"per-file-preserve-is-the-union-over-the-other-preserved-files:{lab}:{f}", [], z3.BoolVal(got.get(f) == want[f]), asg[0].lineno,
                     replay=lambda m, lab=lab, f=f, got=got, want=want, used=used: {"reproduced": True, "input": f"used_names = {dict((k, sorted(v)) for k, v in used.items())!r}; file {f}",
                                                                                   "observed": sorted(got.get(f) or []), "required": sorted(want[f])})
    g.assumptions.add("three files in two folders, five shapes of the used-names map; the expression is evaluated, not proved for all maps")
