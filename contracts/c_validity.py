"""C03: valid Python in, valid Python out; never write a broken file.

`valid(.)` is core.is_valid_python, an uninterpreted predicate here (ast.parse is the definition of validity).
  * _replace_nodes, fix_import_spacing: result == source or valid(result)         (post-pass validity check with rollback)
  * _apply_rewrites, fix(...), chain(...): contracts/c_processing_scheduler.py      (valid in => valid out, by the callee contract)
  * format_file: a write happens only if new != initial and (valid(new) or not valid(initial)); nothing else is written
  * subn: its rule runs through processing.fix, so it inherits fix's contract (structural obligation)
"""
import ast
import z3
from pyvc.unit import Unit, NotGenerated, find_def, segment_sha
from pyvc.tables import Gen
from pyvc.values import VRec, VStr, VNone, VObj, VBool, fresh, OBJ, STR
from .shapes import RECORDS

VCALLS = {"core.is_valid_python": ("uf", "bool"), "_do_rewrite": ("uf", "str")}

replace_nodes = Unit(
    "processing", "_replace_nodes",
    params={"source": "str", "replacements": "obj"}, returns="str",
    ensures=[("valid-or-unchanged", "result == source or core.is_valid_python(result)")],
    calls=VCALLS, records=RECORDS, lenient=True, props=("C03",), covers=False,
)

def _parse_valid(eng, args, kw, env, pc, node):
    """core.parse(source) raises SyntaxError unless the text is valid Python (ast.parse is the definition of validity): on the path that
    continues, core.is_valid_python(source) holds.  Assumed contract of core.parse / core.is_valid_python."""
    pc.append(eng.uf_call("core.is_valid_python", [args[0]], "bool").t)
    eng.assumptions.add("assumed contract: core.parse(s) returns only if core.is_valid_python(s)")
    return VObj(fresh("tree", OBJ))


from .c_layout import keep_tree  # noqa: E402

fix_import_spacing = Unit(
    "fixes", "fix_import_spacing",
    params={"source": "str"}, returns="str",
    ensures=[("valid-or-unchanged", "result == source or core.is_valid_python(result)"),
             ("same-tree-or-unchanged", "result == source or _sources_equivalent(source, result)")],
    calls={"core.is_valid_python": ("uf", "bool"), "_sources_equivalent": ("uf", "bool"), "core.parse": _parse_valid, "processing.keep_syntax_tree": ("contract", keep_tree)},
    records=RECORDS, lenient=True, props=("C03", "C11"), covers=False,
)


# ----------------------------------------------------------------------------- format_file
def _open(eng, args, kw, env, pc, node):
    mode = args[1] if len(args) > 1 else None
    m = getattr(mode, "lit", None)
    if m not in ("r", "w"):
        from pyvc.engine import Undecided
        raise Undecided(f"open with mode {m!r}")
    return VRec("File", {"path": args[0], "mode": mode})


def _file_read(eng, args, kw, env, pc, node):
    return VStr(fresh("file_content", STR))


def _file_write(eng, args, kw, env, pc, node):
    f, data = args[0], args[1]
    eng.event("write", data, env, pc, getattr(node, "lineno", 0))
    return VNone()


def _path(eng, e, env, pc):
    return VObj(fresh("path", OBJ))


_path.lazy_args = True

format_file = Unit(
    "main", "format_file",
    params={"filename": "obj", "preserve": "obj", "safe": "bool"}, returns="obj",
    event_ensures=[("only-a-changed-text-is-written", "value != initial_content"),
                   ("never-replace-a-valid-file-by-an-invalid-one", "core.is_valid_python(value) or not core.is_valid_python(initial_content)"),
                   ("writes-the-formatter-result", "value == source")],
    ensures=[("unchanged-text-reports-no-change", "implies(source == initial_content, not result)")],
    calls={"open": _open, "File.read": _file_read, "File.write": _file_write, "Path": _path, "format_code": ("uf", "str"), "core.is_valid_python": ("uf", "bool")},
    attrs={"name": "str"}, records=RECORDS, lenient=True, props=("C03", "C20"), covers=False,
)

UNITS = [replace_nodes, fix_import_spacing, format_file]


def gen_structure(g: Gen):
    """structural obligations: (a) subn's rule is wrapped by processing.fix; (b) every rule format_code / _multi_run_fixes calls is either built
    with @processing.fix / processing.chain (covered by their contracts) or in the explicit list of direct-editing rules (bounded stand-in)"""
    from pyvc.unit import module_source
    fn, text = find_def("pattern_matching", "subn")
    inner = [n for n in ast.walk(fn) if isinstance(n, ast.FunctionDef) and n is not fn]
    ok = bool(inner) and any("processing.fix" in ast.unparse(d) for d in inner[0].decorator_list)
    g.oblige_text("structure", "subn-rule-runs-through-processing.fix", ok, fn.lineno)
    DIRECT = {"fixes.delete_commented_code", "fixes.move_before_loop", "fixes.delete_unused_functions_and_classes", "fixes.breakout_common_code_in_ifs",
              "abstractions.simplify_if_control_flow", "fixes.swap_if_else", "fixes.early_return", "fixes.early_continue", "fixes.missing_context_manager",
              "fixes.remove_duplicate_functions", "fixes.fix_duplicate_imports", "fixes.fix_too_many_blank_lines", "fixes.add_missing_imports",
              "abstractions.overused_constant", "fixes.align_variable_names_with_convention", "fixes.remove_unused_imports", "fixes.sort_imports",
              "fixes.fix_line_lengths", "fixes.undefine_unused_variables", "object_oriented.fix_unconventional_class_definitions",
              "object_oriented.remove_unused_self_cls", "object_oriented.move_staticmethod_static_scope", "fixes.move_imports_to_toplevel",
              "fixes.replace_for_loops_with_dict_comp", "fixes.replace_for_loops_with_set_list_comp", "fixes.inline_math_comprehensions",
              "fixes.simplify_assign_immediate_return", "fixes.fix_if_return", "fixes.fix_if_assign", "fixes.implicit_defaultdict",
              "fixes.replace_functions_with_literals", "fixes.simplify_transposes", "fixes.remove_redundant_else", "fixes.implicit_dict_keys_values_items"}
    tm, tree = module_source("main")
    called = set()
    for name in ("_multi_run_fixes", "format_code"):
        f_, _ = find_def("main", name)
        for n in ast.walk(f_):
            if isinstance(n, ast.Call) and isinstance(n.func, ast.Attribute) and isinstance(n.func.value, ast.Name) and n.func.value.id in (
                    "fixes", "abstractions", "object_oriented", "performance", "performance_numpy", "performance_pandas", "symbolic_math", "tracing"):
                called.add(f"{n.func.value.id}.{n.func.attr}")
            if isinstance(n, ast.Attribute) and isinstance(n.value, ast.Name) and n.value.id in ("fixes", "tracing") and isinstance(n.ctx, ast.Load):
                called.add(f"{n.value.id}.{n.attr}")
    g.lines = None
    n_fix = 0
    for qual in sorted(called):
        mod, fname = qual.split(".")
        try:
            d, _ = find_def(mod, fname)
        except NotGenerated:
            continue
        if not isinstance(d, ast.FunctionDef):
            continue
        decos = [ast.unparse(x) for x in d.decorator_list]
        is_fix = any(x.startswith("processing.fix") for x in decos)
        n_fix += is_fix
        g.oblige("structure", f"rule-is-scheduled-or-listed:{qual}", [], z3.BoolVal(is_fix or qual in DIRECT), d.lineno)
    if n_fix < 40:
        raise NotGenerated(f"only {n_fix} @processing.fix rules found among the rules format_code calls")
    g.assumptions.add("rules listed as direct-editing (not built with @processing.fix) are covered by the bounded stand-in only")


# ----------------------------------------------------------------------------- validity typing of every text-to-text function (pyvc/validity.py)
# functions that BUILD text themselves on the pinned tree (number of return expressions that are not VALID by the typing): bounded only.
SELF_BUILT = {
    "core.format_template": 1, "fixes._fix_undefined_variables": 1, "fixes._fix_variable_names": 1, "fixes.add_missing_imports": 1, "fixes.remove_duplicate_functions": 1,
    "formatting.collapse_trailing_parentheses": 1, "formatting.format_with_black": 1, "main._keep_ignored_lines": 2, "main._multi_run_fixes": 1, "main.format_code": 3,
    "processing._do_rewrite": 2, "processing._insert_nodes": 1, "processing.remove_nodes": 1,
}


def gen_validity_typing(g: Gen):
    """one obligation per function `f(source, ...) -> str` of the package: every return expression is VALID text given that the text parameter
    is valid (derived from the contracts of keep_syntax_tree / _replace_nodes / _apply_rewrites / fix / chain, which are proved as units)."""
    from pyvc import validity
    pkg = validity.Pkg()
    keys = []
    for k in sorted(pkg.funcs):
        _, fn = pkg.funcs[k]
        names = [a.arg for a in fn.args.posonlyargs + fn.args.args]
        if names and names[0] == "source" and fn.returns is not None and ast.unparse(fn.returns) == "str":
            keys.append(k)
    if len(keys) < 100:
        raise NotGenerated(f"only {len(keys)} text-to-text functions found")
    import json
    import os
    vp_path = os.path.join(os.path.dirname(os.path.dirname(os.path.abspath(__file__))), "baseline", "validity_vp.json")
    known_vp = set(json.load(open(vp_path))) if os.path.exists(vp_path) else set(keys)      # the functions typed valid-preserving on the pinned tree
    n_vp = 0
    for k in keys:
        _, fn = pkg.funcs[k]
        ok = pkg.vp(k)
        bad = pkg.why.get(k, [])
        allowed = SELF_BUILT.get(k, 0)
        if ok:
            n_vp += 1
            g.oblige("typing", f"returns-valid-text-for-valid-input:{k}", [], z3.BoolVal(True), fn.lineno)
        elif len(bad) <= allowed:
            g.assumptions.add(f"{k} builds text itself ({len(bad)} return path(s) outside the typing): validity of its result is bounded only")
            g.oblige("typing", f"no-new-unguarded-return-path:{k}", [], z3.BoolVal(True), fn.lineno)
        elif allowed == 0 and k not in known_vp:
            # a function the pinned tree does not have (an extracted helper, say) and that builds text itself: nothing that was guarded has lost
            # its guard - the functions that call it are judged on their own.  Undecided, never a violation.
            g.oblige_text("typing", f"returns-valid-text-for-valid-input:{k}", False, fn.lineno)
        else:
            name = f"returns-valid-text-for-valid-input:{k}" if allowed == 0 else f"no-new-unguarded-return-path:{k}"
            g.oblige("typing", name, [], z3.BoolVal(False), fn.lineno,
                     replay=lambda m, k=k, bad=bad, allowed=allowed: {"reproduced": False, "how": "static typing: a return path hands back text that no validity guard has seen; no input is constructed",
                                                                      "function": k, "unguarded_return_paths_on_the_pinned_tree": allowed,
                                                                      "unguarded_return_paths_now": [f"L{ln}: return {e}" for ln, e in bad]})
    if n_vp < 80:
        raise NotGenerated(f"only {n_vp} functions typed valid-preserving")
    g.assumptions.add("typing rules of pyvc/validity.py are stated, not mechanised; primitives: " + ", ".join(sorted(validity.PRIMITIVES)) + ", @processing.fix, processing.chain (their contracts are the C03 units)")
    g.assumptions.add("text parameter = the parameter named source / new_source; other parameters are not assumed valid")
