"""core.Range.overlaps / __and__  (C10, C20)

Spec function taken from the property text ("no two applied rewrites touch overlapping text"): two non-empty
half-open character ranges overlap iff some character position lies in both; an empty range (an insertion
point) conflicts with a range iff it lies strictly inside it.
"""
from pyvc.unit import Unit
from .shapes import RANGE, RECORDS

OV = "lambda a, b: a.start < b.end and b.start < a.end"

overlaps = Unit(
    "core", "Range.overlaps",
    params={"self": RANGE, "other": RANGE},
    returns="bool",
    ghost={"ov": OV},
    ensures=[
        ("nonempty-iff-common-char",
         "implies(self.start < self.end and other.start < other.end,"
         " iff(result, exists(lambda x: self.start <= x and x < self.end and other.start <= x and x < other.end)))"),
        ("empty-self-iff-strictly-inside",
         "implies(self.start == self.end and other.start <= other.end,"
         " iff(result, other.start < self.start and self.start < other.end))"),
        ("empty-other-iff-strictly-inside",
         "implies(other.start == other.end and self.start <= self.end,"
         " iff(result, self.start < other.start and other.start < self.end))"),
        ("symmetric-form", "iff(result, ov(other, self))"),
        ("def", "iff(result, ov(self, other))"),
    ],
    records=RECORDS, props=("C10", "C20"),
)

# modular summary used by callers of `a & b` / a.overlaps(b)
overlaps_summary = Unit("core", "Range.overlaps", name="core.Range.overlaps#summary",
                        params={"self": RANGE, "other": RANGE}, returns="bool", ghost={"ov": OV},
                        ensures=[("def", "iff(result, ov(self, other))")], records=RECORDS)

and_ = Unit(
    "core", "Range.__and__",
    params={"self": RANGE, "other": RANGE},
    returns="bool",
    ghost={"ov": OV},
    ensures=[("def", "iff(result, ov(self, other))")],
    calls={"Range.overlaps": ("contract", overlaps_summary), "self.overlaps": ("contract", overlaps_summary)},
    records=RECORDS, props=("C10", "C20"),
)

from pyvc.replay import replay_range_overlaps
overlaps.replay = replay_range_overlaps
and_.replay = replay_range_overlaps

UNITS = [overlaps, and_]
