"""C06: determinism across hash seeds and worker schedules.

  * The order in which scheduled rewrites are applied is fixed by a TOTAL content key (range, new text, transaction): the final sort of
    _schedule_rewrites orders by it (final-sort/content-key).  Entries that tie on the whole key have the same range, the same text and
    the same transaction, so exchanging them does not change the text _apply_rewrites produces (meta-argument, stated): whatever order
    the hash-ordered set `{(range, rewrite) ...}` a few lines above had is forgotten.
  * format_files: results are paired with files through ONE sorted list used both for dispatch and for zip, with an order-preserving
    pool method; a worker reads and writes only the file it was given; the per-file preserve set is a union (order-free); the change
    report is an `any` over the folders (order-free).  (table / dataflow obligations on the real AST)
Not decided here (bounded only): that no rule's OUTPUT depends on the iteration order of a set (transaction numbers follow yield order).
"""
import ast
import z3

from pyvc.unit import Unit, NotGenerated, find_def, segment_sha
from .shapes import RECORDS, SCHED_ENTRY
from .c_processing_scheduler import slice_final_sort, GHOST

final_sort_key = Unit(
    "processing", "_schedule_rewrites", slice=slice_final_sort, name="processing._schedule_rewrites/final-sort#content-key",
    params={"scheduled_rewrites": ("seq", SCHED_ENTRY)},
    ensures=[
        ("same-length", "len(result) == len(old(scheduled_rewrites))"),
        ("ordered-by-the-total-content-key", "forall(lambda a, b: implies(0 <= a and a < b and b < len(result), key(result[a]) >= key(result[b])))"),
    ],
    ghost={"key": "lambda e: (e[1][0], core.unparse(e[1][1].new) if e[1][1].new else '', e[0])"},
    calls={"core.unparse": ("uf", "str")}, records=RECORDS, props=("C06",),
)

UNITS = [final_sort_key]


def _assigned_before(fn, name, node):
    """last assignment to `name` that textually precedes `node` inside fn"""
    best = None
    for n in ast.walk(fn):
        if isinstance(n, ast.Assign) and any(isinstance(t, ast.Name) and t.id == name for t in n.targets) and n.lineno < node.lineno:
            if best is None or n.lineno > best.lineno:
                best = n
    return best


def gen_format_files(g):
    fn, text = find_def("main", "format_files")
    g.sha = segment_sha(text, fn)
    g.lines = [fn.lineno, fn.end_lineno]
    calls = [n for n in ast.walk(fn) if isinstance(n, ast.Call) and isinstance(n.func, ast.Attribute) and isinstance(n.func.value, ast.Name) and n.func.value.id == "pool"]
    if len(calls) != 1:
        raise NotGenerated("format_files: exactly one call on the worker pool expected")
    call = calls[0]
    g.oblige_text("table", "pool-method-preserves-input-order", call.func.attr in ("starmap", "map"), call.lineno)
    g.oblige_text("table", "worker-is-format_file", bool(call.args) and ast.unparse(call.args[0]) == "format_file", call.lineno)
    gen = call.args[1] if len(call.args) > 1 else None
    if not isinstance(gen, (ast.GeneratorExp, ast.ListComp)) or len(gen.generators) != 1:
        raise NotGenerated("format_files: task list is not a single comprehension")
    it = gen.generators[0].iter
    tgt = gen.generators[0].target
    g.oblige_text("table", "tasks-iterate-a-named-list", isinstance(it, ast.Name) and not gen.generators[0].ifs, call.lineno)
    itname = it.id if isinstance(it, ast.Name) else "?"
    asg = _assigned_before(fn, itname, call)
    g.oblige_text("dataflow", "dispatch-list-is-sorted", asg is not None and isinstance(asg.value, ast.Call) and ast.unparse(asg.value.func) == "sorted" and not asg.value.keywords, call.lineno)
    # every component of a task depends on the file of that task only (or on loop-invariant inputs)
    elts = gen.elt.elts if isinstance(gen.elt, ast.Tuple) else []
    tname = tgt.id if isinstance(tgt, ast.Name) else "?"
    ok = len(elts) == 3 and ast.unparse(elts[0]) == tname and ast.unparse(elts[1]) == f"filename_preserve[{tname}]" and ast.unparse(elts[2]) == "safe"
    g.oblige_text("dataflow", "task-arguments-depend-on-the-file-only", bool(ok), call.lineno)
    # results are paired with files through the same list
    zips = [n for n in ast.walk(fn) if isinstance(n, ast.Call) and ast.unparse(n.func) == "zip"]
    res_asg = [n for n in ast.walk(fn) if isinstance(n, ast.Assign) and n.value is call]
    resname = res_asg[0].targets[0].id if res_asg and isinstance(res_asg[0].targets[0], ast.Name) else "?"
    okz = len(zips) == 1 and [ast.unparse(a) for a in zips[0].args] == [itname, resname]
    between = [n for n in ast.walk(fn) if isinstance(n, (ast.Assign, ast.AugAssign)) and zips and call.lineno < n.lineno <= zips[0].lineno
               and any(isinstance(t, ast.Name) and t.id == itname for t in (n.targets if isinstance(n, ast.Assign) else [n.target]))]
    g.oblige_text("dataflow", "results-paired-through-the-dispatch-list", bool(okz) and not between, (zips[0] if zips else call).lineno)
    # per-file preserve set: a union of sets selected by a predicate on (name, file) -> independent of iteration order
    fp = _assigned_before(fn, "filename_preserve", call)
    okp = fp is not None and isinstance(fp.value, ast.DictComp) and ast.unparse(fp.value.value).startswith("frozenset().union(*")
    g.oblige_text("table", "per-file-preserve-is-an-order-free-union", bool(okp), (fp or call).lineno)
    ret = [n for n in fn.body if isinstance(n, ast.Return)]
    okr = len(ret) == 1 and isinstance(ret[0].value, ast.Call) and ast.unparse(ret[0].value.func) == "any"
    g.oblige_text("table", "change-report-is-an-order-free-any", bool(okr), (ret[0] if ret else fn).lineno)
    first = [n for n in ast.walk(fn) if isinstance(n, ast.For) and "sorted(filenames)" in ast.unparse(n.iter)]
    g.oblige_text("table", "folders-filled-from-the-sorted-argument", len(first) == 1, fn.lineno)
    # a file named twice in the argument is dispatched once per pass: the dispatch list is sorted(<a set>) - the set is what merges duplicates
    sorted_arg = asg.value.args[0] if asg is not None and isinstance(asg.value, ast.Call) and asg.value.args else None
    src_asg = _assigned_before(fn, sorted_arg.id, asg) if isinstance(sorted_arg, ast.Name) else None
    is_set = src_asg is not None and isinstance(src_asg.value, ast.Call) and ast.unparse(src_asg.value.func) in ("set", "frozenset") or isinstance(getattr(src_asg, "value", None), (ast.Set, ast.SetComp))
    g.oblige_text("dataflow", "dispatch-list-is-duplicate-free", bool(is_set), call.lineno)


def gen_format_file_frame(g):
    """a worker touches only the file it was given: every open() in format_file is on `filename`, which is bound once from the parameter"""
    fn, text = find_def("main", "format_file")
    g.sha = segment_sha(text, fn)
    g.lines = [fn.lineno, fn.end_lineno]
    opens = [n for n in ast.walk(fn) if isinstance(n, ast.Call) and ast.unparse(n.func) in ("open", "io.open")]
    g.oblige_text("frame", "some-file-access", len(opens) >= 1, fn.lineno)
    for k, o in enumerate(opens):
        g.oblige_text("frame", f"open-{k}-is-on-the-given-file", bool(o.args) and ast.unparse(o.args[0]) == "filename", fn.lineno)
    asg = [n for n in ast.walk(fn) if isinstance(n, ast.Assign) and any(isinstance(t, ast.Name) and t.id == "filename" for t in n.targets)]
    ok = len(asg) <= 1 and all(ast.unparse(a.value) == "Path(filename).resolve().absolute()" for a in asg)
    g.oblige_text("frame", "filename-is-the-parameter", bool(ok), fn.lineno)
    others = [n for n in ast.walk(fn) if isinstance(n, ast.Attribute) and n.attr in ("write_text", "write_bytes", "unlink", "rename", "replace", "mkdir", "touch")]
    g.oblige_text("frame", "no-other-file-system-write", not others, fn.lineno)
    g.assumptions.add("format_code has no file-system effect (reads pyproject.toml / traces imports only)")
