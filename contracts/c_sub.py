"""C14: pattern substitution (pattern_matching.subn / sub, processing.find_replace, _do_rewrite, _apply_rewrites, fix).

Sentences of the property and the obligation that carries each:
  "the count argument bounds the number of replacements"                       -> subn/count-normalisation + subn.fix_func (yields a
                                                                                  prefix of find_replace's items, at most `count`)
  "substituting with a pattern that does not occur returns the source
   byte-for-byte"                                                              -> fix.wrapper/no-items (given an empty schedule)
                                                                                  -> _apply_rewrites/empty (-> _substitute_original_strings
                                                                                  head: equal texts are returned unchanged)
  "each applied match is replaced ..." : the replaced range is exactly the
   hull of the matched nodes' ranges                                           -> find_replace/range-hull
  "lines not touched by a match are unchanged" (string literal content lines
   are never re-indented by the splice)                                        -> _do_rewrite/string-continuation-lines
  "lines carrying an ignore comment are never rewritten"                       -> the C20 units (_do_rewrite guards), shared
"""
import ast
import z3

from pyvc.unit import Unit, NotGenerated
from pyvc.values import VSeq, fresh_val
from .shapes import RANGE, RECORDS, SCHED_ENTRY
from .c_processing_scheduler import apply_summary

# ----------------------------------------------------------------------------- subn
FR2_ITEM = ("tuple", [RANGE, "str"])
FR2 = ("uf", ("seq", FR2_ITEM))


def slice_count_norm(fn):
    out = []
    for st in fn.body:
        if isinstance(st, (ast.FunctionDef, ast.AsyncFunctionDef)):
            break
        out.append(st)
    if not out:
        raise NotGenerated("subn: no statements before the nested rewrite generator")
    return out, "count-normalisation"


subn_count = Unit(
    "pattern_matching", "subn", slice=slice_count_norm,
    params={"pattern": "obj", "repl": "str", "source": "str", "count": "int"},
    ensures=[("positive-count-is-kept", "implies(old(count) > 0, count == old(count))"),
             ("non-positive-count-means-unlimited", "implies(old(count) <= 0, count == float('inf'))"),
             ("starts-at-zero", "replacements == 0")],
    props=("C14",),
)
subn_count.key_suffix = "count-normalisation"

subn_fix_func = Unit(
    "pattern_matching", "subn.fix_func",
    params={"src": "str", "pattern": "obj", "repl": "str", "count": "xint", "replacements": "int"},
    requires=[("count-normalised", "count == float('inf') or count > 0"), ("counter-starts-at-zero", "replacements == 0")],
    ensures=[("counter-equals-items-yielded", "replacements == __yields__"),
             ("count-bounds-the-replacements", "implies(count != float('inf'), replacements <= count)"),
             ("nothing-withheld-below-the-bound", "__yields__ == len(processing.find_replace(src, pattern, repl)) or replacements >= count"),
             ("never-more-than-there-are", "__yields__ <= len(processing.find_replace(src, pattern, repl))")],
    yield_ensures=[("kth-yield-is-kth-find_replace-item", "value == _iter[_i] and __yields__ == _i and replacements == _i and replacements < count")],
    loops={0: {"inv": ["__yields__ == _i", "replacements == _i", "count == float('inf') or replacements <= count"]}},
    calls={"processing.find_replace": FR2}, records=RECORDS, props=("C14",), fall_is_return=True,
)


# ----------------------------------------------------------------------------- _do_rewrite: string continuation lines
def slice_string_lines(fn):
    """the innermost `for lineno in range(...): indents[lineno] = 0` loop of the node-splice path"""
    for n in ast.walk(fn):
        if isinstance(n, ast.For) and isinstance(n.target, ast.Name) and n.body and isinstance(n.body[0], ast.Assign) \
                and ast.unparse(n.body[0].targets[0]).startswith("indents[") and ast.unparse(n.body[0].value) == "0":
            return [n], "string-continuation-lines"
    raise NotGenerated("_do_rewrite: loop exempting string continuation lines from re-indentation not found")


string_lines = Unit(
    "processing", "_do_rewrite", slice=slice_string_lines,
    params={"node": "obj", "indents": ("dict", "int", "int"), "lines_ending_in_string": ("set", "int")},
    requires=[("literal-spans-lines", "1 <= node.lineno and node.lineno <= node.end_lineno")],
    ensures=[
        # lines are indexed from 0 in `indents`, node.lineno counts from 1: the literal starts on index lineno-1, and the lines that
        # consist of string CONTENT (must not be re-indented) are the indices lineno .. end_lineno-1
        ("content-lines-not-reindented", "forall(lambda i: implies(node.lineno <= i and i < node.end_lineno, i in indents and indents[i] == 0))"),
        # the lines whose END lies inside the literal (indices lineno-1 .. end_lineno-2) keep their trailing whitespace
        ("lines-ending-inside-the-literal-keep-trailing-whitespace", "forall(lambda i: implies(node.lineno - 1 <= i and i < node.end_lineno - 1, i in lines_ending_in_string))"),
        ("no-other-line-is-exempted-from-trailing-whitespace-removal", "forall(lambda i: implies(i < node.lineno - 1 or i >= node.end_lineno - 1, (i in lines_ending_in_string) == (i in old(lines_ending_in_string))))"),
        ("first-line-and-other-lines-keep-their-indent",
         "forall(lambda i: implies(i < node.lineno or i >= node.end_lineno, (i in indents) == (i in old(indents)) and implies(i in old(indents), indents[i] == old(indents)[i])))"),
    ],
    loops={0: {"inv": ["forall(lambda i: implies(node.lineno - 1 <= i and i < node.lineno - 1 + _i, i in lines_ending_in_string))",
                       "forall(lambda i: implies(i < node.lineno - 1 or i >= node.lineno - 1 + _i, (i in lines_ending_in_string) == (i in old(lines_ending_in_string))))",
                       "forall(lambda i: implies(node.lineno <= i and i < node.lineno + _i, i in indents and indents[i] == 0))",
                       "forall(lambda i: implies(i < node.lineno or i >= node.lineno + _i, (i in indents) == (i in old(indents)) and implies(i in old(indents), indents[i] == old(indents)[i])))"]}},
    attrs={"lineno": "int", "end_lineno": "int"}, props=("C14",),
)
string_lines.key_suffix = "string-continuation-lines"


# ----------------------------------------------------------------------------- find_replace: replaced range = hull of the match ranges
def slice_range_hull(fn):
    loops = [n for n in fn.body if isinstance(n, ast.For)]
    for lp in loops:
        idx = [k for k, s in enumerate(lp.body) if isinstance(s, ast.Assign) and ast.unparse(s.targets[0]) == "ranges"]
        end = [k for k, s in enumerate(lp.body) if isinstance(s, ast.Assign) and ast.unparse(s.targets[0]) == "replacement_range"]
        if idx and end and idx[0] < end[0]:
            return lp.body[idx[0] + 1:end[0] + 1], "range-hull"
    raise NotGenerated("find_replace: computation of replacement_range from the match ranges not found")


range_hull = Unit(
    "processing", "find_replace", slice=slice_range_hull,
    params={"ranges": ("seq", RANGE)},
    requires=[("at-least-one-matched-node", "len(ranges) > 0")],
    ensures=[("covers-every-matched-node", "forall(lambda k: implies(0 <= k and k < len(ranges), replacement_range.start <= ranges[k].start and ranges[k].end <= replacement_range.end))"),
             ("starts-at-a-matched-node", "exists(lambda k: 0 <= k and k < len(ranges) and replacement_range.start == ranges[k].start)"),
             ("ends-at-a-matched-node", "exists(lambda k: 0 <= k and k < len(ranges) and replacement_range.end == ranges[k].end)")],
    records=RECORDS, props=("C14",),
)
range_hull.key_suffix = "range-hull"


def gen_match_ranges(g):
    """the `ranges` the hull is computed from are the character ranges of the root node of every match (m[0])"""
    from pyvc.unit import find_def, segment_sha
    fn, text = find_def("processing", "find_replace")
    g.sha = segment_sha(text, fn)
    g.lines = [fn.lineno, fn.end_lineno]
    asg = [n for n in ast.walk(fn) if isinstance(n, ast.Assign) and ast.unparse(n.targets[0]) == "ranges"]
    if len(asg) != 1:
        raise NotGenerated("find_replace: `ranges = ...` not found")
    v = asg[0].value
    ok = isinstance(v, ast.ListComp) and len(v.generators) == 1 and not v.generators[0].ifs and ast.unparse(v.generators[0].iter) == "matches" \
        and ast.unparse(v.elt) == f"core.get_charnos({ast.unparse(v.generators[0].target)}[0], source)"
    g.oblige_text("table", "ranges-are-the-charnos-of-every-match-root", bool(ok), asg[0].lineno)
    ys = [n for n in ast.walk(fn) if isinstance(n, ast.Assign) and ast.unparse(n.targets[0]) == "item"]
    ok2 = len(ys) == 1 and isinstance(ys[0].value, ast.List) and [ast.unparse(e_) for e_ in ys[0].value.elts] == ["replacement_range", "template_replacement"]
    g.oblige_text("table", "yielded-item-is-hull-and-instantiated-replacement", bool(ok2), (ys[0] if ys else fn).lineno if False else fn.lineno)


# ----------------------------------------------------------------------------- identity when nothing matches
def slice_head_equal(fn):
    """the leading guard only: without it the function may still be the identity on equal texts (the later early returns), which
    this contract cannot show -> not-generated (undecided), left to the bounded no-occurrence runs; never a violation"""
    body = [s for s in fn.body if not (isinstance(s, ast.Expr) and isinstance(s.value, ast.Constant))]
    if not body or not isinstance(body[0], ast.If) or "original_source" not in ast.unparse(body[0].test):
        raise NotGenerated("_substitute_original_strings: does not start with a guard on (original_source, new_source)")
    return body[:1], "equal-texts-returned-unchanged"


subst_head = Unit(
    "processing", "_substitute_original_strings", slice=slice_head_equal,
    params={"original_source": "str", "new_source": "str"}, returns="str",
    ensures=[("equal-texts-returned-unchanged", "implies(original_source == new_source, result is not None and result == new_source)")],
    props=("C14",),
)
subst_head.key_suffix = "equal-texts-returned-unchanged"

subst_summary = Unit("processing", "_substitute_original_strings", name="processing._substitute_original_strings#summary",
                     params={"original_source": "str", "new_source": "str"}, returns="str",
                     ensures=[("equal-texts-returned-unchanged", "implies(original_source == new_source, result == new_source)")])
fsubst_summary = Unit("processing", "_substitute_original_fstrings", name="processing._substitute_original_fstrings#assumed",
                      params={"original_source": "str", "new_source": "str"}, returns="str",
                      ensures=[("equal-texts-returned-unchanged", "implies(original_source == new_source, result == new_source)")],
                      note="ASSUMED (not proved): for equal texts every f-string's formatting is already among the original formattings, so no replacement is made; confirmed only by the bounded no-occurrence runs")

apply_empty = Unit(
    "processing", "_apply_rewrites", name="processing._apply_rewrites/empty",
    params={"source": "str", "rewrites": ("seq", SCHED_ENTRY)}, returns="str",
    ensures=[("no-rewrites-no-change", "implies(len(rewrites) == 0, result == source)")],
    loops={0: {"inv": ["implies(len(rewrites) == 0, new_source == source)", "original_source == source"]}},
    calls={"core.is_valid_python": ("uf", "bool"), "_do_rewrite": ("uf", "str"),
           "_substitute_original_strings": ("contract", subst_summary), "_substitute_original_fstrings": ("contract", fsubst_summary)},
    records=RECORDS, props=("C14",),
)

apply_empty_summary = Unit("processing", "_apply_rewrites", name="processing._apply_rewrites#summary14",
                           params={"source": "str", "rewrites": ("seq", SCHED_ENTRY)}, returns="str",
                           ensures=[("no-rewrites-no-change", "implies(len(rewrites) == 0, result == source)")], records=RECORDS)


def _lazy_schedule_empty(eng, e, env, pc):
    """_schedule_rewrites(...) in fix.wrapper: an arbitrary schedule, EMPTY when the rule yields nothing (ghost flag no_items).
    That the schedule only contains yielded rewrites is the step/loop contract of C10 (all-or-nothing: what a step adds are the
    rewrites of the transaction being processed)."""
    eng.assumptions.add("_schedule_rewrites schedules only rewrites the rule yielded (C10 step contract): no items -> empty schedule")
    s = fresh_val("schedule", ("seq", SCHED_ENTRY))
    return VSeq(s.arrs, z3.If(env["no_items"].t, 0, s.len), s.shape)


_lazy_schedule_empty.lazy_args = True

fix_no_items = Unit(
    "processing", "fix.fix_decorator.wrapper", name="processing.fix.fix_decorator.wrapper/no-items",
    params={"source": "str", "max_iter": "int", "no_items": "bool"}, returns="str",
    ensures=[("no-match-returns-the-source-byte-for-byte", "implies(no_items, result == old(source))")],
    loops={0: {"inv": ["implies(no_items, source == old(source))", "old(source) in history"]}},
    calls={"_schedule_rewrites": _lazy_schedule_empty, "_apply_rewrites": ("contract", apply_empty_summary)},
    records=RECORDS, props=("C14",),
)

UNITS = [subn_count, subn_fix_func, string_lines, range_hull, subst_head, apply_empty, fix_no_items]


# ----------------------------------------------------------------------------- find_replace: which replacements skip the parenthesisation probe
NOT_A_PRIMARY = [("bare-tuple", "a, b"), ("one-element-tuple", "a,"), ("binary-operator", "a + b"), ("power", "a ** b"), ("boolean-operator", "a or b"), ("comparison", "a < b"),
                 ("unary-minus", "-a"), ("not", "not a"), ("conditional", "a if b else c"), ("lambda", "lambda: a"), ("await", "await a"), ("integer", "1"), ("float", "1.5"),
                 ("imaginary", "1j"), ("starred", "*a"), ("yield", "yield a"), ("assignment-expression", "a := b"), ("bare-generator", "a for a in b")]
A_PRIMARY = [("name", "x"), ("string", "'s'"), ("call", "f(a, b)"), ("attribute", "a.b"), ("subscript", "a[b]"), ("list", "[a, b]"), ("dict", "{a: b}"), ("set", "{a, b}"),
             ("list-comprehension", "[a for a in b]"), ("f-string", "f'{a}'"), ("none", "None")]


def gen_is_atom(g):
    """_is_atom decides which instantiated replacements are spliced in WITHOUT asking whether they need parentheses.  The real function
    (it depends on `ast` only) is compiled from the source text and evaluated on one sample per kind of expression of Python's grammar:
    everything that is not a primary (atom, call, attribute reference, subscription) must be sent to the probe."""
    from pyvc.unit import find_def, segment_sha
    fn, text = find_def("processing", "_is_atom")
    g.sha = segment_sha(text, fn)
    g.lines = [fn.lineno, fn.end_lineno]
    ns = {"ast": ast}
    try:
        exec(compile(ast.Module(body=[fn], type_ignores=[]), "<_is_atom>", "exec"), ns)      # noqa: S102
        f = ns["_is_atom"]
        f("x")
    except Exception as ex:  # noqa: BLE001
        raise NotGenerated(f"_is_atom cannot be evaluated in isolation: {type(ex).__name__}: {ex}")
    for label, code in NOT_A_PRIMARY:
        got = bool(f(code))
        g.oblige("table", f"needs-the-parenthesisation-probe:{label}", [], z3.BoolVal(not got), fn.lineno,
                 replay=lambda m, code=code: {"reproduced": True, "input": f"_is_atom({code!r})", "observed": "True: spliced in without asking whether it needs parentheses", "required": "False"})
    ok = sum(bool(f(code)) for _, code in A_PRIMARY)
    g.cover("some-primary-is-recognised", [z3.BoolVal(ok > 0)], fn.lineno)
    g.assumptions.add("Python's expression grammar: only atoms, calls, attribute references and subscriptions bind tighter than every operator (one sample per other kind)")


# ----------------------------------------------------------------------------- _do_rewrite: the splice expressions (native string theory)
def gen_splice(g):
    """Every candidate text _do_rewrite builds is  source[:a] + <middle> + source[b:]  for the edited range [a, b).  The expressions are taken
    from the real AST and translated to z3's sequence theory (slices -> SubString with Python's clamping made explicit by the hypotheses
    0 <= a <= b <= len(source)); obligations: the candidate starts with source[:a], ends with source[b:], and has length
    a + len(middle) + len(source) - b.  This is the arithmetic behind `lines not touched by a match are unchanged` (before the whitespace
    minimiser, which is bounded only)."""
    from pyvc.unit import find_def, segment_sha
    fn, text = find_def("processing", "_do_rewrite")
    g.sha = segment_sha(text, fn)
    g.lines = [fn.lineno, fn.end_lineno]
    S = z3.String("source")
    a, b = z3.Ints("a b")
    hyp = [0 <= a, a <= b, b <= z3.Length(S)]
    mids = {}

    def is_src_prefix(e):       # source[:X]
        return isinstance(e, ast.Subscript) and ast.unparse(e.value) == "source" and isinstance(e.slice, ast.Slice) and e.slice.lower is None and e.slice.upper is not None and e.slice.step is None

    def is_src_suffix(e):       # source[X:]
        return isinstance(e, ast.Subscript) and ast.unparse(e.value) == "source" and isinstance(e.slice, ast.Slice) and e.slice.lower is not None and e.slice.upper is None and e.slice.step is None

    def flat(e):
        if isinstance(e, ast.BinOp) and isinstance(e.op, ast.Add):
            return flat(e.left) + flat(e.right)
        return [e]
    n = 0
    for asg in [x for x in ast.walk(fn) if isinstance(x, ast.Assign)]:
        parts = flat(asg.value)
        if len(parts) < 3 or not is_src_prefix(parts[0]) or not is_src_suffix(parts[-1]):
            continue
        def idx(e):
            """index expression over the start (a) and the end (b) of the edited range"""
            t_ = ast.unparse(e)
            if t_ in ("old.start", "start"):
                return a
            if t_ in ("old.end", "end"):
                return b
            if isinstance(e, ast.BinOp) and isinstance(e.op, (ast.Add, ast.Sub)) and isinstance(e.right, ast.Constant) and isinstance(e.right.value, int):
                return idx(e.left) + e.right.value if isinstance(e.op, ast.Add) else idx(e.left) - e.right.value
            raise NotGenerated(f"splice index `{t_}` is not the start / end of the edited range")
        label = f"{ast.unparse(asg.targets[0])}@{n}"
        n += 1
        lo_i, hi_i = idx(parts[0].slice.upper), idx(parts[-1].slice.lower)
        middle = []
        for p_ in parts[1:-1]:
            if isinstance(p_, ast.Constant) and isinstance(p_.value, str):
                middle.append(z3.StringVal(p_.value))
            else:
                key = ast.unparse(p_)
                middle.append(mids.setdefault(key, z3.String(f"mid_{len(mids)}")))
        M = z3.Concat(*middle) if len(middle) > 1 else middle[0]
        # Python slice semantics with clamping for the indices actually written in the code
        clamp = lambda i_: z3.If(i_ < 0, z3.If(i_ + z3.Length(S) < 0, 0, i_ + z3.Length(S)), z3.If(i_ > z3.Length(S), z3.Length(S), i_))      # noqa: E731
        lo_c, hi_c = clamp(lo_i), clamp(hi_i)
        E = z3.Concat(z3.SubString(S, 0, lo_c), M, z3.SubString(S, hi_c, z3.Length(S) - hi_c))
        g.oblige("splice", f"{label}:keeps-the-text-before-the-range", hyp, z3.SubString(E, 0, a) == z3.SubString(S, 0, a), asg.lineno)
        g.oblige("splice", f"{label}:keeps-the-text-after-the-range", hyp, z3.SubString(E, z3.Length(E) - (z3.Length(S) - b), z3.Length(S) - b) == z3.SubString(S, b, z3.Length(S) - b), asg.lineno)
        g.oblige("splice", f"{label}:length", hyp, z3.Length(E) == a + z3.Length(M) + z3.Length(S) - b, asg.lineno)
    for o_ in g.obligs:
        if not isinstance(o_, dict) and o_.kind == "splice":
            o_.z3_timeout_ms = 2000
    if n < 4:
        raise NotGenerated(f"only {n} splice expressions of the form source[:a] + ... + source[b:] found in _do_rewrite")
    g.assumptions.add("Python slices source[:a], source[b:] equal SubString under 0 <= a <= b <= len(source) (the range comes from get_charnos, C13); z3 sequence theory")
